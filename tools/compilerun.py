"""compilerun.py — run the real compiler (harness bin `inkcompile --batch`) over many sources in child
processes, observing from outside what an in-process harness cannot: hangs (no result within
`timeout` seconds after a case began), aborts / stack overflows (process died mid-case).

run(cases, exe) -> list of result dicts aligned with `cases`; a result is what inkcompile prints
({"id","status":"ok"|"err"|"panic",...}) or {"id","status":"hang"} / {"id","status":"crash","rc":n}.
"""
import json, os, random, select, subprocess, time
from concurrent.futures import ThreadPoolExecutor
import vlib

TIMEOUT = 5.0


def build():
    return vlib.build_harness(binname="inkcompile")


def _run_shard(exe, cases, tag, timeout):
    """one child at a time; restarted behind a culprit"""
    results = {}
    todo = list(cases)
    os.makedirs(vlib.SCRATCH, exist_ok=True)
    gen = 0
    while todo:
        gen += 1
        p = os.path.join(vlib.SCRATCH, f"comp_{tag}_{gen}.jsonl")
        with open(p, "w") as f:
            for c in todo:
                f.write(json.dumps(c) + "\n")
        errp = p + ".err"
        errf = open(errp, "wb")
        proc = subprocess.Popen([exe, "--batch", p], stdout=subprocess.PIPE, stderr=errf)
        fd = proc.stdout.fileno()
        buf = b""
        current = None          # index in todo of the case that has begun
        done = 0
        began_at = time.time()
        culprit = None
        while True:
            # a full line available?
            nl = buf.find(b"\n")
            if nl >= 0:
                line, buf = buf[:nl], buf[nl + 1:]
                try:
                    r = json.loads(line)
                except json.JSONDecodeError:
                    continue
                if "begin" in r:
                    current = done
                    began_at = time.time()
                else:
                    results[todo[done]["id"]] = r
                    done += 1
                    current = None
                continue
            left = timeout - (time.time() - began_at) if current is not None else timeout * 4
            if left <= 0:
                culprit = ("hang", None)
                break
            rd, _, _ = select.select([fd], [], [], left)
            if not rd:
                if current is not None:
                    culprit = ("hang", None)
                    break
                # nothing begun and nothing arriving: process stuck outside a case
                if proc.poll() is not None:
                    break
                culprit = ("hang", None)
                break
            chunk = os.read(fd, 1 << 16)
            if not chunk:
                break
            buf += chunk
        if culprit:
            proc.kill()
        rc = proc.wait()
        proc.stdout.close()
        errf.close()
        try:
            stderr_tail = open(errp, "rb").read()[-400:].decode("utf-8", "replace")
        except OSError:
            stderr_tail = ""
        for x in (p, errp):
            try:
                os.remove(x)
            except OSError:
                pass
        if done >= len(todo):
            break
        # the case at index `done` is the culprit (began or not)
        c = todo[done]
        if culprit:
            results[c["id"]] = {"id": c["id"], "status": "hang", "timeout_s": timeout}
        else:
            results[c["id"]] = {"id": c["id"], "status": "crash", "rc": rc,
                                "stack_overflow": "overflowed its stack" in stderr_tail,
                                "stderr": stderr_tail}
        todo = todo[done + 1:]
    return results


def run(cases, exe=None, timeout=TIMEOUT, shards=None, salt=""):
    """cases: [{"id","src",["want_json"],["base"]}] ; ids must be unique"""
    exe = exe or build()
    shards = shards or min(vlib.NPROC, max(1, len(cases) // 8 + 1))
    chunks = [cases[i::shards] for i in range(shards)]
    tag = "%08x" % random.getrandbits(32) + salt
    with ThreadPoolExecutor(max_workers=shards) as ex:
        futs = [ex.submit(_run_shard, exe, ch, f"{tag}_{k}", timeout) for k, ch in enumerate(chunks)]
        res = {}
        for f in futs:
            res.update(f.result())
    return [res.get(c["id"], {"id": c["id"], "status": "missing"}) for c in cases]


def compile_file(path, exe=None, timeout=60):
    """compile one .ink file with INCLUDEs resolved relative to it -> (ok, json text | error text)"""
    exe = exe or build()
    try:
        p = subprocess.run([exe, path], capture_output=True, text=True, timeout=timeout)
    except subprocess.TimeoutExpired:
        return False, "hang"
    if p.returncode == 0:
        return True, p.stdout
    return False, p.stderr.strip() or f"exit {p.returncode}"
