#!/usr/bin/env python3
"""inventory.py — list the theorems of theories/Props/*.v (name + first line of the comment above it)."""
import os, re, sys
V = os.path.dirname(os.path.dirname(os.path.abspath(__file__)))
def main():
    d = os.path.join(V, "theories", "Props")
    out = []
    for f in sorted(os.listdir(d)):
        if not f.endswith(".v"):
            continue
        s = open(os.path.join(d, f)).read()
        names = re.findall(r"^(?:Theorem|Corollary)\s+([A-Za-z0-9_']+)", s, re.M)
        ex = re.findall(r"^Example\s+([A-Za-z0-9_']+)", s, re.M)
        out.append("* `Props/%s` (%d theorems%s): %s" % (f, len(names), ", %d non-vacuity examples" % len(ex) if ex else "",
                                                        ", ".join("`%s`" % n for n in names)))
    print("\n".join(out))
if __name__ == "__main__":
    main()
