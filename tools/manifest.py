#!/usr/bin/env python3
"""manifest.py — writes MANIFEST.json from the table below (single source of truth for claims)."""
import json, os, subprocess
V = os.path.dirname(os.path.dirname(os.path.abspath(__file__)))
TECH = "machine-checked proof in Coq 8.16 over an executable model, tied to the code by regenerated tables and differential correspondence; failing inputs searched on the implementation"

CLAIMS = {
 "C19": dict(cat="proof", text="Coq theorems over the path model (text round trip for well-formed components, Eq implies equal hash input; tree-level resolution when present in Props/C19.v) re-checked against a switch regenerated from path.rs; differential runs model vs implementation; content-audit hook over every corpus object",
             note="model of path.rs is hand-written; tie = regenerated cache switch + correspondence on generated path strings; tree-level resolution also audited on the implementation"),
 "C09": dict(cat="proof", text="18 Coq theorems: the precondition `between_calls` is itself a theorem for every reachable world (bookkeeping_invariant: counter balanced on every Ok/Err exit); each rejected host call (cannot-continue, out-of-range choice, undeclared variable, unknown/blank function, bad argument, unknown path, absent flow/observer, double bind, async guard) returns an error and the world is literally unchanged, for the API model run with switches regenerated from the sources; engine model tied by transcript correspondence; lock-step oracle with every kind of invalid call injected at every position of explored histories, comparing later behaviour and the final save",
             note="engine model hand-written (Engine/*.v), tied by correspondence on the same cases; theorems assume the story's externals were validated (after the first continue) for the cannot-continue case"),
}

def hooks_commits():
    out = subprocess.run(["git", "-C", "/repo", "log", "--format=%h %s"], capture_output=True, text=True).stdout
    return [l.split()[0] for l in out.splitlines() if "verif hooks" in l]

def main():
    props = [json.loads(l) for l in open(os.path.join(V, "properties.jsonl"))]
    extra = {}
    p = os.path.join(V, "tools", "claims_extra.json")
    if os.path.exists(p):
        extra = json.load(open(p))
    claims = dict(CLAIMS); claims.update(extra)
    checks = []
    for pid in sorted(claims):
        c = claims[pid]
        checks.append({
            "property_id": pid,
            "quick_cmd": f"python3 tools/check.py {pid} --tier quick",
            "thorough_cmd": f"python3 tools/check.py {pid} --tier thorough",
            "evidence_file": f"/verif/evidence/{pid}.json",
            "replay_cmd_template": f"python3 tools/check.py {pid} --replay {{path}}",
            "engine": "coq-model",
            "level_claimed": {"category": c["cat"], "text": c["text"], "design_ref": f"DESIGN.md §6 {pid}"},
            "level_note": c["note"],
            "technique": c.get("technique", TECH)})
    done = set(claims)
    reasons = {}
    rp = os.path.join(V, "tools", "not_applicable.json")
    if os.path.exists(rp):
        reasons = json.load(open(rp))
    m = {"version": 1, "setup_cmd": "python3 tools/setup.py",
         "hooks": {"guard": "bladeink_verif",
                   "enable": "RUSTFLAGS=\"--cfg bladeink_verif\" (set by tools/vlib.py when building /verif/harness against /repo)",
                   "baseline_off_cmd": "cd /repo && cargo test --workspace --no-fail-fast --offline",
                   "source_commits": hooks_commits(), "add_only": True},
         "engines": [{"name": "coq-model", "path": "/verif/theories", "serves_properties": sorted(done),
                      "kind_free_text": "executable Gallina model + theorems (Coq 8.16.1), evaluated with vm_compute for correspondence"},
                     {"name": "inkdrive", "path": "/verif/harness", "serves_properties": sorted(done),
                      "kind_free_text": "Rust driver running host-call scripts on the real runtime (cfg bladeink_verif)"}],
         "checks": checks,
         "notes": "see DESIGN.md; known_findings.json lists fixed/known defects",
         "not_applicable": [{"property_id": p["id"],
                             "reason": reasons.get(p["id"], "check under construction in this round; not a claim of inapplicability")}
                            for p in props if p["id"] not in done]}
    json.dump(m, open(os.path.join(V, "MANIFEST.json"), "w"), indent=1)
    print("claimed:", sorted(done))

if __name__ == "__main__":
    main()
