"""engine_save.py — correspondence model <-> implementation for cases that use the save ops
(SAVE k, LOAD k, LOADNEW k, SHOWSAVE, LOADTEXT text): theories/Engine/RunSave.v vs harness/inkdrive.

Mirrors tools/engine.py::compare.  SHOWSAVE prints the canonical dump of the save (objects as
maps sorted by key, floats by f32 bit pattern) on both sides, so saves are compared structurally.
"""
import json, re
import vlib, engine

SAVE_SWITCH_FIELDS = ["choice_invisible_written", "choice_invisible_read", "list_origins_written",
                      "list_equal_origins", "float_equal_bits", "nonfinite_substituted", "function_start_saved",
                      "empty_thread_rejected", "no_threads_rejected"]
SAVE_OPS = {"SAVE", "LOAD", "LOADNEW", "SHOWSAVE", "LOADTEXT"}


def current_save_switches():
    import gen_tables
    facts = gen_tables.run(["save"])
    return {f: facts["save." + f] for f in SAVE_SWITCH_FIELDS}, facts


def save_switches_term(ssw):
    return "(mkSaveSw " + " ".join(engine.b(ssw[f]) for f in SAVE_SWITCH_FIELDS) + ")"


def op_term2(op):
    n = op[0]
    s = lambda i: op[i] if len(op) > i and isinstance(op[i], str) else ""
    if n == "SAVE":
        return f"(HSave {engine.tq(s(1))})"
    if n == "LOAD":
        return f"(HLoad {engine.tq(s(1))})"
    if n == "LOADNEW":
        return f"(HLoadNew {engine.tq(s(1))})"
    if n == "SHOWSAVE":
        return "HShowSave"
    if n == "LOADTEXT":
        try:
            j = json.loads(s(1), parse_constant=lambda c: (_ for _ in ()).throw(ValueError(c)))
        except Exception:
            return "HLoadBadText"
        return f"(HLoadText {vlib.json2coq(j)})"
    return f"(Base {engine.op_term(op)})"


def supported(case):
    for op in case.get("script", []):
        if not op:
            return False
        if op[0] in SAVE_OPS:
            continue
        if engine.op_term(op) == "HUnsupported":
            return False
    return True


def model_expr(case, impl_res, story_json, sw, ssw):
    script = case.get("script", [])
    ops = "[" + ";".join(op_term2(o) for o in script) + "]"
    ex = case.get("explore")
    exs = f"(Some ({int(ex.get('depth', 2))}%nat, {int(ex.get('max_paths', 50))}%nat))" if ex else "None"
    seed = int(case.get("seed", 42))
    fuel = int(case.get("fuel", 100000))
    return (f"join_with [10] (run_case2 {engine.switches_term(sw)} {engine.oracle_term(impl_res)} ssite_panics "
            f"{save_switches_term(ssw)} {vlib.json2coq(story_json)} ({seed})%Z {fuel}%N {ops} {exs})")


PRE = ("From Ink.Engine Require Import RunSave.\nFrom Ink.Data Require Import Types.\n"
       "From Ink.Gen Require Import SaveGen.\n")


def compare(cases, exe=None, sw=None, ssw=None, shard=24, impl=None):
    """returns list of dicts: id, status in {agree, mismatch, skipped-fuel, skipped-unsupported,
    compile-error, impl-crash, model-error}, first differing line, both transcripts"""
    exe = exe or vlib.build_harness()
    sw = sw or engine.current_switches()
    if ssw is None:
        ssw, _ = current_save_switches()
    for c in cases:
        c.setdefault("want_json", True)
    impl = impl or vlib.run_inkdrive(cases, exe)
    results, exprs, idx = [], [], []
    for c, r in zip(cases, impl):
        base = dict(id=c.get("id"), impl=r)
        if r.get("crash") is not None:
            results.append(dict(base, status="impl-crash")); continue
        if r.get("compile", "none") not in ("ok", "none"):
            results.append(dict(base, status="compile-error")); continue
        if r.get("out_of_fuel"):
            results.append(dict(base, status="skipped-fuel")); continue
        if not supported(c):
            results.append(dict(base, status="skipped-unsupported")); continue
        try:
            sj = json.loads(r.get("json") or (open(c["story_file"]).read() if "story_file" in c else c.get("story", "null")))
        except Exception:
            results.append(dict(base, status="skipped-badjson")); continue
        results.append(dict(base, status="pending"))
        exprs.append(model_expr(c, r, sj, sw, ssw)); idx.append(len(results) - 1)
    if exprs:
        try:
            outs = vlib.coq_eval_sharded(PRE, exprs, shard=shard, name="engsave")
        except RuntimeError as e:
            for i in idx:
                results[i]["status"] = "model-error"; results[i]["error"] = str(e)[-1500:]
            return results
        for i, o in zip(idx, outs):
            r = results[i]
            ml = engine.fix_floats(o.split("\n"), exe)
            il = engine.impl_lines(None, r["impl"])
            r["model_lines"], r["impl_lines"] = ml, il
            ok = len(ml) == len(il) and all(
                engine.lines_agree(engine.canon_line(a), engine.canon_line(b_)) for a, b_ in zip(il, ml))
            if ok:
                r["status"] = "agree"
            else:
                r["status"] = "mismatch"
                for k, (a, b_) in enumerate(zip(il, ml)):
                    if not engine.lines_agree(engine.canon_line(a), engine.canon_line(b_)):
                        r["first_diff"] = dict(line=k, impl=a, model=b_); break
                else:
                    r["first_diff"] = dict(line=min(len(il), len(ml)), impl=f"{len(il)} lines", model=f"{len(ml)} lines")
    return results


def wf_probe(cases, impl, sw=None, ssw=None, shard=6):
    """model only: for every case the string of `wf_world_b at_save_point` bit pairs after each op
    (are the hypotheses of the round-trip theorems met on the states the histories reach?)"""
    sw = sw or engine.current_switches()
    if ssw is None:
        ssw, _ = current_save_switches()
    exprs, idx = [], []
    for i, (c, r) in enumerate(zip(cases, impl)):
        if r.get("crash") is not None or r.get("out_of_fuel") or not supported(c) or r.get("load") != "ok":
            continue
        try:
            sj = json.loads(r.get("json") or (open(c["story_file"]).read() if "story_file" in c else c.get("story", "null")))
        except Exception:
            continue
        ops = "[" + ";".join(op_term2(o) for o in c.get("script", [])) + "]"
        exprs.append(f"wf_trace {engine.switches_term(sw)} {engine.oracle_term(r)} ssite_panics {save_switches_term(ssw)} "
                     f"{vlib.json2coq(sj)} ({int(c.get('seed', 42))})%Z {int(c.get('fuel', 100000))}%N {ops}")
        idx.append(i)
    outs = vlib.coq_eval_sharded(PRE, exprs, shard=shard, name="engwf") if exprs else []
    res = [None] * len(cases)
    for i, o in zip(idx, outs):
        res[i] = o.split(" ") if o else []
    return res
