"""gen_engine.py — facts about the engine code that the engine model is parametrised by.
Each is read off a named function; a reshaped function raises GenError (loudly)."""
import os
import re
import vlib
from gen_tables import fn_body, strip_comments, write_if_changed, GenError


def gen_engine():
    ss = strip_comments(vlib.repo_file("runtime/src/story_state.rs"))
    # 1. copy_and_start_patching inserts a clone of the current flow into named_flows
    body = fn_body(ss, "copy_and_start_patching")
    if "named_flows" not in body:
        raise GenError("copy_and_start_patching: named_flows handling not found")
    alias = bool(re.search(r"\.insert\(\s*copy\.current_flow\.name", body))
    # 2. reset_errors clears warnings too
    body = fn_body(ss[ss.index("pub(crate) fn reset_errors"):], "reset_errors")
    if "current_errors.clear()" not in body:
        raise GenError("StoryState::reset_errors: current_errors.clear() not found")
    warn = "current_warnings.clear()" in body
    # 3. remove_flow_internal unwraps named_flows
    body = fn_body(ss, "remove_flow_internal")
    rf_checked = "named_flows.as_mut().unwrap()" not in body
    if rf_checked and "named_flows" not in body:
        raise GenError("remove_flow_internal: named_flows handling not found")
    # 4. remove_variable_observer: position(..).unwrap()
    vo = strip_comments(vlib.repo_file("runtime/src/story/variable_observer.rs"))
    body = fn_body(vo, "remove_variable_observer")
    if "position(" not in body:
        raise GenError("remove_variable_observer: position() lookup not found")
    ob_checked = not re.search(r"position\([^;]*?\)\s*\.unwrap\(\)", body, re.S)
    # 5. seed arithmetic: `story_seed + previous_random` vs wrapping_add
    cl = strip_comments(vlib.repo_file("runtime/src/story/control_logic.rs"))
    plus = len(re.findall(r"story_seed\s*\+\s*self\.get_state\(\)\.previous_random", cl))
    wrap = len(re.findall(r"story_seed\s*\.wrapping_add\(\s*self\.get_state\(\)\.previous_random", cl))
    if plus + wrap != 2:
        raise GenError(f"control_logic.rs: expected two seed sums, found + x{plus}, wrapping x{wrap}")
    ovf = plus > 0
    # 6. continue_internal tests can_continue before `recursive_continue_count += 1`
    pr = strip_comments(vlib.repo_file("runtime/src/story/progress.rs"))
    body = fn_body(pr, "continue_internal")
    i_inc = body.find("self.recursive_continue_count += 1")
    i_chk = body.find("!self.can_continue()")
    if i_inc < 0 or i_chk < 0:
        raise GenError("continue_internal: counter increment / can_continue test not found")
    cont_first = i_chk < i_inc
    # 6b. the nesting counter is decremented BEFORE the error-delivery block (whose no-handler
    #     branch returns Err early): otherwise an error return leaks the counter
    i_dec = body.find("self.recursive_continue_count -= 1")
    i_del = body.find("match &self.on_error")
    if i_dec < 0 or i_del < 0:
        raise GenError("continue_internal: counter decrement / error-delivery block not found")
    if body.count("self.recursive_continue_count -= 1") != 1:
        raise GenError("continue_internal: the counter is decremented at more than one place, model has no such variant")
    dec_first = i_dec < i_del
    # 7. warnings cleared after delivery to the handler
    m = re.search(r"Some\(on_err\)\s*=>\s*\{", body)
    if not m:
        raise GenError("continue_internal: handler branch not found")
    hb = body[m.end():body.index("None =>", m.end())]
    if "reset_errors()" not in hb:
        raise GenError("continue_internal: handler branch no longer resets errors")
    warn = warn or "reset_warnings()" in hb
    # 8. choose_path_string resolves the path before reset_callstack; set_chosen_path order
    nav = strip_comments(vlib.repo_file("runtime/src/story/navigation.rs"))
    body = fn_body(nav, "choose_path_string")
    i_res = body.find("pointer_at_path(")
    i_rst = body.find("reset_callstack()")
    if i_rst < 0:
        raise GenError("choose_path_string: reset_callstack() not found")
    scp = fn_body(ss, "set_chosen_path")
    i_clr = scp.find("current_choices.clear()")
    i_ptr = scp.find("pointer_at_path(")
    if i_clr < 0 or i_ptr < 0:
        raise GenError("set_chosen_path: clear()/pointer_at_path not found")
    path_first = (0 <= i_res < i_rst) and (i_ptr < i_clr) and ("validate_arguments(" in body and body.find("validate_arguments(") < i_rst)
    if (0 <= i_res < i_rst) != (i_ptr < i_clr):
        raise GenError("choose_path_string / set_chosen_path: half-applied ordering, model has no such variant")
    # 9. evaluate_function validates arguments before reset_output
    body = fn_body(nav, "evaluate_function")
    i_val = body.find("validate_arguments(")
    i_out = body.find("reset_output(")
    if i_out < 0:
        raise GenError("evaluate_function: reset_output not found")
    eval_first = 0 <= i_val < i_out
    # 10. string-evaluation guard of call_external_function
    ext = strip_comments(vlib.repo_file("runtime/src/story/external_functions.rs"))
    body = fn_body(ext, "call_external_function")
    m = re.search(r"if\s+(!?)func_def\.lookahead_safe\s*&&\s*self\.get_state\(\)\.in_string_evaluation\(\)", body)
    if not m:
        raise GenError("call_external_function: string-evaluation guard not recognised")
    guard_fixed = m.group(1) == "!"
    # 11. async guards on the remaining state-changing calls
    stt = strip_comments(vlib.repo_file("runtime/src/story/state.rs"))
    flw = strip_comments(vlib.repo_file("runtime/src/story/flow.rs"))
    g_setvar = "if_async_we_cant(" in fn_body(stt, "set_variable")
    g_load = "if_async_we_cant(" in fn_body(stt, "load_state")
    g_rmflow = "if_async_we_cant(" in fn_body(flw, "remove_flow")
    g_swdef = "if_async_we_cant(" in fn_body(flw, "switch_to_default_flow")
    facts = {"engine.guard_setvar": g_setvar, "engine.guard_remove_flow": g_rmflow,
             "engine.guard_switch_default": g_swdef, "engine.guard_load": g_load}
    facts.update({"engine.counter_dec_first": dec_first})
    facts.update({"engine.cont_check_first": cont_first, "engine.path_validated_first": path_first,
             "engine.eval_args_first": eval_first, "engine.ext_guard_fixed": guard_fixed})
    facts.update({"engine.alias_current": alias, "engine.warnings_cleared": warn,
             "engine.observer_removal_checked": ob_checked, "engine.remove_flow_checked": rf_checked,
             "engine.ovf_panics": ovf})
    # 12. where the engine calls INTO the host (observer / error handler / external function) and who calls those
    # places: the model's event log is written by exactly these (Shell/Events.v: the one writer of the log)
    def enclosing_fn(text, pos):
        ms = list(re.finditer(r"\bfn\s+(\w+)\s*[<(]", text[:pos]))
        return ms[-1].group(1) if ms else "?"
    sites = []
    rt = os.path.join(vlib.REPO, "runtime", "src")
    for root_, _, fs in os.walk(rt):
        for f in sorted(fs):
            if not f.endswith(".rs") or f == "verif.rs":
                continue
            rel = os.path.relpath(os.path.join(root_, f), rt)
            txt = strip_comments(open(os.path.join(root_, f)).read())
            for pat, tag in ((r"\.borrow_mut\(\)\s*\.changed\(", "observer"),
                             (r"\.borrow_mut\(\)\s*\.error\(", "handler"),
                             (r"\.borrow_mut\(\)\s*\.call\(\s*func_name", "external"),
                             (r"\bself\.notify_variable_changed\(", "->observer"),
                             (r"\bself\.call_external_function\(", "->external")):
                for m in re.finditer(pat, txt):
                    sites.append("%s:%s:%s" % (rel, enclosing_fn(txt, m.start()), tag))
    sites.sort()
    expected = sorted([
        "story/variable_observer.rs:notify_variable_changed:observer",
        "story/progress.rs:continue_internal:handler", "story/progress.rs:continue_internal:handler",
        "story/external_functions.rs:call_external_function:external",
        "story/state.rs:set_variable:->observer", "story/progress.rs:continue_internal:->observer",
        "story/control_logic.rs:perform_logic_and_flow_control:->external"])
    host_ok = sites == expected
    facts.update({"engine.host_call_sites": sites, "engine.host_calls_confined": host_ok})
    # 13. who opens / closes the observation batch, and who takes / restores / discards the look-ahead snapshot:
    # the structural theorems (Shell/BatchShape.v, BatchClosed.v, PatchShape.v, PatchInv.v, Rewind.v) are about a model
    # in which only continue_internal and its loop step do
    struct = []
    for root_, _, fs in os.walk(rt):
        for f in sorted(fs):
            if not f.endswith(".rs") or f == "verif.rs":
                continue
            rel = os.path.relpath(os.path.join(root_, f), rt)
            txt = strip_comments(open(os.path.join(root_, f)).read())
            for pat, tag in ((r"\.start_variable_observation\(", "batch-open"),
                             (r"\.complete_variable_observation\(", "batch-close"),
                             (r"\bself\.state_snapshot\(\)", "snapshot"),
                             (r"\bself\.restore_state_snapshot\(\)", "restore"),
                             (r"\bself\.discard_snapshot\(\)", "discard"),
                             (r"\.copy_and_start_patching\(", "copy")):
                for m in re.finditer(pat, txt):
                    fn = enclosing_fn(txt, m.start())
                    if fn in ("state_snapshot", "restore_state_snapshot", "discard_snapshot") and tag in ("snapshot", "restore", "discard"):
                        continue
                    struct.append("%s:%s:%s" % (rel, fn, tag))
    struct.sort()
    struct_expected = sorted([
        "story/progress.rs:continue_internal:batch-open", "story/progress.rs:continue_internal:batch-close",
        "story/progress.rs:continue_internal:restore",
        "story/progress.rs:continue_single_step:restore", "story/progress.rs:continue_single_step:discard",
        "story/progress.rs:continue_single_step:discard", "story/progress.rs:continue_single_step:snapshot",
        "story/state.rs:state_snapshot:copy"])
    struct_ok = struct == struct_expected
    facts.update({"engine.lookahead_structure_sites": struct, "engine.lookahead_structure_confined": struct_ok})
    # 14. who WRITES what the host has registered (observers, external bindings, error handler, fallbacks flag):
    # the registration calls only (Shell/HostFrame.v: no story operation changes the registrations)
    regw = []
    for root_, _, fs in os.walk(rt):
        for f in sorted(fs):
            if not f.endswith(".rs") or f == "verif.rs":
                continue
            rel = os.path.relpath(os.path.join(root_, f), rt)
            txt = strip_comments(open(os.path.join(root_, f)).read())
            for pat, tag in ((r"\bvariable_observers\s*\.\s*(insert|remove|get_mut|iter_mut|clear|entry|retain|drain)\(", "observers"),
                             (r"\bvariable_observers\s*=[^=]", "observers"),
                             (r"\bexternals\s*\.\s*(insert|remove|get_mut|iter_mut|clear|entry|retain|drain)\(", "externals"),
                             (r"\bexternals\s*=[^=]", "externals"),
                             (r"\bon_error\s*=[^=]", "handler"),
                             (r"\ballow_external_function_fallbacks\s*=[^=]", "fallbacks")):
                for m in re.finditer(pat, txt):
                    fn = enclosing_fn(txt, m.start())
                    regw.append("%s:%s:%s" % (rel, fn, tag))
    regw = sorted(set(regw))
    allowed_fns = {"observe_variable", "observe_variables", "remove_variable_observer", "bind_external_function",
                   "unbind_external_function", "set_error_handler", "set_allow_external_function_fallbacks", "new"}
    reg_ok = all(x.split(":")[1] in allowed_fns for x in regw) and len(regw) > 0
    facts.update({"engine.registration_writers": regw, "engine.registrations_written_by_registration_calls": reg_ok})
    # 15. Story::load_state hands the text to StoryState::load_json and touches nothing else of the Story;
    # Story::reset_state REPLACES the StoryState (it does not read the old one) and then runs reset_globals
    # (Shell/HostFrameLoad.v: a load writes the StoryState only; Shell/ResetProofs.v: reset ignores the old state)
    lbody = re.sub(r"\s+", "", fn_body(stt, "load_state"))
    load_only = bool(re.fullmatch(
        r"\{?self\.if_async_we_cant\(\"[^\"]*\"\)\?;self\.get_state_mut\(\)\.load_json\(json_state\)\}?", lbody))
    rbody = re.sub(r"\s+", "", fn_body(stt, "reset_state"))
    i_new = rbody.find("self.state=StoryState::new(")
    reset_replaces = (i_new >= 0 and "self.state." not in rbody[:i_new] and "get_state" not in rbody[:i_new]
                      and "self.reset_globals()" in rbody[i_new:])
    facts.update({"engine.load_writes_state_only": load_only, "engine.reset_replaces_state": reset_replaces})
    b = lambda x: "true" if x else "false"
    out = ("(* GENERATED by tools/gen_engine.py from runtime/src/{story_state.rs,story/variable_observer.rs,"
           "story/control_logic.rs} — do not edit *)\n"
           f"Definition alias_current : bool := {b(alias)}.\n"
           f"Definition warnings_cleared : bool := {b(warn)}.\n"
           f"Definition observer_removal_checked : bool := {b(ob_checked)}.\n"
           f"Definition remove_flow_checked : bool := {b(rf_checked)}.\n"
           f"Definition seed_ovf_panics : bool := {b(ovf)}.\n"
           f"Definition cont_check_first : bool := {b(cont_first)}.\n"
           f"Definition path_validated_first : bool := {b(path_first)}.\n"
           f"Definition eval_args_first : bool := {b(eval_first)}.\n"
           f"Definition ext_guard_fixed : bool := {b(guard_fixed)}.\n"
           f"Definition guard_setvar : bool := {b(g_setvar)}.\n"
           f"Definition guard_remove_flow : bool := {b(g_rmflow)}.\n"
           f"Definition guard_switch_default : bool := {b(g_swdef)}.\n"
           f"Definition guard_load : bool := {b(g_load)}.\n"
           f"Definition counter_dec_first : bool := {b(dec_first)}.\n"
           "(* the engine calls into the host (observer / error handler / external function) at exactly the places the\n"
           "   model logs an event: notify_variable_changed (from continue_internal and set_variable), the delivery block\n"
           "   of continue_internal, call_external_function (from perform_logic_and_flow_control) *)\n"
           f"Definition host_calls_confined : bool := {b(host_ok)}.\n"
           "(* the observation batch is opened / closed, and the look-ahead snapshot taken / restored / discarded, by\n"
           "   continue_internal and continue_single_step only (copy_and_start_patching from state_snapshot only) *)\n"
           f"Definition lookahead_structure_confined : bool := {b(struct_ok)}.\n"
           "(* what the host has registered (observers, externals, error handler, fallbacks flag) is written by the\n"
           "   registration calls only *)\n"
           f"Definition registrations_written_by_registration_calls : bool := {b(reg_ok)}.\n"
           "(* Story::load_state = async guard + StoryState::load_json, nothing else of the Story is touched;\n"
           "   Story::reset_state replaces the StoryState without reading the old one, then reset_globals *)\n"
           f"Definition load_writes_state_only : bool := {b(load_only)}.\n"
           f"Definition reset_replaces_state : bool := {b(reset_replaces)}.\n")
    return write_if_changed("theories/Gen/EngineGen.v", out), facts
