"""mutate_json.py — malformed-input generators for C15 (and anyone else).

Two families, every random choice from the `rng` passed in:
  * structural mutations of a parsed JSON value (delete / retype / duplicate / swap a node, rename a
    key to one the loaders look for, numeric extremes, string prefixes) -> serialised text
  * text-level mutations (truncation at every k-th byte, random byte edits, nesting bombs)
Each mutant is (kind, text).
"""
import copy, json

LOADER_KEYS = ["#f", "#n", "->", "f()", "->t->", "x()", "var", "c", "exArgs", "*", "flg", "VAR?", "CNT?",
               "VAR=", "temp=", "re", "#", "list", "origins", "^->", "^var", "ci", "originalChoicePath",
               "text", "index", "originalThreadIndex", "targetPath", "tags", "inkVersion", "root", "listDefs",
               "global decl",
               # save-state keys
               "flows", "currentFlowName", "variablesState", "evalStack", "visitCounts", "turnIndices",
               "turnIdx", "storySeed", "previousRandom", "inkSaveVersion", "inkFormatVersion", "callstack",
               "threads", "threadCounter", "outputStream", "currentChoices", "choiceThreads", "cPath", "idx",
               "exp", "type", "temp", "previousContentObject", "currentDivertTarget", "DEFAULT_FLOW"]
RETYPES = [None, True, False, 0, 1, -1, 1.5, "", "^", "x", "\n", "<>", "done", "ev", "void", [], {}, [None],
           ["done", None], {"a": 1}, {"#f": 1}, {"#n": "n"}, {"->": "0"}, {"*": ".^.c", "flg": 18},
           {"list": {}, "origins": ["l"]}, {"^->": "a.b"}, {"^var": "x", "ci": 0}, {"VAR?": "x"},
           {"CNT?": "a"}, {"VAR=": "x"}, {"#": "t"}, {"originalChoicePath": "0"}]
NUMS = [0, -1, 1, 2**31 - 1, 2**31, -2**31, -2**31 - 1, 2**32, 2**53, 2**63 - 1, 2**63, -2**63, -2**63 - 1,
        2**64 - 1, 2**64, 10**30, -10**30, 0.5, -0.0, 1e38, 3.5e38, 1e39, -1e39, 1e300, 5e-324, 21, 22, 17, 18]
STRS = ["", "^", "^x", "\n", "\nx", "<>", "L^", "void", "done", "0", "+5", "007", ".", "..", ".^", ".^.^.^.^.^.^",
        "a.b", "a..b", "18446744073709551616", "é", "\U0001f600", "x" * 300]


def nodes(v, path=()):
    """all node paths (tuples of keys/indices) in pre-order, root first"""
    out = [path]
    if isinstance(v, list):
        for i, x in enumerate(v):
            out.extend(nodes(x, path + (i,)))
    elif isinstance(v, dict):
        for k, x in v.items():
            out.extend(nodes(x, path + (k,)))
    return out


def get(v, path):
    for p in path:
        v = v[p]
    return v


def setp(v, path, new):
    if not path:
        return new
    get(v, path[:-1])[path[-1]] = new
    return v


def delp(v, path):
    if not path:
        return None
    par = get(v, path[:-1])
    del par[path[-1]]
    return v


def dumps(v):
    return json.dumps(v, ensure_ascii=False, separators=(",", ":"))


def structural(doc, rng, n, focus=None):
    """n structural mutants of doc.  focus: optional predicate on paths to bias node choice."""
    allp = nodes(doc)
    if focus:
        fp = [p for p in allp if focus(p)] or allp
    else:
        fp = allp
    out = []
    tries = 0
    while len(out) < n and tries < 20 * n + 50:
        tries += 1
        d = copy.deepcopy(doc)
        p = rng.choice(fp if rng.random() < 0.8 else allp)
        kind = rng.choice(["delete", "retype", "retype", "dup", "swap", "num", "num", "key", "key", "str", "empty",
                           "wrap", "lastnull"])
        try:
            cur = get(d, p)
            if kind == "delete":
                if not p:
                    continue
                d = delp(d, p)
            elif kind == "retype":
                d = setp(d, p, copy.deepcopy(rng.choice(RETYPES)))
            elif kind == "dup":
                if not p:
                    continue
                par = get(d, p[:-1])
                if isinstance(par, list):
                    par.insert(rng.randrange(len(par) + 1), copy.deepcopy(cur))
                else:
                    par[rng.choice(LOADER_KEYS + [str(p[-1]) + "2"])] = copy.deepcopy(cur)
            elif kind == "swap":
                q = rng.choice(allp)
                if q[:len(p)] == p or p[:len(q)] == q:
                    continue
                a, b = copy.deepcopy(get(d, p)), copy.deepcopy(get(d, q))
                d = setp(d, p, b)
                d = setp(d, q, a)
            elif kind == "num":
                cands = [q for q in allp if isinstance(get(doc, q), (int, float)) and not isinstance(get(doc, q), bool)]
                if not cands:
                    continue
                q = rng.choice(cands)
                d = setp(d, q, rng.choice(NUMS))
            elif kind == "key":
                cands = [q for q in allp if q and isinstance(get(doc, q[:-1]), dict)]
                if not cands:
                    continue
                q = rng.choice(cands)
                par = get(d, q[:-1])
                val = par.pop(q[-1])
                par[rng.choice(LOADER_KEYS)] = val
            elif kind == "str":
                cands = [q for q in allp if isinstance(get(doc, q), str)]
                if not cands:
                    continue
                d = setp(d, rng.choice(cands), rng.choice(STRS))
            elif kind == "empty":
                cands = [q for q in allp if isinstance(get(doc, q), (list, dict))]
                q = rng.choice(cands)
                d = setp(d, q, [] if isinstance(get(doc, q), list) else {})
            elif kind == "wrap":
                d = setp(d, p, [copy.deepcopy(cur)] if rng.random() < 0.5 else {"a": copy.deepcopy(cur)})
            elif kind == "lastnull":
                cands = [q for q in allp if isinstance(get(doc, q), list) and get(doc, q)]
                if not cands:
                    continue
                q = rng.choice(cands)
                lst = get(d, q)
                if rng.random() < 0.5:
                    lst.pop()
                else:
                    lst[-1] = copy.deepcopy(rng.choice(RETYPES))
            out.append((kind, dumps(d)))
        except (KeyError, IndexError, TypeError, ValueError, OverflowError):
            continue
    return out


def truncations(text, k):
    """prefixes of the text cut at every k-th byte (on a character boundary)"""
    b = text.encode("utf-8")
    out = []
    for i in range(0, len(b), max(1, k)):
        out.append(("truncate", b[:i].decode("utf-8", errors="ignore")))
    return out


def byte_noise(text, rng, n):
    out = []
    pool = '[]{}",:\\0123456789.-eEtfn \n\t\x00é^#*<>'
    for _ in range(n):
        s = list(text)
        if not s:
            break
        for _ in range(rng.choice([1, 1, 2, 4])):
            i = rng.randrange(len(s))
            op = rng.choice(["del", "ins", "rep"])
            if op == "del":
                del s[i]
                if not s:
                    break
            elif op == "ins":
                s.insert(i, rng.choice(pool))
            else:
                s[i] = rng.choice(pool)
        out.append(("bytes", "".join(s)))
    return out


def random_text(rng, n):
    out = []
    pool = '[]{}",:\\0123456789.-eEtfn \n\t^#*<>abcinkVersionrootlistDefs'
    for _ in range(n):
        out.append(("random", "".join(rng.choice(pool) for _ in range(rng.randrange(0, 60)))))
    return out


def nesting_bombs(template, depths, closed=(True, False)):
    """template: text with the marker @@ where the bomb goes"""
    out = []
    for d in depths:
        for c in closed:
            for op, cl in (("[", "]"), ('{"a":', "}"), ('["x",{"n":', "}]")):
                body = op * d + ("null" if op != "[" else "") + (cl * d if c else "")
                out.append((f"bomb{d}{'c' if c else 'o'}", template.replace("@@", body)))
    return out
