"""mutate_json.py — malformed-input generators for C15 (and anyone else).

Two families, every random choice from the `rng` passed in:
  * structural mutations of a parsed JSON value (delete / retype / duplicate / swap a node, rename a
    key to one the loaders look for, numeric extremes, string prefixes) -> serialised text
  * text-level mutations (truncation at every k-th byte, random byte edits, nesting bombs)
Each mutant is (kind, text).
"""
import copy, json

LOADER_KEYS = ["#f", "#n", "->", "f()", "->t->", "x()", "var", "c", "exArgs", "*", "flg", "VAR?", "CNT?",
               "VAR=", "temp=", "re", "#", "list", "origins", "^->", "^var", "ci", "originalChoicePath",
               "text", "index", "originalThreadIndex", "targetPath", "tags", "inkVersion", "root", "listDefs",
               "global decl",
               # save-state keys
               "flows", "currentFlowName", "variablesState", "evalStack", "visitCounts", "turnIndices",
               "turnIdx", "storySeed", "previousRandom", "inkSaveVersion", "inkFormatVersion", "callstack",
               "threads", "threadCounter", "outputStream", "currentChoices", "choiceThreads", "cPath", "idx",
               "exp", "type", "temp", "previousContentObject", "currentDivertTarget", "DEFAULT_FLOW"]
RETYPES = [None, True, False, 0, 1, -1, 1.5, "", "^", "x", "\n", "<>", "done", "ev", "void", [], {}, [None],
           ["done", None], {"a": 1}, {"#f": 1}, {"#n": "n"}, {"->": "0"}, {"*": ".^.c", "flg": 18},
           {"list": {}, "origins": ["l"]}, {"^->": "a.b"}, {"^var": "x", "ci": 0}, {"VAR?": "x"},
           {"CNT?": "a"}, {"VAR=": "x"}, {"#": "t"}, {"originalChoicePath": "0"}]
NUMS = [0, -1, 1, 2**31 - 1, 2**31, -2**31, -2**31 - 1, 2**32, 2**53, 2**63 - 1, 2**63, -2**63, -2**63 - 1,
        2**64 - 1, 2**64, 10**30, -10**30, 0.5, -0.0, 1e38, 3.5e38, 1e39, -1e39, 1e300, 5e-324, 21, 22, 17, 18]
STRS = ["", "^", "^x", "\n", "\nx", "<>", "L^", "void", "done", "0", "+5", "007", ".", "..", ".^", ".^.^.^.^.^.^",
        "a.b", "a..b", "18446744073709551616", "é", "\U0001f600", "x" * 300]


def nodes(v, path=()):
    """all node paths (tuples of keys/indices) in pre-order, root first"""
    out = [path]
    if isinstance(v, list):
        for i, x in enumerate(v):
            out.extend(nodes(x, path + (i,)))
    elif isinstance(v, dict):
        for k, x in v.items():
            out.extend(nodes(x, path + (k,)))
    return out


def get(v, path):
    for p in path:
        v = v[p]
    return v


def setp(v, path, new):
    if not path:
        return new
    get(v, path[:-1])[path[-1]] = new
    return v


def delp(v, path):
    if not path:
        return None
    par = get(v, path[:-1])
    del par[path[-1]]
    return v


def dumps(v):
    return json.dumps(v, ensure_ascii=False, separators=(",", ":"))


def structural(doc, rng, n, focus=None):
    """n structural mutants of doc.  focus: optional predicate on paths to bias node choice."""
    allp = nodes(doc)
    if focus:
        fp = [p for p in allp if focus(p)] or allp
    else:
        fp = allp
    out = []
    tries = 0
    while len(out) < n and tries < 20 * n + 50:
        tries += 1
        d = copy.deepcopy(doc)
        p = rng.choice(fp if rng.random() < 0.8 else allp)
        kind = rng.choice(["delete", "retype", "retype", "dup", "swap", "num", "num", "key", "key", "str", "empty",
                           "wrap", "lastnull"])
        try:
            cur = get(d, p)
            if kind == "delete":
                if not p:
                    continue
                d = delp(d, p)
            elif kind == "retype":
                d = setp(d, p, copy.deepcopy(rng.choice(RETYPES)))
            elif kind == "dup":
                if not p:
                    continue
                par = get(d, p[:-1])
                if isinstance(par, list):
                    par.insert(rng.randrange(len(par) + 1), copy.deepcopy(cur))
                else:
                    par[rng.choice(LOADER_KEYS + [str(p[-1]) + "2"])] = copy.deepcopy(cur)
            elif kind == "swap":
                q = rng.choice(allp)
                if q[:len(p)] == p or p[:len(q)] == q:
                    continue
                a, b = copy.deepcopy(get(d, p)), copy.deepcopy(get(d, q))
                d = setp(d, p, b)
                d = setp(d, q, a)
            elif kind == "num":
                cands = [q for q in allp if isinstance(get(doc, q), (int, float)) and not isinstance(get(doc, q), bool)]
                if not cands:
                    continue
                q = rng.choice(cands)
                d = setp(d, q, rng.choice(NUMS))
            elif kind == "key":
                cands = [q for q in allp if q and isinstance(get(doc, q[:-1]), dict)]
                if not cands:
                    continue
                q = rng.choice(cands)
                par = get(d, q[:-1])
                val = par.pop(q[-1])
                par[rng.choice(LOADER_KEYS)] = val
            elif kind == "str":
                cands = [q for q in allp if isinstance(get(doc, q), str)]
                if not cands:
                    continue
                d = setp(d, rng.choice(cands), rng.choice(STRS))
            elif kind == "empty":
                cands = [q for q in allp if isinstance(get(doc, q), (list, dict))]
                q = rng.choice(cands)
                d = setp(d, q, [] if isinstance(get(doc, q), list) else {})
            elif kind == "wrap":
                d = setp(d, p, [copy.deepcopy(cur)] if rng.random() < 0.5 else {"a": copy.deepcopy(cur)})
            elif kind == "lastnull":
                cands = [q for q in allp if isinstance(get(doc, q), list) and get(doc, q)]
                if not cands:
                    continue
                q = rng.choice(cands)
                lst = get(d, q)
                if rng.random() < 0.5:
                    lst.pop()
                else:
                    lst[-1] = copy.deepcopy(rng.choice(RETYPES))
            out.append((kind, dumps(d)))
        except (KeyError, IndexError, TypeError, ValueError, OverflowError):
            continue
    return out


def truncations(text, k):
    """prefixes of the text cut at every k-th byte (on a character boundary)"""
    b = text.encode("utf-8")
    out = []
    for i in range(0, len(b), max(1, k)):
        out.append(("truncate", b[:i].decode("utf-8", errors="ignore")))
    return out


def byte_noise(text, rng, n):
    out = []
    pool = '[]{}",:\\0123456789.-eEtfn \n\t\x00é^#*<>'
    for _ in range(n):
        s = list(text)
        if not s:
            break
        for _ in range(rng.choice([1, 1, 2, 4])):
            i = rng.randrange(len(s))
            op = rng.choice(["del", "ins", "rep"])
            if op == "del":
                del s[i]
                if not s:
                    break
            elif op == "ins":
                s.insert(i, rng.choice(pool))
            else:
                s[i] = rng.choice(pool)
        out.append(("bytes", "".join(s)))
    return out


def random_text(rng, n):
    out = []
    pool = '[]{}",:\\0123456789.-eEtfn \n\t^#*<>abcinkVersionrootlistDefs'
    for _ in range(n):
        out.append(("random", "".join(rng.choice(pool) for _ in range(rng.randrange(0, 60)))))
    return out


def nesting_bombs(template, depths, closed=(True, False)):
    """template: text with the marker @@ where the bomb goes"""
    out = []
    for d in depths:
        for c in closed:
            for op, cl in (("[", "]"), ('{"a":', "}"), ('["x",{"n":', "}]")):
                body = op * d + ("null" if op != "[" else "") + (cl * d if c else "")
                out.append((f"bomb{d}{'c' if c else 'o'}", template.replace("@@", body)))
    return out


# ------------------------------------------------------------------------------------------------
# value-level mutations of SAVES (C15): the document stays well-formed JSON and structurally a save,
# but carries values the engine itself would never have written for the story that loads it — what a
# save from another revision of the script (LIST removed / renamed, knot gone, variable gone), from a
# buggy exporter or from a hand-edited file looks like.
ALIEN_INTS = [-1, -2, 0, 1, 2, 3, 4, 5, 7, 99, 10**6, -10**6, 2**31 - 1, -2**31, 2**31, -2**31 - 1, 2**32,
              2**53, 2**63 - 1, -2**63, 2**63, 2**64, 1.5, -0.0, 1e300]
PATH_KEYS = ("cPath", "previousContentObject", "originalChoicePath", "targetPath", "currentDivertTarget")
INT_KEYS = ("idx", "type", "threadIndex", "threadCounter", "originalThreadIndex", "index", "turnIdx",
            "storySeed", "previousRandom", "inkSaveVersion", "inkFormatVersion", "fnStart", "ci")


def story_facts(story_doc):
    """what a save can legitimately refer to: LIST definitions, knot / stitch paths, global names"""
    lists, knots, glob = {}, [], []
    if isinstance(story_doc, dict):
        ld = story_doc.get("listDefs")
        if isinstance(ld, dict):
            lists = {k: v for k, v in ld.items() if isinstance(v, dict)}
        root = story_doc.get("root")
        named = root[-1] if isinstance(root, list) and root and isinstance(root[-1], dict) else {}
        for k, v in named.items():
            if k.startswith("#"):
                continue
            if k == "global decl":
                for x in (v if isinstance(v, list) else []):
                    if isinstance(x, dict) and isinstance(x.get("VAR="), str):
                        glob.append(x["VAR="])
                continue
            knots.append(k)
            sub = v[-1] if isinstance(v, list) and v and isinstance(v[-1], dict) else {}
            knots.extend(k + "." + s for s in sub if not s.startswith("#"))
    return dict(lists=lists, knots=knots, globals=glob)


def _unknown_name(taken, pool=("Mood", "zz_gone", "Inventory", "colours2", "L")):
    for n in pool:
        if n not in taken:
            return n
    return "zz_" + "_".join(sorted(taken))[:20]


def alien_values(facts, rng):
    """{family: [(kind, value)]}: values that are well-formed for the loader's grammar but that the running
    story cannot account for.  Fresh random picks on every call (names of the story's own LISTs, knots and
    variables are mixed with unknown ones)."""
    lists, knots, glob = facts["lists"], facts["knots"], facts["globals"]
    unk = _unknown_name(lists)
    unk2 = _unknown_name(set(lists) | {unk})
    if lists:
        ln = rng.choice(sorted(lists))
        items = sorted(lists[ln].items()) or [("x", 1)]
        it, iv = rng.choice(items)
    else:
        ln, it, iv = None, None, None
    known_item = {ln + "." + it: iv} if ln else {}
    knot = rng.choice(knots) if knots else "nowhere"
    gv = rng.choice(glob) if glob else "x"
    big = rng.choice([2**31 - 1, -2**31, 10**6, -7, 0])
    fam = {}
    fam["list"] = [
        ("list-unknown-origin", {"list": {}, "origins": [unk]}),
        ("list-unknown-origins2", {"list": {}, "origins": [unk, unk2]}),
        ("list-mixed-origins", {"list": {}, "origins": ([ln] if ln else []) + [unk]}),
        ("list-unknown-then-known-origin", {"list": {}, "origins": [unk] + ([ln] if ln else [])}),
        ("list-empty-origins", {"list": {}, "origins": []}),
        ("list-no-origins", {"list": {}}),
        ("list-item-no-origin", {"list": {"happy": 1}}),
        ("list-item-no-origin-known-name", {"list": {(it or "red"): iv or 1}}),
        ("list-item-unknown-origin", {"list": {unk + ".happy": 1}}),
        ("list-item-unknown-origin2", {"list": {unk + ".happy": 1, unk2 + ".sad": 2}}),
        ("list-item-unknown-name", {"list": {(ln or unk) + ".nosuch": 7}}),
        ("list-item-wrong-value", {"list": {(ln or unk) + "." + (it or "a"): (iv or 0) + 98}}),
        ("list-item-extreme-value", {"list": {(ln or unk) + "." + (it or "a"): big}}),
        ("list-item-empty-origin", {"list": {".x": 1}}),
        ("list-item-empty-name", {"list": {(ln or unk) + ".": 1}}),
        ("list-item-empty-key", {"list": {"": 1}}),
        ("list-item-dotted", {"list": {"a.b.c": 1}}),
        ("list-known-item-unknown-origins", {"list": dict(known_item), "origins": [unk]}),
        ("list-known-and-unknown-items", {"list": dict(known_item, **{unk + ".happy": 3})}),
        ("list-known-and-originless-items", {"list": dict(known_item, happy=3)}),
        ("list-known", {"list": dict(known_item)}),
        ("list-known-origins", {"list": {}, "origins": [ln] if ln else []}),
    ]
    fam["pointer"] = [
        ("divert-nowhere", {"^->": "nowhere"}),
        ("divert-index-out-of-range", {"^->": knot + ".999"}),
        ("divert-unknown-child", {"^->": knot + ".nosuch.3"}),
        ("divert-empty", {"^->": ""}),
        ("divert-parents", {"^->": ".^.^.^.^"}),
        ("divert-known", {"^->": knot}),
        ("varptr-unknown", {"^var": "nosuch", "ci": -1}),
        ("varptr-unknown-ci0", {"^var": "nosuch", "ci": 0}),
        ("varptr-ci-out-of-range", {"^var": gv, "ci": rng.choice([1, 2, 5, 99, 2**31 - 1])}),
        ("varptr-ci-negative", {"^var": gv, "ci": rng.choice([-2, -99, -2**31])}),
        ("varptr-empty-name", {"^var": "", "ci": 0}),
        ("varptr-known", {"^var": gv, "ci": 0}),
    ]
    fam["scalar"] = [
        ("int-max", 2**31 - 1), ("int-min", -2**31), ("float-big", 1e38), ("float-tiny", 5e-324),
        ("bool", True), ("str-empty", "^"), ("str-newline", "\n"), ("str-long", "^" + "x" * 200),
        ("str-unicode", "^é\U0001f600"),
    ]
    fam["nonvalue"] = [
        ("ctl-ev", "ev"), ("ctl-void", "void"), ("ctl-glue", "<>"), ("ctl-done", "done"), ("ctl-ret", "~ret"),
        ("ctl-tunnel-ret", "->->"), ("ctl-thread", "thread"), ("ctl-nop", "nop"), ("fn-list-all", "LIST_ALL"),
        ("fn-add", "+"), ("divert-obj", {"->": "nowhere"}), ("divert-fn", {"f()": "nowhere"}),
        ("divert-var", {"->": gv, "var": True}), ("varref-unknown", {"VAR?": "nosuch"}),
        ("readcount-unknown", {"CNT?": "nowhere"}), ("assign", {"VAR=": "nosuch"}), ("temp-assign", {"temp=": "t"}),
        ("tag", {"#": "t"}), ("choice-point", {"*": "nowhere", "flg": 31}), ("container", ["^x", None]),
        ("choice", {"text": "c", "index": 0, "originalChoicePath": "nowhere", "originalThreadIndex": 9,
                    "targetPath": "nowhere.4", "tags": []}),
        ("null", None),
    ]
    fam["path"] = [
        ("path-nowhere", "nowhere"), ("path-index-out-of-range", knot + ".999"), ("path-unknown-child", knot + ".nosuch"),
        ("path-empty", ""), ("path-dot", "."), ("path-parents", ".^.^"), ("path-deep", knot + ".0.0.0.0.0.0"),
        ("path-number", "999"), ("path-negative", knot + ".-1"), ("path-huge-index", knot + ".18446744073709551616"),
        ("path-unicode", "é.0"), ("path-known", knot), ("path-root-index", "0"),
    ]
    return fam


def save_slots(doc):
    """the places of a save document where a value / a reference / a counter sits:
    (kind, path) with kind in objlist | valdict | elem | path | pathmap | int | list | flowname | ctmap | thread"""
    out = []

    def walk(v, path):
        if isinstance(v, dict):
            for k, x in v.items():
                p = path + (k,)
                if k in ("evalStack", "outputStream") and isinstance(x, list):
                    out.append(("objlist", p))
                if k in ("variablesState", "temp") and isinstance(x, dict):
                    out.append(("valdict", p))
                if k in ("visitCounts", "turnIndices") and isinstance(x, dict):
                    out.append(("pathmap", p))
                if k in PATH_KEYS and isinstance(x, str):
                    out.append(("path", p))
                if k in INT_KEYS and isinstance(x, (int, float)) and not isinstance(x, bool):
                    out.append(("int", p))
                if k == "list" and isinstance(x, dict):
                    out.append(("list", path))
                if k == "choiceThreads" and isinstance(x, dict):
                    out.append(("ctmap", p))
                if k == "currentFlowName":
                    out.append(("flowname", p))
                if k == "callstack" and isinstance(x, list):
                    out.append(("thread", path))
                    for i, e in enumerate(x):
                        if isinstance(e, dict):
                            out.append(("elem", p + (i,)))
                walk(x, p)
        elif isinstance(v, list):
            for i, x in enumerate(v):
                walk(x, path + (i,))

    walk(doc, ())
    if isinstance(doc, dict):
        out.append(("top", ()))
    return out


def save_variants(doc):
    """the same save in the other shapes the loader accepts: the pre-flows ("old") format and a save with a
    second, named flow"""
    out = []
    try:
        flows = doc["flows"]
        name = doc.get("currentFlowName") if doc.get("currentFlowName") in flows else sorted(flows)[0]
        fl = flows[name]
        old = {k: copy.deepcopy(v) for k, v in doc.items() if k not in ("flows", "currentFlowName")}
        old["callstackThreads"] = copy.deepcopy(fl["callstack"])
        for k in ("outputStream", "currentChoices", "choiceThreads"):
            if k in fl:
                old[k] = copy.deepcopy(fl[k])
        out.append(("old-format", old))
        two = copy.deepcopy(doc)
        two["flows"]["f2"] = copy.deepcopy(fl)
        out.append(("two-flows", two))
        cur = copy.deepcopy(two)
        cur["currentFlowName"] = "f2"
        out.append(("two-flows-current", cur))
    except (KeyError, TypeError, IndexError, AttributeError):
        pass
    return out


def save_values(doc, story_doc, rng, n):
    """n value-level mutants of a parsed save: (kind, text).  Every value slot (evalStack, outputStream,
    variablesState, every temp of every call-stack element incl. the choice threads) receives LIST values of
    unknown / missing origin first (sweep), then slot kinds are visited round robin."""
    facts = story_facts(story_doc)
    slots = save_slots(doc)
    by = {}
    for k, p in slots:
        by.setdefault(k, []).append(p)
    out, seen = [], set()

    def emit(kind, d):
        t = dumps(d)
        if t not in seen:
            seen.add(t)
            out.append(("val:" + kind, t))

    def pick(families):
        fam = alien_values(facts, rng)
        f = rng.choice(families)
        return rng.choice(fam[f])

    def slot_name(p):
        names = [str(x) for x in p if isinstance(x, str) and x not in ("flows", "callstack", "threads")]
        return "/".join(names[-2:]) if names else "top"

    def mutate(kind, p, families=None):
        d = copy.deepcopy(doc)
        try:
            if kind == "objlist":
                ak, av = pick(families or ["list", "list", "pointer", "scalar", "nonvalue"])
                lst = get(d, p)
                op = rng.choice(["append", "insert", "replace"] if lst else ["append"])
                if op == "append":
                    lst.append(av)
                elif op == "insert":
                    lst.insert(rng.randrange(len(lst) + 1), av)
                else:
                    lst[rng.randrange(len(lst))] = av
                emit(f"{slot_name(p)}:{op}:{ak}", d)
            elif kind == "valdict":
                ak, av = pick(families or ["list", "list", "pointer", "scalar", "nonvalue"])
                m = get(d, p)
                keys = sorted(m)
                if keys and rng.random() < 0.6:
                    m[rng.choice(keys)] = av
                    op = "set"
                else:
                    m[rng.choice(["zz_new", "", "nosuch"] + facts["globals"][:2])] = av
                    op = "add"
                emit(f"{slot_name(p)}:{op}:{ak}", d)
            elif kind == "elem":
                e = get(d, p)
                what = rng.choice(["temp", "temp", "cPath", "idx", "type", "exp", "nocpath", "noidx", "fnStart"])
                if what == "temp":
                    ak, av = pick(families or ["list", "list", "pointer", "nonvalue"])
                    e.setdefault("temp", {})[rng.choice(["zz_t", "x", ""])] = av
                elif what == "cPath":
                    ak, av = pick(["path"])
                    e["cPath"] = av
                    e.setdefault("idx", 0)
                elif what == "idx":
                    ak, av = "int", rng.choice(ALIEN_INTS)
                    e["idx"] = av
                    e.setdefault("cPath", facts["knots"][0] if facts["knots"] else "")
                elif what == "type":
                    ak, av = "int", rng.choice(ALIEN_INTS)
                    e["type"] = av
                elif what == "exp":
                    ak, av = "flip", not e.get("exp", False)
                    e["exp"] = av
                elif what == "nocpath":
                    ak = "drop"
                    e.pop("cPath", None)
                elif what == "noidx":
                    ak = "drop"
                    e.pop("idx", None)
                else:
                    ak, av = "int", rng.choice(ALIEN_INTS)
                    e["fnStart"] = av
                emit(f"elem/{what}:{ak}", d)
            elif kind == "path":
                ak, av = pick(["path"])
                d = setp(d, p, av)
                emit(f"{slot_name(p)}:{ak}", d)
            elif kind == "pathmap":
                m = get(d, p)
                keys = sorted(m)
                if keys and rng.random() < 0.5:
                    m[rng.choice(keys)] = rng.choice(ALIEN_INTS)
                    ak = "count"
                else:
                    ak, av = pick(["path"])
                    m[av] = rng.choice(ALIEN_INTS)
                emit(f"{slot_name(p)}:{ak}", d)
            elif kind == "int":
                d = setp(d, p, rng.choice(ALIEN_INTS))
                emit(f"{slot_name(p)}:int", d)
            elif kind == "list":
                holder = get(d, p)
                items = holder["list"]
                unk = _unknown_name(facts["lists"])
                what = rng.choice(["rename-origin", "drop-origin", "origins", "value", "add-item", "rename-item"])
                keys = sorted(items)
                if what == "rename-origin" and keys:
                    for k in (keys if rng.random() < 0.5 else [rng.choice(keys)]):
                        items[unk + "." + k.split(".", 1)[-1]] = items.pop(k)
                elif what == "drop-origin" and keys:
                    k = rng.choice(keys)
                    items[k.split(".", 1)[-1]] = items.pop(k)
                elif what == "origins":
                    holder["origins"] = rng.choice([[unk], [], [unk, unk], sorted(facts["lists"])[:1] + [unk]])
                elif what == "value" and keys:
                    items[rng.choice(keys)] = rng.choice(ALIEN_INTS)
                elif what == "rename-item" and keys:
                    k = rng.choice(keys)
                    items[k.split(".", 1)[0] + ".nosuch"] = items.pop(k)
                else:
                    what = "add-item"
                    ak, av = rng.choice(alien_values(facts, rng)["list"])
                    items.update(av["list"])
                emit(f"{slot_name(p)}/list:{what}", d)
            elif kind == "ctmap":
                m = get(d, p)
                keys = sorted(m)
                what = rng.choice(["rename", "drop", "clear", "retarget"])
                if what == "rename" and keys:
                    m[rng.choice(["99", "-1", "x", "", "18446744073709551616"])] = m.pop(rng.choice(keys))
                elif what == "drop" and keys:
                    m.pop(rng.choice(keys))
                elif what == "clear":
                    m.clear()
                else:
                    what = "retarget"
                    par = get(d, p[:-1])
                    for c in par.get("currentChoices", []):
                        if isinstance(c, dict) and rng.random() < 0.7:
                            c["originalThreadIndex"] = rng.choice(ALIEN_INTS)
                emit(f"choiceThreads:{what}", d)
            elif kind == "flowname":
                d = setp(d, p, rng.choice(["nosuchflow", "", "default", "f2", "DEFAULT_FLOW"]))
                emit("currentFlowName", d)
            elif kind == "thread":
                t = get(d, p)
                what = rng.choice(["empty", "dup-elem", "pop-elem", "no-prev"])
                cs = t["callstack"]
                if what == "empty":
                    cs[:] = []
                elif what == "dup-elem" and cs:
                    cs.append(copy.deepcopy(rng.choice(cs)))
                elif what == "pop-elem" and cs:
                    cs.pop(rng.randrange(len(cs)))
                else:
                    what = "no-prev"
                    t.pop("previousContentObject", None)
                emit(f"thread:{what}", d)
            elif kind == "top":
                what = rng.choice(["divert-target", "divert-target", "no-eval", "no-vars", "no-counts", "threads-empty"])
                if what == "divert-target":
                    ak, av = pick(["path"])
                    d["currentDivertTarget"] = av
                    what += ":" + ak
                elif what == "no-eval":
                    d.pop("evalStack", None)
                elif what == "no-vars":
                    d.pop("variablesState", None)
                elif what == "no-counts":
                    d.pop("visitCounts", None)
                    d.pop("turnIndices", None)
                else:
                    for q in [q for k2, q in slots if k2 == "thread"][:1]:
                        par = get(d, q[:-1])
                        if isinstance(par, list):
                            par[:] = []
                emit(f"top:{what}", d)
        except (KeyError, IndexError, TypeError, ValueError, AttributeError):
            pass

    # sweep: every value slot gets list values the story cannot account for
    sweep = [(k, p) for k, p in slots if k in ("objlist", "valdict")]
    rng.shuffle(sweep)
    sweep = [kp for kp in sweep if kp[0] == "objlist"] * 3 + [kp for kp in sweep if kp[0] == "valdict"]
    for k, p in sweep:
        if len(out) >= max(1, (2 * n) // 3):
            break
        mutate(k, p, families=["list"])
    kinds = sorted(by)
    tries = 0
    while len(out) < n and kinds and tries < 6 * n + 20:
        k = kinds[tries % len(kinds)]
        tries += 1
        mutate(k, rng.choice(by[k]))
    return out[:n]
