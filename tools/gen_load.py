"""gen_load.py — T-gen for the story loader (runtime/src/json/json_read.rs).

Emits theories/Gen/LoadGen.v:
  * `lsite`           one constructor per modelled panic site of json_read.rs
  * `lsite_panics`    lsite -> bool   "this site can still panic in the source as it is NOW"
  * `lsite_name`      lsite -> string "json_read.rs:<fn>:<line>" (line of the current source)
  * `ink_version_current`, `ink_version_min`
  * `cmd_names`, `nop_names`  name tables of ControlCommand / NativeFunctionCall ::new_from_name
    (MARKED FOR REPLACEMENT by Data/Native.v's cmd_of_name / nop_of_name once that file exists)

The site table follows the source: a site is "on" iff its panicking form (a regex over the
whitespace-free text of one named function) is present.  Every unwrap-like token
(.unwrap() .expect( panic! unreachable! todo! assert! x[i] `-= 1`) of json_read.rs must be accounted for by
exactly one pattern (site or benign); anything else raises GenError, so a new unwrap or a reshaped
function cannot go unnoticed.
"""
import re
import vlib
from gen_tables import GenError, fn_body, write_if_changed, strip_comments

UNWRAP_LIKE = re.compile(r"\.unwrap\(\)|\.expect\(|panic!|unreachable!|todo!|unimplemented!|assert!|"
                         r"\w\[(?![^\]]*\.\.)[^\]]*\]|-=1\b")   # index expressions, but not range slices

# (site id, function, regex on whitespace-free function text, number of unwrap-like tokens it owns)
SITES = [
    ("ver_as_i64", "load_from_string", r"\.as_i64\(\)\.unwrap\(\)", 1),
    ("ver_i32", "load_from_string", r"\.try_into\(\)\.unwrap\(\)", 1),
    ("int_i32", "jtoken_to_runtime_object", r"\.try_into\(\)\.unwrap\(\)", 1),
    ("str_first_char", "jtoken_to_runtime_object", r"\.chars\(\)\.next\(\)\.unwrap\(\)", 1),
    ("varptr_name", "jtoken_to_runtime_object", r"variable_name=v\.as_str\(\)\.unwrap\(\)", 1),
    ("varptr_ci", "jtoken_to_runtime_object", r"contex_index=v\.as_i64\(\)\.unwrap\(\)", 1),
    ("divert_target", "jtoken_to_runtime_object", r"let target=prop_value\.unwrap\(\)\.as_str\(\)\.unwrap\(\)", 1),
    ("divert_exargs", "jtoken_to_runtime_object", r"external_args=prop_value\.as_i64\(\)\.unwrap\(\)", 1),
    ("choice_path", "jtoken_to_runtime_object", r"path_string_on_choice=cp\.as_str\(\)\.unwrap\(\)", 1),
    ("choice_flg", "jtoken_to_runtime_object", r"flags=f\.as_u64\(\)\.unwrap\(\)", 1),
    ("varref_name", "jtoken_to_runtime_object", r"VariableReference::new\(name\.as_str\(\)\.unwrap\(\)", 1),
    ("readcount_path", "jtoken_to_runtime_object", r"from_path_for_count\(v\.as_str\(\)\.unwrap\(\)", 1),
    ("varass_name", "jtoken_to_runtime_object", r"let var_name=prop_value\.unwrap\(\)\.as_str\(\)\.unwrap\(\)", 1),
    ("tag_text", "jtoken_to_runtime_object", r"Tag::new\(prop_value\.as_str\(\)\.unwrap\(\)", 1),
    ("list_obj", "jtoken_to_runtime_object", r"\bpv\.as_object\(\)\.unwrap\(\)", 1),
    ("list_origins_arr", "jtoken_to_runtime_object", r"\bo\.as_array\(\)\.unwrap\(\)", 1),
    ("list_origin_str", "jtoken_to_runtime_object", r"map\(\|e\|e\.as_str\(\)\.unwrap\(\)", 1),
    ("list_item_val", "jtoken_to_runtime_object", r"insert\(item,v\.as_i64\(\)\.unwrap\(\)", 1),
    ("arr_last", "jarray_to_container", r"jarray\[jarray\.len\(\)-1\]", 1),
    ("cont_flags_i64", "jarray_to_container", r'"#f"=>flags=v\.as_i64\(\)\.unwrap\(\)', 1),
    ("cont_flags_i32", "jarray_to_container", r"\.try_into\(\)\.unwrap\(\)", 1),
    ("cont_name", "jarray_to_container", r'"#n"=>name=Some\(v\.as_str\(\)\.unwrap\(\)', 1),
    ("named_item_err", "jarray_to_container", r"jtoken_to_runtime_object\(v,Some\(k\.to_string\(\)\)\)\.unwrap\(\)", 1),
    ("named_item_cont", "jarray_to_container", r"\.downcast::<Container>\(\)\.unwrap\(\)", 1),
    ("objlist_skip_last", "jarray_to_runtime_obj_list", r"count-=1\b", 1),
    ("choice_text_get", "jobject_to_choice", r'obj\.get\("text"\)\.unwrap\(\)', 1),
    ("choice_text_str", "jobject_to_choice", r'obj\.get\("text"\)[^;]*?\.as_str\(\)\.unwrap\(\)', 1),
    ("choice_index_get", "jobject_to_choice", r'obj\.get\("index"\)\.unwrap\(\)', 1),
    ("choice_index_u64", "jobject_to_choice", r'obj\.get\("index"\)[^;]*?\.as_u64\(\)\.unwrap\(\)', 1),
    ("choice_ocp_get", "jobject_to_choice", r'obj\.get\("originalChoicePath"\)\.unwrap\(\)', 1),
    ("choice_ocp_str", "jobject_to_choice", r'obj\.get\("originalChoicePath"\)[^;]*?\.as_str\(\)\.unwrap\(\)', 1),
    ("choice_oti_get", "jobject_to_choice", r'obj\.get\("originalThreadIndex"\)\.unwrap\(\)', 1),
    ("choice_oti_i64", "jobject_to_choice", r'obj\.get\("originalThreadIndex"\)[^;]*?\.as_i64\(\)\.unwrap\(\)', 1),
    ("choice_tp_get", "jobject_to_choice", r'obj\.get\("targetPath"\)\.unwrap\(\)', 1),
    ("choice_tp_str", "jobject_to_choice", r'obj\.get\("targetPath"\)[^;]*?\.as_str\(\)\.unwrap\(\)', 1),
    ("tags_arr", "jarray_to_tags", r"\bpv\.as_array\(\)\.unwrap\(\)", 1),
    ("tag_str", "jarray_to_tags", r"\btag\.as_str\(\)\.unwrap\(\)", 1),
    ("listdefs_obj", "jtoken_to_list_definitions", r"\bdef\.as_object\(\)\.unwrap\(\)", 1),
    ("listdef_obj", "jtoken_to_list_definitions", r"\blist_def_json\.as_object\(\)\.unwrap\(\)", 1),
    ("listdef_val", "jtoken_to_list_definitions", r"\bv\.as_u64\(\)\.unwrap\(\)", 1),
    ("hashmap_value", "jobject_to_hashmap_values", r"\.downcast::<Value>\(\)\.unwrap\(\)", 1),
    ("int_hashmap_val", "jobject_to_int_hashmap", r"\bv\.as_i64\(\)\.unwrap\(\)", 1),
]

# unwrap-like tokens that cannot fail (guarded by a test just above); each occurrence owns one token
BENIGN = {
    "load_from_string": [r"version_opt\.unwrap\(\)", r"main_content_container\.unwrap\(\);"],
    "jtoken_to_runtime_object": [r"token\.as_i64\(\)\.unwrap\(\)", r"token\.as_f64\(\)\.unwrap\(\)",
                                 r"prop_value\.unwrap\(\)"],
}

FUNCTIONS = ["load_from_string", "jtoken_to_runtime_object", "jarray_to_container",
             "jarray_to_runtime_obj_list", "jobject_to_choice", "jarray_to_tags",
             "jtoken_to_list_definitions", "jobject_to_hashmap_values", "jobject_to_int_hashmap"]

CMD_COQ = None  # CommandType variant names are the Coq constructor names of Types.cmd
NOP_COQ = {"GreaterThanOrEquals": "NGreaterEq", "LessThanOrEquals": "NLessEq"}


def _nows(s):
    """copy of s without whitespace, except one space kept between two identifier characters
    (so that \\b works); and, for each kept char, its index in s"""
    out, idx = [], []
    n = len(s)
    i = 0
    while i < n:
        c = s[i]
        if c.isspace():
            j = i
            while j < n and s[j].isspace():
                j += 1
            if out and j < n and (out[-1].isalnum() or out[-1] == "_") and (s[j].isalnum() or s[j] == "_"):
                out.append(" ")
                idx.append(i)
            i = j
            continue
        out.append(c)
        idx.append(i)
        i += 1
    return "".join(out), idx


def _fn_span(src, name):
    m = re.search(r"fn\s+" + re.escape(name) + r"\b[^{;]*\{", src)
    if not m:
        raise GenError(f"json_read.rs: function {name} not found")
    body = fn_body(src, name)
    return m.end(), body


def _coq_str(s):
    return '"' + s.replace('"', '""') + '"'


def name_table(relfile, const_suffix, variant_prefix):
    """new_from_name's arms `X_NAME => Some(Self::new(<prefix>::V))` + `const X_NAME: &str = ".."`"""
    src = strip_comments(vlib.repo_file(relfile))
    consts = dict(re.findall(r'const\s+([A-Z_]+)\s*:\s*&str\s*=\s*"((?:[^"\\]|\\.)*)"\s*;', src))
    body = fn_body(src, "new_from_name")
    arms = re.findall(r"([A-Z_]+)\s*=>\s*Some\(\s*Self::new\(\s*" + variant_prefix + r"::(\w+)\s*\)\s*\)", body)
    other = re.findall(r"=>", body)
    if len(other) != len(arms) + 1 or not re.search(r"_\s*=>\s*None", body):
        raise GenError(f"{relfile}: new_from_name has arms the generator does not understand")
    out = []
    for c, v in arms:
        if c not in consts:
            raise GenError(f"{relfile}: constant {c} not found")
        if "\\" in consts[c]:
            raise GenError(f"{relfile}: escaped name constant {c}")
        out.append((consts[c], v))
    return out


def gen_load():
    raw = vlib.repo_file("runtime/src/json/json_read.rs")
    # keep line structure: blank out comments instead of deleting lines
    src = re.sub(r"//[^\n]*", "", raw)
    total_in_fns = 0
    flags, lines = {}, {}
    for fn in FUNCTIONS:
        start, body = _fn_span(src, fn)
        ns, idx = _nows(body)
        n_tokens = len(UNWRAP_LIKE.findall(ns))
        owned = 0
        for pat in BENIGN.get(fn, []):
            owned += len(re.findall(pat, ns))
        for sid, sfn, pat, w in SITES:
            if sfn != fn:
                continue
            ms = list(re.finditer(pat, ns))
            if len(ms) > 1:
                raise GenError(f"json_read.rs:{fn}: site {sid} matches {len(ms)} times (function reshaped)")
            flags[sid] = bool(ms)
            if ms:
                owned += w
                pos = start + idx[ms[0].end() - 1]
                lines[sid] = src.count("\n", 0, pos) + 1
        if owned != n_tokens:
            raise GenError(f"json_read.rs:{fn}: {n_tokens} unwrap-like tokens but the site table accounts for "
                           f"{owned} — a panic site was added or reshaped; update tools/gen_load.py AND "
                           f"theories/Json/StdLoad.v")
        total_in_fns += n_tokens
    whole = len(UNWRAP_LIKE.findall(_nows(src)[0]))
    if whole != total_in_fns:
        raise GenError(f"json_read.rs: {whole} unwrap-like tokens in the file, {total_in_fns} inside the modelled "
                       f"functions — a new function with panic sites appeared")
    # functions other than the modelled ones are tolerated only because the whole-file accounting above
    # proves they contain no unwrap-like token (e.g. small `as_str(value, what)?` helpers of a repair)
    fns = re.findall(r"\bfn\s+(\w+)", src)
    extra = sorted(set(fns) - set(FUNCTIONS))

    msrc = strip_comments(vlib.repo_file("runtime/src/story/mod.rs"))
    mcur = re.search(r"pub const INK_VERSION_CURRENT\s*:\s*i32\s*=\s*(\d+)\s*;", msrc)
    mmin = re.search(r"pub const INK_VERSION_MINIMUM_COMPATIBLE\s*:\s*i32\s*=\s*(\d+)\s*;", msrc)
    if not mcur or not mmin:
        raise GenError("story/mod.rs: INK_VERSION constants not found")

    cmds = name_table("runtime/src/control_command.rs", "_NAME", "CommandType")
    nops = name_table("runtime/src/native_function_call.rs", "_NAME", "Op")

    ids = [s[0] for s in SITES]
    o = ["(* GENERATED by tools/gen_load.py from runtime/src/json/json_read.rs, story/mod.rs,",
         "   control_command.rs, native_function_call.rs — do not edit *)",
         "From Coq Require Import String.",
         "From Ink.Data Require Import Types.",
         "Local Open Scope string_scope.",
         "",
         "Inductive lsite :=",
         ]
    o += ["| L_" + i for i in ids]
    o[-1] += "."
    o += ["", "Definition all_lsites : list lsite := ["]
    o += ["  " + "; ".join("L_" + i for i in ids[k:k + 6]) + (";" if k + 6 < len(ids) else "") for k in range(0, len(ids), 6)]
    o += ["].", "",
          "(* true = the unwrap / index / subtraction at this site is present in the source as it is now *)",
          "Definition lsite_panics (s : lsite) : bool :=", "  match s with"]
    o += [f"  | L_{i} => {'true' if flags[i] else 'false'}" for i in ids]
    o += ["  end.", "", "Definition lsite_name (s : lsite) : string :=", "  match s with"]
    fn_of = {s[0]: s[1] for s in SITES}
    for i in ids:
        loc = f"json_read.rs:{fn_of[i]}:{lines[i]}:{i}" if flags[i] else f"json_read.rs:{fn_of[i]}:{i}"
        o.append(f"  | L_{i} => {_coq_str(loc)}")
    o += ["  end.", "",
          f"Definition ink_version_current : Z := {mcur.group(1)}%Z.",
          f"Definition ink_version_min : Z := {mmin.group(1)}%Z.", "",
          "(* MARKED FOR REPLACEMENT: Data/Native.v (worker `native`) cmd_of_name / nop_of_name *)",
          "Definition cmd_names : list (string * cmd) := ["]
    o += ["  " + "; ".join(f"({_coq_str(n)}, {v})" for n, v in cmds[k:k + 5]) + (";" if k + 5 < len(cmds) else "")
          for k in range(0, len(cmds), 5)]
    o += ["].", "", "Definition nop_names : list (string * nop) := ["]
    nn = [(n, NOP_COQ.get(v, "N" + v)) for n, v in nops]
    o += ["  " + "; ".join(f"({_coq_str(n)}, {v})" for n, v in nn[k:k + 5]) + (";" if k + 5 < len(nn) else "")
          for k in range(0, len(nn), 5)]
    o += ["].", ""]
    changed = write_if_changed("theories/Gen/LoadGen.v", "\n".join(o))
    facts = {"load.sites_on": sorted(i for i in ids if flags[i]),
             "load.sites_off": sorted(i for i in ids if not flags[i]),
             "load.ink_version": [int(mmin.group(1)), int(mcur.group(1))],
             "load.cmd_names": len(cmds), "load.nop_names": len(nops), "load.helper_fns": extra}
    return changed, facts
