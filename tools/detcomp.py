"""detcomp.py — "the compiler's output is a function of the source text" as a differential oracle,
shared by tools/props/c03.py (determinism) and tools/props/c06.py (compiler clause (c)).

What can leak into the output of a pure translator is per-instance / per-process state: the iteration
order of a std HashMap / HashSet (a fresh RandomState per map *instance*, so the order differs between two
compilations in ONE process as well as between processes), addresses, time.  So every source is compiled
`in_process` times in each of `processes` fresh child processes (harness bin `inkcompile --batch`, which
itself compiles every case twice), all outcomes (story JSON / error + line / panic site) are compared, and
when two outputs differ they are PLAYED (harness bin inkdrive, exploration of the choice tree) so that the
report carries the observable difference, not only the differing bytes.

    matrix(sources, exe, in_process, processes)     -> per source {outcome-key: {"count", "json", "first"}}
    findings(sources, mat, exe_drive)               -> [finding] for sources with more than one outcome
    iteration_sites(repo)                           -> source audit: every HashMap/HashSet of compiler/src that
                                                       is ITERATED (not just looked up), as stable site ids
    write_includes(prog, tag)                       -> directory holding the INCLUDE files of a gen_decls program
"""
import hashlib, json, os, re
from concurrent.futures import ThreadPoolExecutor
import vlib, compilerun


_CREATED = []


def cleanup_includes():
    """remove the INCLUDE directories this process created (reports carry the file texts, not the paths)"""
    import shutil
    while _CREATED:
        shutil.rmtree(_CREATED.pop(), ignore_errors=True)


def write_includes(files, tag):
    """materialise {name: text} under build/scratch/includes/<tag>; returns the directory (INCLUDE base)"""
    d = os.path.join(vlib.SCRATCH, "includes", tag)
    os.makedirs(d, exist_ok=True)
    _CREATED.append(d)
    for n, t in files.items():
        p = os.path.join(d, n)
        if not os.path.exists(p) or open(p, encoding="utf-8").read() != t:
            with open(p, "w", encoding="utf-8") as f:
                f.write(t)
    return d


def outcome(r):
    st = r.get("status")
    if st == "ok":
        return "ok:" + str(r.get("hash"))
    if st == "err":
        return "err:%s:%s:%s" % (r.get("line"), r.get("file"), r.get("hash"))
    if st == "panic":
        return "panic:" + str(r.get("panic_at"))
    return str(st)


def matrix(sources, exe=None, in_process=6, processes=3, big=20000, all_json=False):
    """sources: [{"src", "base"?}] -> list (aligned) of {outcome-key: {"count", "json"|None, "msg", "first"}}.
    A source longer than `big` bytes is repeated only twice per process.  Hangs / crashes are not this
    oracle's business (c06 observes them): those outcomes are dropped.  Outcomes are compared by the hash of the
    output; the output text itself is only requested for the first compilation in each process unless `all_json`
    (findings() compiles the few differing sources again with all_json to get every variant's text)."""
    exe = exe or compilerun.build()
    per = []
    for p in range(processes):
        cases = []
        for i, s in enumerate(sources):
            for k in range(in_process if len(s["src"]) <= big else 2):
                c = {"id": f"{i}#{p}#{k}", "src": s["src"], "want_json": all_json or k == 0}
                if s.get("base"):
                    c["base"] = s["base"]
                cases.append(c)
        per.append(cases)
    # one child process per (process index, slice of the sources); all repeats of a source stay together
    nslice = max(1, min(vlib.NPROC // max(1, processes) + 1, len(sources) // 6 + 1))
    jobs = []
    for p, cases in enumerate(per):
        for sl in range(nslice):
            part = [c for c in cases if int(c["id"].split("#")[0]) % nslice == sl]
            if part:
                jobs.append((p, sl, part))
    out = [dict() for _ in sources]

    def one(job):
        p, sl, part = job
        return compilerun.run(part, exe, timeout=20.0, shards=1, salt=f"m{p}_{sl}")

    with ThreadPoolExecutor(max_workers=min(vlib.NPROC, len(jobs) or 1)) as ex:
        for (p, sl, part), res in zip(jobs, ex.map(one, jobs)):
            for c, r in zip(part, res):
                if r.get("status") not in ("ok", "err", "panic"):
                    continue
                i = int(c["id"].split("#")[0])
                key = outcome(r)
                e = out[i].setdefault(key, dict(count=0, json=r.get("json"), msg=r.get("msg", "")[:200],
                                                line=r.get("line"), first=c["id"]))
                e["count"] += 1
                if e["json"] is None and r.get("json"):
                    e["json"] = r["json"]
                if r.get("same") is False:
                    # the second compilation inside inkcompile differed from the first: an outcome of its own
                    out[i].setdefault(key + "/second-differs", dict(count=0, json=None, msg="", line=None,
                                                                    first=c["id"]))["count"] += 1
    return out


def play(story_json, script, explore, exe, seed=7):
    c = {"id": 0, "story": story_json, "script": script or [], "seed": seed}
    if explore:
        c["explore"] = explore
    r = vlib.run_inkdrive([c], exe, shards=1)[0]
    if r.get("crash") is not None:
        return ["crash"]
    return [str(r.get("load"))] + list(r.get("lines") or [])


def json_diff(a, b, ctx=60):
    """the first place where two outputs differ, with a little context"""
    n = min(len(a), len(b))
    i = next((k for k in range(n) if a[k] != b[k]), n)
    lo = max(0, i - ctx)
    return dict(at=i, first=a[lo:i + ctx], second=b[lo:i + ctx])


def findings(sources, mat, exe_drive=None, play_max=4, exe=None):
    """one finding per source with more than one outcome, smallest source first:
       {"source", "files", "outcomes": n, "counts", "bytes": diff of two outputs,
        "played": None | {"first": line, "second": line} (first differing transcript line of the two stories)}
    The differing stories of the `play_max` smallest sources are played; a played difference outranks a byte one."""
    out = []
    # the text of every variant: compile the differing sources again, asking for all outputs
    idx = [i for i, m in enumerate(mat) if len(m) >= 2 and
           any(k.startswith("ok:") and "/" not in k and not v.get("json") for k, v in m.items())]
    idx.sort(key=lambda i: len(sources[i]["src"]))
    if idx[:play_max * 2]:
        again = matrix([sources[i] for i in idx[:play_max * 2]], exe, in_process=12, processes=3, all_json=True)
        for i, m2 in zip(idx, again):
            for k, v in m2.items():
                if k in mat[i] and not mat[i][k].get("json"):
                    mat[i][k]["json"] = v.get("json")
                elif k not in mat[i]:
                    mat[i][k] = v
    for s, m in zip(sources, mat):
        keys = [k for k in m if not k.endswith("/second-differs")]
        if len(m) < 2:
            continue
        f = dict(source=s["src"], files=s.get("files") or {}, outcomes=len(keys),
                 counts={k[:40]: v["count"] for k, v in m.items()}, played=None, bytes=None,
                 script=s.get("script") or [], explore=s.get("explore") or {"depth": 2, "max_paths": 6})
        oks = [m[k] for k in keys if k.startswith("ok:") and m[k].get("json")]
        if len(oks) >= 2:
            f["bytes"] = json_diff(oks[0]["json"], oks[1]["json"])
            f["_oks"] = [o["json"] for o in oks[:4]]
        elif len(keys) >= 2:
            a, b = m[keys[0]], m[keys[1]]
            f["bytes"] = dict(first=(keys[0][:20], a.get("line"), a.get("msg")),
                              second=(keys[1][:20], b.get("line"), b.get("msg")))
        out.append(f)
    out.sort(key=lambda f: len(f["source"]))
    for f in [f for f in out if f.get("_oks")][:play_max if exe_drive else 0]:
        base = play(f["_oks"][0], f["script"], f["explore"], exe_drive)
        for o in f["_oks"][1:]:
            t = play(o, f["script"], f["explore"], exe_drive)
            if t != base:
                k = next((k for k, (x, y) in enumerate(zip(base, t)) if x != y), min(len(base), len(t)))
                txt = lambda l: re.findall(r'text="((?:[^"\\]|\\.)*)"', l)
                k = next((j for j, (x, y) in enumerate(zip(base, t)) if txt(x) != txt(y)), k)   # printed text first
                f["played"] = dict(line=k, first=(base[k] if k < len(base) else "<end>")[:300],
                                   second=(t[k] if k < len(t) else "<end>")[:300])
                break
    for f in out:
        f.pop("_oks", None)
    out.sort(key=lambda f: (f["played"] is None, len(f["source"])))
    return out


def shrink_lines(f, exe, still=None, in_process=8, processes=2, budget=14):
    """drop lines of a nondeterministically compiled source while it still compiles to more than one outcome
    (probabilistic oracle: a candidate is only accepted on a positive observation, so the result is sound)"""
    lines = f["source"].split("\n")
    base = write_includes(f["files"], "shrink_" + hashlib.sha1(f["source"].encode()).hexdigest()[:10]) if f["files"] else None

    def nondet(cands):
        srcs = [dict(src="\n".join(c), base=base) for c in cands]
        mat = matrix(srcs, exe, in_process=in_process, processes=processes)
        return [len([k for k in m if k.startswith("ok:")]) >= 2 for m in mat]

    n = 2
    while len(lines) > 3 and budget > 0:
        size = max(1, len(lines) // n)
        cands, spans = [], []
        for a in range(0, len(lines), size):
            cands.append(lines[:a] + lines[a + size:])
            spans.append((a, a + size))
            if len(cands) >= 12:
                break
        budget -= 1
        ok = nondet(cands)
        hit = next((k for k, v in enumerate(ok) if v), None)
        if hit is not None:
            a, b = spans[hit]
            lines = lines[:a] + lines[b:]
            n = max(2, n - 1)
        elif size == 1:
            break
        else:
            n = min(len(lines), n * 2)
    return "\n".join(lines)


# ---------------------------------------------------------------- source audit
ITER_METHODS = ("iter", "iter_mut", "keys", "values", "values_mut", "into_iter", "into_keys", "into_values",
                "drain", "retain", "extract_if")
HASH_TYPE = re.compile(r"\bHash(Map|Set)\b")


def _strip_comments(text):
    text = re.sub(r"/\*.*?\*/", lambda m: "\n" * m.group(0).count("\n"), text, flags=re.S)
    return re.sub(r"//[^\n]*", "", text)


def iteration_sites(repo=None, subdir="compiler/src"):
    """-> {"declared": [site..], "iterated": [site..]} over every .rs file under <repo>/compiler/src.
    A name is *hash-typed* if it is declared (struct field, let, parameter, return-typed helper) with a type or
    initialiser mentioning HashMap / HashSet; it is *iterated* where one of ITER_METHODS is called on it
    (also through a field path `x.name.keys()`), where it is the subject of a `for .. in`, or where it is
    passed to `extend` / `from_iter` / `collect`-style consumers by value.  Site id: file:function:name:how
    (no line numbers: stable under unrelated edits).  Textual and deliberately over-approximate: a flagged
    site is a question for the differential run, not a verdict."""
    root = os.path.join(repo or vlib.REPO, subdir)
    files = []
    for dp, _, fs in os.walk(root):
        for fn in sorted(fs):
            if fn.endswith(".rs"):
                files.append(os.path.join(dp, fn))
    texts = {p: _strip_comments(open(p, encoding="utf-8").read()) for p in sorted(files)}
    names, declared = set(), []
    decl_res = [
        re.compile(r"\b(?:pub(?:\([a-z]+\))?\s+)?([a-z_][a-z0-9_]*)\s*:(?!:)\s*&?\s*(?:'[a-z]+\s+)?(?:mut\s+)?[A-Za-z0-9_:<>\s]*?\bHash(?:Map|Set)\b"),
        re.compile(r"\blet\s+(?:mut\s+)?([a-z_][a-z0-9_]*)\s*(?::[^=;]*)?=\s*[^;]*?\bHash(?:Map|Set)\b"),
    ]
    for p, t in texts.items():
        rel = os.path.relpath(p, repo or vlib.REPO)
        for line in t.split("\n"):
            if not HASH_TYPE.search(line):
                continue
            for rx in decl_res:
                for m in rx.finditer(line):
                    names.add(m.group(1))
                    declared.append(f"{rel}:{m.group(1)}")
    iterated = []
    if names:
        alt = "|".join(sorted(re.escape(n) for n in names))
        call = re.compile(r"(?:\b[a-z_][a-z0-9_]*\s*\.\s*)*\b(%s)\s*\.\s*(%s)\s*\(" % (alt, "|".join(ITER_METHODS)))
        forin = re.compile(r"\bfor\b[^{;]*?\bin\s+&?\s*(?:mut\s+)?(?:[a-z_][a-z0-9_]*\s*\.\s*)*\b(%s)\b\s*(?:\{|\.\s*(?:clone|to_owned)\s*\(\)\s*\{)" % alt)
        consume = re.compile(r"\.\s*(?:extend|from_iter)\s*\(\s*&?\s*(?:[a-z_][a-z0-9_]*\s*\.\s*)*\b(%s)\b\s*(?:\.\s*clone\s*\(\))?\s*\)" % alt)
        fn_rx = re.compile(r"\bfn\s+([a-z_][a-z0-9_]*)")
        for p, t in texts.items():
            rel = os.path.relpath(p, repo or vlib.REPO)
            cur = "-"
            for line in t.split("\n"):
                m = fn_rx.search(line)
                if m:
                    cur = m.group(1)
                for m in call.finditer(line):
                    iterated.append(f"{rel}:{cur}:{m.group(1)}.{m.group(2)}")
                for m in forin.finditer(line):
                    iterated.append(f"{rel}:{cur}:for-in {m.group(1)}")
                for m in consume.finditer(line):
                    iterated.append(f"{rel}:{cur}:consume {m.group(1)}")
    return dict(declared=sorted(set(declared)), iterated=sorted(set(iterated)))


if __name__ == "__main__":
    import sys
    print(json.dumps(iteration_sites(sys.argv[1] if len(sys.argv) > 1 else None), indent=1))
