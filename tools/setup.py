#!/usr/bin/env python3
"""setup: regenerate tables, build the Coq development (full .vo) and the Rust harness, offline."""
import os, sys
sys.path.insert(0, os.path.dirname(os.path.abspath(__file__)))
import vlib, gen_tables

try:
    print("tables:", gen_tables.run())
except Exception as e:          # a reshaped source is reported by the property checks, not by setup
    print("gen_tables:", e)
ok, log = vlib.coq_make()
print("coq build:", "ok" if ok else "FAILED (the affected property checks will report it)")
if not ok:
    print(log[-3000:])
for feats in ((), ("stream",)):
    try:
        print("harness:", vlib.build_harness(features=feats))
    except Exception as e:
        print("harness build failed:", e)
        sys.exit(1)
