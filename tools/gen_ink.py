"""gen_ink.py — generator of random, mostly-valid Ink programs over the core of the language
(property C01's quantifier), their inkdrive scripts, and their Gallina AST (Spec/InkAst.v).

    src, ast = gen_program(rng, **weights)          # every random choice from `rng` (random.Random)
    src, ast, term = gen_refsem(rng, **weights)     # only what Spec/RefSem.v covers + the Gallina term
    case = gen_script(rng, ast, kind)               # inkdrive case fragment (script / explore)
    term = ast_to_coq(ast)                          # Gallina term of type InkAst.program
    print_program(ast) -> source text               # (so shrinkers can work on the AST)
    features(ast) -> {feature: count}
    shrink(ast, still_fails) -> smaller ast
    listify(rng, ast, **LIST_WEIGHTS) -> ast      # (addition) turns a generated program into a LIST program

The AST is JSON-able (dicts / lists / strings / ints / bools):

  program  {"globals":[[name, literal-expr]], "lists":[[name,[item..]]], "top":block, "knots":[knot]}
  knot     {"name", "params":[name], "function":bool, "body":block, "stitches":[{"name","body":block}]}
  block    [stmt]
  stmt     ["line",[inl],[tag],target|None]   text line; newline at the end iff no divert target
           ["assign",x,expr] ["temp",x,expr] ["eval",expr] ["return",expr|None]
           ["divert",target] ["tunnel",name] ["thread",name]
           ["if",[[cond,block]..],else_block|None]              block conditional
           ["switch",expr,[[literal,block]..],else_block|None]  { x: - 1: .. - else: .. }
           ["seqblock",kind,id,[block]]                         { stopping: - a - b }
           ["choices",[choice]] ["gather",label|None]
  choice   {"id":n,"sticky":bool,"label":name|None,"conds":[expr],"start":[inl],"only":[inl]|None,
            "inner":[inl],"tags":[tag] (after the inner text: output only),"divert":target|None,
            "fallback":bool,"body":block}
  target   "END" | "DONE" | "->->" | "knot" | "knot.stitch"
  inl      ["t",text] ["e",expr] ["c",cond,[inl],[inl]|None] ["seq",kind,id,[[inl]]] ["glue"]
  expr     ["i",n] ["b",bool] ["s",str] ["v",name] ["cnt",path] ["un",op,e] ["bin",op,a,b]
           ["call",f,[expr]] ["turns_since",path] ["choice_count"] ["turns"] ["random",a,b] ["seed_random",e]

Termination: knots / stitches are totally ordered; a divert outside the body of a non-fallback
choice only goes forward, functions and tunnels only call later ones, so every cycle passes
through a player choice.  Gather depth is capped.
"""
import copy, json, random

WORDS = ("the door opens rain falls quietly a lamp flickers in dark hall you wait and listen she nods "
         "once then again nothing moves here today old stone bridge river runs cold we go on north "
         "road bends left right far light grows small bird sings").split()

DEFAULT_WEIGHTS = dict(
    # sizes
    n_knots=(2, 4), n_stitch_knots=0.35, n_tunnels=(0, 2), n_threads=(0, 1), n_funcs=(0, 2),
    n_gints=(1, 3), n_gbools=(0, 2), n_gstrs=(0, 2), max_sections=3, max_stmts=3, max_choices=3,
    # statements
    line=5.0, assign=2.0, temp=0.8, eval_call=0.5, tunnel=0.8, thread=0.5, block_if=1.0, switch=0.5,
    seqblock=0.4,
    # inline
    inl_expr=1.0, inl_cond=0.6, inl_seq=0.8, inl_glue=0.5, inl_call=0.4,
    seq_stopping=1.0, seq_cycle=1.0, seq_once=1.0, seq_shuffle=0.4,
    tags=0.2, line_divert=0.15,
    # choices
    sticky=0.3, choice_label=0.25, choice_cond=0.3, bracket=0.6, fallback=0.3, nested=0.35,
    choice_tags=0.15, choice_divert=0.35, back_divert=0.5, gather_label=0.3, choice_inline=0.25,
    # expressions
    read_count=0.8, turns_since=0.3, choice_count=0.3, turns=0.1, random=0.25, seed_random=0.1,
    strings=1.0, str_concat_int=0.3, func_text=0.4, func_call=0.8, pure_func=0.3,
    lists=0.0,
    end_done=0.3,         # probability that a final divert is DONE instead of END
    workarounds=1.0,      # > 0: avoid the constructs this compiler is known to miscompile (see the
                          # "finding c01-..." comments); 0: generate them too (valid Ink all the same)
    thread_stmts=(0, 2),  # (lo, hi) simple statements of a thread knot before its choices (C16 raises it:
                          # the story then pauses between two lines INSIDE a forked thread)
    func_stmts=(0, 2),    # (lo, hi) statements of an impure function before its final return
    fallback_pos=0.0,     # probability that a group's fallback is written ahead of a visible choice (0: always last)
    thread_fallback=0.0,  # probability that a thread knot also contributes a (once-only) fallback choice
)

# what Spec/RefSem.v covers: everything else is switched off in fragment="refsem"
REFSEM_OFF = dict(seq_shuffle=0.0, random=0.0, seed_random=0.0, lists=0.0)


def _pick(rng, table):
    tot = sum(w for _, w in table)
    if tot <= 0:
        return table[0][0]
    x = rng.random() * tot
    for v, w in table:
        x -= w
        if x < 0:
            return v
    return table[-1][0]


class Gen:
    def __init__(self, rng, w):
        self.rng, self.w = rng, w
        self.wa = w.get("workarounds", 1.0) > 0
        # workarounds kept even when workarounds == 0 (one name per still-open finding)
        self.keep = set(w.get("keep_workarounds", ()))
        self.seq_id = 0
        self.choice_id = 0
        self.label_id = 0
        self.labels = []          # full paths of labels generated so far

    # ------------------------------------------------------------ helpers
    def p(self, key):
        return self.rng.random() < self.w[key]

    def rint(self, key):
        lo, hi = self.w[key]
        return self.rng.randint(lo, hi)

    def words(self, lo=1, hi=4):
        n = self.rng.randint(lo, hi)
        return " ".join(self.rng.choice(WORDS) for _ in range(n))

    # ------------------------------------------------------------ expressions
    def int_expr(self, sc, d=2):
        r, w = self.rng, self.w
        opts = [("lit", 2.0)]
        if sc["ints"]:
            opts.append(("var", 3.0))
        if d > 0:
            opts.append(("bin", 2.0))
        if sc["counts"] and not sc.get("no_counts"):
            opts.append(("cnt", w["read_count"]))
            if not sc.get("choice_text") and not sc.get("plain_inline"):
                # TURNS_SINCE inside choice text: the target does not get its turn-count flag
                # (finding c01-turns-since-flag-missing: also inside switch / sequence-block elements)
                opts.append(("ts", w["turns_since"]))
        if sc.get("in_choice_cond"):
            opts.append(("cc", w["choice_count"] * 3))
        opts.append(("turns", w["turns"]))
        if sc["funcs"] and d > 0:
            opts.append(("call", w["func_call"]))
        if d > 0:
            opts.append(("random", w["random"]))
        k = _pick(r, opts)
        if k == "lit":
            return ["i", r.choice([0, 1, 1, 2, 2, 3, 4, 5, 7, 10])]
        if k == "var":
            return ["v", r.choice(sc["ints"])]
        if k == "bin":
            op = _pick(r, [("+", 3), ("-", 2), ("*", 1), ("/", 0.5), ("%", 0.5)])
            a = self.int_expr(sc, d - 1)
            if op in "/%":
                return ["bin", op, a, ["i", r.choice([1, 2, 3, 4])]]
            return ["bin", op, a, self.int_expr(sc, d - 1)]
        if k == "cnt":
            return ["cnt", r.choice(sc["counts"])]
        if k == "ts":
            return ["turns_since", r.choice([c for c in sc["counts"] if c.count(".") == 0] or sc["counts"])]
        if k == "cc":
            return ["choice_count"]
        if k == "turns":
            return ["turns"]
        if k == "call":
            f = r.choice(sc["funcs"])
            return ["call", f["name"], [self.int_expr(sc, 0) for _ in f["params"]]]
        return ["random", ["i", r.choice([0, 1])], ["i", r.choice([2, 3, 6])]]

    def bool_expr(self, sc, d=2):
        r = self.rng
        opts = [("cmp", 4.0)]
        if sc["bools"]:
            opts.append(("var", 2.0))
        if d > 0:
            opts += [("and", 1.0), ("or", 1.0), ("not", 1.0)]
        if sc["strs"] and self.w["strings"] > 0:
            opts.append(("streq", 0.7))
        if sc["bools"]:
            opts.append(("beq", 0.4))
        k = _pick(r, opts)
        if k == "cmp":
            op = r.choice(["==", "!=", "<", ">", "<=", ">="])
            return ["bin", op, self.int_expr(sc, d - 1), self.int_expr(sc, d - 1)]
        if k == "var":
            return ["v", r.choice(sc["bools"])]
        if k in ("and", "or"):
            return ["bin", k, self.bool_expr(sc, d - 1), self.bool_expr(sc, d - 1)]
        if k == "not":
            return ["un", "not", self.bool_expr(sc, d - 1)]
        if k == "streq":
            return ["bin", r.choice(["==", "!="]), ["v", r.choice(sc["strs"])], ["s", r.choice(WORDS)]]
        return ["bin", "==", ["v", r.choice(sc["bools"])], ["b", r.random() < 0.5]]

    def cond(self, sc):
        """a condition: boolean expression, or an integer used as one (read count)"""
        if sc["counts"] and not sc.get("no_counts") and self.rng.random() < 0.25 * min(1.0, self.w["read_count"]):
            c = ["cnt", self.rng.choice(sc["counts"])]
            return ["un", "not", c] if self.rng.random() < 0.4 else c
        return self.bool_expr(sc, 1)

    def str_expr(self, sc, d=1):
        r = self.rng
        opts = [("lit", 2.0)]
        if sc["strs"]:
            opts.append(("var", 2.0))
        if d > 0:
            opts.append(("cat", 1.5))
            opts.append(("cati", self.w["str_concat_int"]))
        k = _pick(r, opts)
        if k == "lit":
            return ["s", self.words(1, 2)]
        if k == "var":
            return ["v", r.choice(sc["strs"])]
        if k == "cat":
            return ["bin", "+", self.str_expr(sc, d - 1), self.str_expr(sc, d - 1)]
        return ["bin", "+", self.str_expr(sc, d - 1), self.int_expr(sc, 0)]

    def any_expr(self, sc):
        k = _pick(self.rng, [("i", 3.0), ("b", 1.0), ("s", self.w["strings"] if sc["strs"] else 0.0)])
        return {"i": self.int_expr, "b": self.bool_expr, "s": self.str_expr}[k](sc, 1)

    # ------------------------------------------------------------ inline content
    def inline(self, sc, d=1, allow_glue=True):
        """a non-empty list of inline elements starting with plain text"""
        r, w = self.rng, self.w
        out = [["t", self.words()]]
        n = _pick(r, [(0, 3.0), (1, 2.0), (2, 1.0)])
        for _ in range(n):
            opts = [("e", w["inl_expr"])]
            if d > 0 and not sc.get("plain_inline"):
                opts += [("c", w["inl_cond"]), ("seq", w["inl_seq"])]
            if sc["funcs"] and not sc.get("no_calls"):
                opts.append(("call", w["inl_call"]))
            k = _pick(r, opts)
            out.append(["t", " "])
            if k == "e":
                out.append(["e", self.any_expr(sc)])
            elif k == "c":
                a = self.inline(sc, d - 1, False)
                b = self.inline(sc, d - 1, False) if r.random() < 0.6 else None
                out.append(["c", self.cond(sc), a, b])
            elif k == "seq":
                out.append(self.seq(sc, d - 1))
            else:
                f = r.choice(sc["funcs"])
                out.append(["e", ["call", f["name"], [self.int_expr(sc, 0) for _ in f["params"]]]])
            if r.random() < 0.6:
                out.append(["t", " " + self.words(1, 2)])
        return out

    def seq(self, sc, d):
        r, w = self.rng, self.w
        kind = _pick(r, [("stopping", w["seq_stopping"]), ("cycle", w["seq_cycle"]),
                         ("once", w["seq_once"]), ("shuffle", w["seq_shuffle"])])
        n = r.randint(2, 3)
        alts = []
        for i in range(n):
            if r.random() < 0.12 and i > 0:
                alts.append([])
            else:
                alts.append(self.inline(sc, d, False) if d > 0 and r.random() < 0.3 else [["t", self.words(1, 2)]])
        self.seq_id += 1
        return ["seq", kind, self.seq_id, alts]

    def tags(self, key="tags"):
        if not self.p(key):
            return []
        return ["tag" + str(self.rng.randint(1, 5)) for _ in range(self.rng.choice([1, 1, 2]))]

    # ------------------------------------------------------------ statements
    def line(self, sc, divert=None):
        c = self.inline(sc)
        r = self.rng
        if self.p("inl_glue"):
            where = r.choice(["start", "end"])
            if where == "start":
                c = [["glue"], ["t", " "]] + c if r.random() < 0.5 else [["glue"]] + c
            elif divert is None:
                c = c + [["t", " "], ["glue"]] if r.random() < 0.5 else c + [["glue"]]
        tags = self.tags()
        if tags and c and c[-1] == ["glue"]:
            c = c[:-1]            # glue directly before a tag: the blank before '#' is kept by this parser
        return ["line", c, tags, divert]

    def assign(self, sc):
        r = self.rng
        pool = [("i", x) for x in sc["ints"] if x not in sc.get("params", [])]
        pool += [("b", x) for x in sc["bools"]] + [("s", x) for x in sc["strs"]]
        if not pool:
            return None
        t, x = r.choice(pool)
        if t == "i":
            if r.random() < 0.5:
                e = ["bin", r.choice(["+", "+", "-", "*"]), ["v", x], ["i", r.choice([1, 1, 2, 3])]]
            else:
                e = self.int_expr(sc, 1)
        elif t == "b":
            e = self.bool_expr(sc, 1)
        else:
            e = self.str_expr(sc, 1)
        return ["assign", x, e]

    def simple_stmt(self, sc, allow):
        """one statement without choices; `allow` is a set of optional kinds"""
        r, w = self.rng, self.w
        opts = [("line", w["line"]), ("assign", w["assign"])]
        if "if" in allow:
            opts += [("if", w["block_if"]), ("switch", w["switch"]), ("seqblock", w["seqblock"])]
        if "tunnel" in allow and sc["tunnels"]:
            opts.append(("tunnel", w["tunnel"]))
        if "thread" in allow and sc["threads"]:
            opts.append(("thread", w["thread"]))
        if sc["funcs"] and not sc.get("no_calls"):
            opts.append(("eval", w["eval_call"]))
        if sc.get("seedable"):
            opts.append(("seed", w["seed_random"]))
        k = _pick(r, opts)
        if k == "line":
            return self.line(sc)
        if k == "assign":
            return self.assign(sc) or self.line(sc)
        if k == "tunnel":
            return ["tunnel", r.choice(sc["tunnels"])]
        if k == "thread":
            return ["thread", r.choice(sc["threads"])]
        if k == "eval":
            f = r.choice(sc["funcs"])
            return ["eval", ["call", f["name"], [self.int_expr(sc, 0) for _ in f["params"]]]]
        if k == "seed":
            return ["eval", ["seed_random", ["i", r.randint(0, 50)]]]
        inner = allow - {"if"}
        if k == "if":
            nb = _pick(r, [(1, 3.0), (2, 1.0)])
            brs = [[self.cond(sc), self.simple_block(sc, inner, 1, 2)] for _ in range(nb)]
            els = self.simple_block(sc, inner, 1, 2) if r.random() < 0.5 else None
            return ["if", brs, els]
        if k == "switch":
            if not sc["ints"]:
                return self.line(sc)
            vals = r.sample([0, 1, 2, 3, 4], r.randint(1, 3))
            # (inline logic in switch branches is miscompiled too: finding c01-switch-inline-logic)
            ssc = dict(sc, plain_inline=self.wa)
            brs = [[["i", v], self.simple_block(ssc, inner - {"if"}, 1, 2)] for v in vals]
            els = self.simple_block(ssc, inner - {"if"}, 1, 2) if r.random() < 0.6 else None
            return ["switch", ["v", r.choice(sc["ints"])], brs, els]
        kind = _pick(r, [("stopping", w["seq_stopping"]), ("cycle", w["seq_cycle"]),
                         ("once", w["seq_once"]), ("shuffle", w["seq_shuffle"])])
        self.seq_id += 1
        # inline conditionals / alternatives inside a multi-line sequence element are miscompiled by
        # this compiler (finding c01-seqblock-inline-logic): keep the elements plain
        psc = dict(sc, plain_inline=self.wa)
        return ["seqblock", kind, self.seq_id, [self.simple_block(psc, set(), 1, 2) for _ in range(r.randint(2, 3))]]

    def simple_block(self, sc, allow, lo, hi):
        return [self.simple_stmt(sc, allow) for _ in range(self.rng.randint(lo, hi))]

    # ------------------------------------------------------------ weave
    def new_label(self, place):
        self.label_id += 1
        name = "l%d" % self.label_id
        self.pending_labels.append(place + "." + name)
        return name

    def target(self, sc, backward_ok):
        """a divert target: a later place, END/DONE, or (inside a non-fallback choice body) any place"""
        r = self.rng
        fwd = sc["forward"]
        if backward_ok and sc["places"] and r.random() < self.w["back_divert"]:
            return r.choice(sc["places"])
        if fwd and r.random() < 0.75:
            return r.choice(fwd[:3])
        if sc.get("final"):
            return sc["final"]
        return "DONE" if self.p("end_done") else "END"

    def choice(self, sc, level, must_divert, fallback=False):
        r, w = self.rng, self.w
        self.choice_id += 1
        c = {"id": self.choice_id, "sticky": self.p("sticky"), "label": None, "conds": [], "start": [],
             "only": None, "inner": [], "tags": [], "divert": None, "fallback": fallback, "body": []}
        csc = dict(sc, in_choice_cond=True)
        if self.p("choice_cond"):
            c["conds"] = [self.cond(csc) for _ in range(r.choice([1, 1, 2]))]
        if fallback:
            c["sticky"] = False if sc.get("fallback_once") else c["sticky"]
        else:
            if self.p("choice_label"):
                c["label"] = self.new_label(sc["place"])
            tsc = dict(sc, no_calls=True, choice_text=self.wa)
            simple = not self.p("choice_inline")
            c["start"] = [["t", self.words(1, 3)]] if simple else self.inline(tsc, 0, False)
            if self.p("bracket"):
                c["only"] = [["t", self.words(1, 2)]] if r.random() < 0.7 else []
                if r.random() < 0.7:
                    c["inner"] = [["t", " " + self.words(1, 3)]]
                if r.random() < 0.15:
                    c["start"] = []
                    if not c["only"]:
                        c["only"] = [["t", self.words(1, 2)]]
            c["tags"] = self.tags("choice_tags")
        # body
        bsc = dict(sc, in_choice_cond=False)
        body = self.simple_block(bsc, sc["allow"], 0, 2)
        if (not fallback and level < 2 and self.p("nested")):
            body.append(["choices", self.choice_group(bsc, level + 1, must_divert)])
            if not must_divert and r.random() < 0.4:
                body += self.gather(bsc)
                body += self.simple_block(bsc, sc["allow"], 1, 2)
        elif must_divert or self.p("choice_divert") or (fallback and c["conds"]):
            t = self.target(sc, backward_ok=not fallback and not sc.get("no_back"))
            if fallback and t == "->->":
                c["conds"] = []
                body.append(["divert", t])
            elif fallback and c["conds"] and self.wa:
                # `* {cond} ->` followed by a body is miscompiled (finding c01-conditional-fallback-body):
                # a conditional fallback only gets an inline target
                body = []
                c["divert"] = t
            elif (fallback or not self.wa) and not body and r.random() < 0.5:
                c["divert"] = t
            else:
                # (no inline divert on a visible choice line, and no body that is only `-> END`: this
                # compiler's newline after the choice text differs from the reference there —
                # findings c01-choice-inline-divert-newline, c01-choice-newline-before-end)
                if self.wa and not fallback and not body and (t in ("END", "DONE") or not c["start"]):
                    body.append(["line", [["t", self.words()]], [], None])
                body.append(["divert", t])
        c["body"] = body
        return c

    def gather(self, sc):
        """a gather; an anonymous one is always followed by a plain text line printed on the gather's
        own line (`- text`): a bare `-` line after a bracketed choice is miscompiled by this compiler
        when the flow also has a labelled gather (finding c01-bare-gather-after-bracket-choice)"""
        if self.p("gather_label"):
            return [["gather", self.new_label(sc["place"])]]
        # (finding c01-label-path-after-threaded-gather: a bare `-` after a bracket-less choice block in a
        # stitch makes this compiler nest the weave one container deeper than its label paths assume)
        bare_ok = not self.wa and not ("bare_gather_in_stitch" in self.keep and "." in sc["place"])
        if bare_ok and self.rng.random() < 0.5:
            return [["gather", None]]
        return [["gather", None], ["line", [["t", self.words()]] + self.inline(sc)[1:], self.tags(), None]]

    def choice_group(self, sc, level, must_divert):
        r = self.rng
        n = r.randint(1, self.w["max_choices"])
        cs = [self.choice(sc, level, must_divert) for _ in range(n)]
        if self.p("fallback"):
            fb = self.choice(sc, level, must_divert, fallback=True)
            # (addition, off by default — no extra draw then) the fallback written AHEAD of visible choices of
            # its group: the generated choice list and the list the host sees are numbered differently
            fp = self.w.get("fallback_pos", 0.0)
            if fp > 0 and r.random() < fp:
                cs.insert(r.randint(0, len(cs) - 1), fb)
            else:
                cs.append(fb)
        return cs

    def weave(self, sc, final):
        """top-level weave of a knot / stitch: statements, choice groups, gathers, final divert.
        `final`: None (pick a forward target / END / DONE), or a fixed terminal statement list."""
        r = self.rng
        out = self.simple_block(sc, sc["allow"], 1, self.w["max_stmts"])
        nsec = r.randint(0, self.w["max_sections"])
        for s in range(nsec):
            last = s == nsec - 1
            has_gather = (not last) or r.random() < 0.6
            out.append(["choices", self.choice_group(sc, 1, must_divert=not has_gather)])
            if not has_gather:
                return out
            out += self.gather(sc)
            out += self.simple_block(sc, sc["allow"], 0 if not last else 1, self.w["max_stmts"])
        if final is not None:
            return out + final
        t = self.target(sc, backward_ok=False)
        if out and out[-1][0] == "line" and out[-1][3] is None and not out[-1][2] and self.p("line_divert") \
                and not (out[-1][1] and out[-1][1][-1] == ["glue"]):
            out[-1][3] = t
        else:
            out.append(["divert", t])
        return out

    # ------------------------------------------------------------ program
    def program(self):
        r, w = self.rng, self.w
        gints = ["gi%d" % i for i in range(self.rint("n_gints"))]
        gbools = ["gb%d" % i for i in range(self.rint("n_gbools"))]
        gstrs = ["gs%d" % i for i in range(self.rint("n_gstrs"))] if w["strings"] > 0 else []
        glob = [[x, ["i", r.choice([0, 0, 1, 2, 5])]] for x in gints]
        glob += [[x, ["b", r.random() < 0.5]] for x in gbools]
        glob += [[x, ["s", r.choice(WORDS)]] for x in gstrs]
        nk = self.rint("n_knots")
        knots = []
        places = []
        for i in range(nk):
            k = {"name": "k%d" % i, "params": [], "function": False, "body": [], "stitches": []}
            places.append(k["name"])
            if self.p("n_stitch_knots"):
                for j in range(r.randint(1, 2)):
                    k["stitches"].append({"name": "s%d" % j, "body": []})
                    places.append(k["name"] + ".s%d" % j)
            knots.append(k)
        tunnels = ["t%d" % i for i in range(self.rint("n_tunnels"))]
        threads = ["th%d" % i for i in range(self.rint("n_threads"))]
        funcs = [{"name": "f%d" % i, "params": ["a", "b"][:r.randint(0, 2)]} for i in range(self.rint("n_funcs"))]
        counts = list(places) + tunnels + threads
        base = dict(ints=gints, bools=gbools, strs=gstrs, counts=counts, places=places, seedable=True)
        self.pending_labels = []

        # functions (later ones first, so that calls only go forward)
        fknots = []
        for i in reversed(range(len(funcs))):
            f = funcs[i]
            sc = dict(base, ints=gints + f["params"], params=f["params"], funcs=funcs[i + 1:], tunnels=[],
                      threads=[], forward=[], allow={"if"}, place=f["name"], no_counts=False, seedable=False)
            body = []
            pure = self.p("pure_func")          # no assignment, no text: only computes its result
            text = (not pure) and self.p("func_text")
            for _ in range(0 if pure else r.randint(*w["func_stmts"])):
                k = _pick(r, [("assign", 2.0), ("line", 1.5 if text else 0.0), ("ifret", 1.0)])
                if k == "assign":
                    a = self.assign(sc)
                    if a:
                        body.append(a)
                elif k == "line":
                    body.append(["line", self.inline(dict(sc, no_calls=True), 0, False), [], None])
                else:
                    body.append(["if", [[self.cond(sc), [["return", self.int_expr(sc, 1)]]]], None])
            body.append(["return", self.int_expr(sc, 1)])
            fknots.append({"name": f["name"], "params": f["params"], "function": True, "body": body, "stitches": []})
        fknots.reverse()

        # tunnels
        tknots = []
        for i in reversed(range(len(tunnels))):
            sc = dict(base, funcs=funcs, tunnels=tunnels[i + 1:], threads=[], forward=[], allow={"if", "tunnel"},
                      place=tunnels[i], final="->->", no_back=True)
            body = self.simple_block(sc, sc["allow"], 1, 2)
            if r.random() < 0.4:
                body.append(["choices", self.choice_group(dict(sc, fallback_once=True), 1, must_divert=False)])
                body += self.gather(sc)
                body += self.simple_block(sc, sc["allow"], 0, 1)
            body.append(["divert", "->->"])
            tknots.append({"name": tunnels[i], "params": [], "function": False, "body": body, "stitches": []})
        tknots.reverse()

        # thread knots: text, then choices whose bodies leave to the main knots
        thknots = []
        for name in threads:
            sc = dict(base, funcs=funcs, tunnels=[], threads=[], forward=places, allow=set(), place=name)
            body = self.simple_block(sc, set(), *w["thread_stmts"])
            n = r.randint(1, 2)
            body.append(["choices", [self.choice(sc, 2, must_divert=True) for _ in range(n)]])
            # (addition, off by default — no extra draw then) a once-only fallback among the thread's choices:
            # it is generated BEFORE the choices of the weave that started the thread
            tf = w.get("thread_fallback", 0.0)
            if tf > 0 and r.random() < tf:
                fb = self.choice(dict(sc, fallback_once=True), 2, must_divert=True, fallback=True)
                body[-1][1].insert(r.randint(0, n), fb)
            thknots.append({"name": name, "params": [], "function": False, "body": body, "stitches": []})

        # main knots, in order
        for k in knots:
            temps = []
            kplaces = [k["name"]] + [k["name"] + "." + s["name"] for s in k["stitches"]]
            for pi, place in enumerate(kplaces):
                idx = places.index(place)
                fwd = places[idx + 1:]
                sc = dict(base, funcs=funcs, tunnels=tunnels, threads=threads, forward=fwd,
                          allow={"if", "tunnel", "thread"}, place=place, counts=counts + self.labels)
                pre = []
                if self.p("temp"):
                    tname = "tm%d_%d" % (places.index(place), len(temps))
                    pre.append(["temp", tname, self.int_expr(sc, 1)])
                    sc = dict(sc, ints=sc["ints"] + [tname])
                if pi == 0 and k["stitches"] and r.random() < 0.3:
                    k["body"] = []        # knot without own content: flow starts in its first stitch
                    continue
                body = pre + self.weave(sc, None)
                if pi == 0:
                    k["body"] = body
                else:
                    k["stitches"][pi - 1]["body"] = body
                self.labels += self.pending_labels
                self.pending_labels = []
        top = []
        if r.random() < 0.4:
            sc = dict(base, funcs=funcs, tunnels=[], threads=[], forward=places, allow={"if"}, place="",
                      counts=counts)
            top = self.simple_block(sc, {"if"}, 1, 2)
        top.append(["divert", places[0]])
        lists = []
        if self.p("lists"):
            lists.append(["colours", ["red", "green", "blue"]])
        return {"globals": glob, "lists": lists, "top": top, "knots": knots + tknots + thknots + fknots}


def gen_program(rng, fragment="full", **weights):
    """-> (source_text, ast).  fragment="refsem": only what Spec/RefSem.v covers."""
    w = dict(DEFAULT_WEIGHTS)
    if fragment == "refsem":
        w.update(REFSEM_OFF)
    w.update(weights)
    if fragment == "refsem":
        for k, v in REFSEM_OFF.items():
            w[k] = v
    ast = Gen(rng, w).program()
    ast["fragment"] = fragment
    return print_program(ast), ast


def gen_refsem(rng, **weights):
    """-> (source_text, ast, gallina_term): a program of the RefSem fragment together with its AST as a
    term of type InkAst.program (what Spec/RefSem.v is evaluated on)"""
    src, ast = gen_program(rng, fragment="refsem", **weights)
    return src, ast, ast_to_coq(ast)


# ================================================================== printer
PREC = {"or": 1, "and": 2, "==": 3, "!=": 3, "<": 4, ">": 4, "<=": 4, ">=": 4, "+": 5, "-": 5, "*": 6, "/": 6, "%": 6}


def p_expr(e, top=True):
    k = e[0]
    if k == "i":
        return str(e[1]) if e[1] >= 0 else "(0 - %d)" % -e[1]
    if k == "b":
        return "true" if e[1] else "false"
    if k == "s":
        return '"' + e[1] + '"'
    if k == "v":
        return e[1]
    if k == "cnt":
        return e[1]
    if k == "un":
        # never parenthesise a lone identifier: `(x)` is list-literal syntax in Ink
        atom = e[2][0] in ("v", "cnt", "i", "b", "call", "turns_since", "choice_count", "turns")
        return ("not " if e[1] == "not" else "-") + (p_expr(e[2]) if atom else "(" + p_expr(e[2]) + ")")
    if k == "bin":
        s = p_expr(e[2], False) + " " + e[1] + " " + p_expr(e[3], False)
        return s if top else "(" + s + ")"
    if k == "call":
        return e[1] + "(" + ", ".join(p_expr(a) for a in e[2]) + ")"
    if k == "turns_since":
        return "TURNS_SINCE(-> " + e[1] + ")"
    if k == "choice_count":
        return "CHOICE_COUNT()"
    if k == "turns":
        return "TURNS()"
    if k == "random":
        return "RANDOM(" + p_expr(e[1]) + ", " + p_expr(e[2]) + ")"
    if k == "seed_random":
        return "SEED_RANDOM(" + p_expr(e[1]) + ")"
    if k == "list":
        return e[1]
    raise ValueError(e)


def p_cond(e):
    """a condition; this compiler parses `a == F()` (anything ending in a zero-argument call) as a call
    of a function named "a == F" (finding c01-cond-trailing-call), so such conditions are parenthesised"""
    s = p_expr(e)
    if s.endswith("()") and e[0] in ("bin", "un"):
        return "(" + s + ")"
    return s


SEQ_PREFIX = {"stopping": "", "cycle": "&", "once": "!", "shuffle": "~"}


def p_inl(c):
    out = []
    for x in c:
        k = x[0]
        if k == "t":
            out.append(x[1])
        elif k == "e":
            out.append("{" + p_expr(x[1]) + "}")
        elif k == "c":
            out.append("{" + p_cond(x[1]) + ": " + p_inl(x[2]) + ("|" + p_inl(x[3]) if x[3] is not None else "") + "}")
        elif k == "seq":
            out.append("{" + SEQ_PREFIX[x[1]] + "|".join(p_inl(a) for a in x[3]) + "}")
        elif k == "glue":
            out.append("<>")
        else:
            raise ValueError(x)
    return "".join(out)


def p_target(t):
    return "->->" if t == "->->" else "-> " + t


def p_block(b, level, ind, out):
    pad = "  " * ind
    skip = False
    for bi, s in enumerate(b):
        if skip:
            skip = False
            continue
        k = s[0]
        if k == "gather" and s[1] is None and bi + 1 < len(b) and b[bi + 1][0] == "line" \
                and b[bi + 1][1] and b[bi + 1][1][0][0] == "t" and b[bi + 1][1][0][1][:1].isalpha():
            nxt = b[bi + 1]
            t = p_inl(nxt[1]) + "".join(" # " + g for g in nxt[2])
            if nxt[3] is not None:
                t += " " + p_target(nxt[3])
            out.append(pad + " ".join("-" * level) + " " + t)
            skip = True
            continue
        if k == "line":
            t = p_inl(s[1]) + "".join(" # " + g for g in s[2])
            if s[3] is not None:
                t += " " + p_target(s[3])
            out.append(pad + t)
        elif k == "assign":
            out.append(pad + "~ " + s[1] + " = " + p_expr(s[2]))
        elif k == "temp":
            out.append(pad + "~ temp " + s[1] + " = " + p_expr(s[2]))
        elif k == "eval":
            out.append(pad + "~ " + p_expr(s[1]))
        elif k == "return":
            out.append(pad + "~ return" + (" " + p_expr(s[1]) if s[1] is not None else ""))
        elif k == "divert":
            out.append(pad + p_target(s[1]))
        elif k == "tunnel":
            out.append(pad + "-> " + s[1] + " ->")
        elif k == "thread":
            out.append(pad + "<- " + s[1])
        elif k == "if":
            brs, els = s[1], s[2]
            if len(brs) == 1 and els is None:
                out.append(pad + "{ " + p_cond(brs[0][0]) + ":")
                p_block(brs[0][1], level, ind + 1, out)
                out.append(pad + "}")
            else:
                out.append(pad + "{")
                for c, blk in brs:
                    out.append(pad + "- " + p_cond(c) + ":")
                    p_block(blk, level, ind + 2, out)
                if els is not None:
                    out.append(pad + "- else:")
                    p_block(els, level, ind + 2, out)
                out.append(pad + "}")
        elif k == "switch":
            out.append(pad + "{ " + p_expr(s[1]) + ":")
            for c, blk in s[2]:
                out.append(pad + "- " + p_expr(c) + ":")
                p_block(blk, level, ind + 2, out)
            if s[3] is not None:
                out.append(pad + "- else:")
                p_block(s[3], level, ind + 2, out)
            out.append(pad + "}")
        elif k == "seqblock":
            out.append(pad + "{ " + s[1] + ":")
            for blk in s[3]:
                sub = []
                p_block(blk, level, ind + 2, sub)
                sub[0] = pad + "- " + sub[0].lstrip()
                out += sub
            out.append(pad + "}")
        elif k == "choices":
            for c in s[1]:
                mark = ("+" if c["sticky"] else "*") * level
                t = pad + " ".join(mark)
                if c["label"]:
                    t += " (" + c["label"] + ")"
                for e in c["conds"]:
                    t += " {" + p_cond(e) + "}"
                if c["fallback"]:
                    t += " ->" + (" " + c["divert"] if c["divert"] else "")
                else:
                    t += " " + p_inl(c["start"])
                    if c["only"] is not None:
                        t += "[" + p_inl(c["only"]) + "]"
                    t += p_inl(c["inner"]) + "".join(" # " + g for g in c["tags"])
                    if c["divert"]:
                        t += " " + p_target(c["divert"])
                out.append(t)
                p_block(c["body"], level + 1, ind + 1, out)
        elif k == "gather":
            out.append(pad + " ".join("-" * level) + (" (" + s[1] + ")" if s[1] else ""))
        else:
            raise ValueError(s)


def print_program(ast):
    out = []
    for name, items in ast.get("lists", []):
        out.append("LIST " + name + " = " + ", ".join(items))
    for name, e in ast["globals"]:
        out.append("VAR " + name + " = " + p_expr(e))
    p_block(ast["top"], 1, 0, out)
    for k in ast["knots"]:
        if k["function"]:
            out.append("=== function " + k["name"] + "(" + ", ".join(k["params"]) + ") ===")
        else:
            out.append("=== " + k["name"] + " ===")
        p_block(k["body"], 1, 0, out)
        for s in k["stitches"]:
            out.append("= " + s["name"])
            p_block(s["body"], 1, 0, out)
    return "\n".join(out) + "\n"


# ================================================================== names the checks observe
def global_names(ast):
    return [g[0] for g in ast["globals"]]


def _walk_blocks(ast):
    """yield (place, block) for every top-level block; place = '' | knot | knot.stitch"""
    yield "", ast["top"]
    for k in ast["knots"]:
        yield k["name"], k["body"]
        for s in k["stitches"]:
            yield k["name"] + "." + s["name"], s["body"]


def _labels_in(block, place, out):
    for s in block:
        if s[0] == "gather" and s[1]:
            out.append(place + "." + s[1])
        elif s[0] == "choices":
            for c in s[1]:
                if c["label"]:
                    out.append(place + "." + c["label"])
                _labels_in(c["body"], place, out)
        elif s[0] == "if":
            for _, b in s[1]:
                _labels_in(b, place, out)
            if s[2]:
                _labels_in(s[2], place, out)


def count_names(ast, labels=True):
    """paths whose visit counts are observable: knots, stitches and (optionally) labels"""
    out = []
    for k in ast["knots"]:
        if k["function"]:
            continue
        out.append(k["name"])
        for s in k["stitches"]:
            out.append(k["name"] + "." + s["name"])
    if labels:
        for place, b in _walk_blocks(ast):
            if place:
                _labels_in(b, place, out)
    return out


# ================================================================== features
def features(ast):
    f = {}

    def inc(k, n=1):
        f[k] = f.get(k, 0) + n

    def ex(e):
        k = e[0]
        if k in ("cnt", "turns_since", "choice_count", "turns", "random", "seed_random", "call"):
            inc("expr." + k)
        if k == "s":
            inc("expr.string")
        if k == "un":
            inc("expr." + e[1]); ex(e[2])
        if k == "bin":
            inc("expr.op" + e[1]); ex(e[2]); ex(e[3])
        if k == "call":
            for a in e[2]:
                ex(a)
        if k in ("random",):
            ex(e[1]); ex(e[2])

    def inl(c):
        for x in c:
            if x[0] == "e":
                inc("inline.expr"); ex(x[1])
            elif x[0] == "c":
                inc("inline.cond"); ex(x[1]); inl(x[2]); inl(x[3] or [])
            elif x[0] == "seq":
                inc("seq." + x[1])
                for a in x[3]:
                    inl(a)
            elif x[0] == "glue":
                inc("glue")

    def blk(b, level):
        for s in b:
            k = s[0]
            inc("stmt." + k)
            if k == "line":
                inl(s[1])
                if s[2]:
                    inc("tags")
                if s[3]:
                    inc("line.divert")
            elif k in ("assign", "temp", "eval"):
                ex(s[2] if k != "eval" else s[1])
            elif k == "return" and s[1]:
                ex(s[1])
            elif k == "divert":
                inc("divert." + (s[1] if s[1] in ("END", "DONE", "->->") else "knot"))
            elif k == "if":
                for c, b2 in s[1]:
                    ex(c); blk(b2, level)
                if s[2]:
                    blk(s[2], level)
            elif k == "switch":
                for _, b2 in s[2]:
                    blk(b2, level)
                if s[3]:
                    blk(s[3], level)
            elif k == "seqblock":
                inc("seqblock." + s[1])
                for b2 in s[3]:
                    blk(b2, level)
            elif k == "choices":
                for c in s[1]:
                    inc("choice.level%d" % level)
                    inc("choice.sticky" if c["sticky"] else "choice.once")
                    if c["fallback"]:
                        inc("choice.fallback")
                    if c["label"]:
                        inc("choice.label")
                    if c["conds"]:
                        inc("choice.cond")
                        for e in c["conds"]:
                            ex(e)
                    if c["only"] is not None:
                        inc("choice.bracket")
                    if c["tags"]:
                        inc("choice.tags")
                    if c["divert"]:
                        inc("choice.divert")
                    inl(c["start"]); inl(c["only"] or []); inl(c["inner"])
                    blk(c["body"], level + 1)
            elif k == "gather":
                inc("gather.level%d" % level)
                if s[1]:
                    inc("gather.label")

    blk(ast["top"], 1)
    for k in ast["knots"]:
        inc("knot.function" if k["function"] else "knot")
        if k["function"] and any(s[0] == "line" for s in k["body"]):
            inc("function.text")
        blk(k["body"], 1)
        for s in k["stitches"]:
            inc("stitch"); blk(s["body"], 1)
        if k["stitches"] and not k["body"]:
            inc("knot.empty_body")
    for g in ast["globals"]:
        inc("global." + g[1][0])
    if ast.get("lists"):
        inc("list")
    return f


# ================================================================== Gallina term (Spec/InkAst.v)
def tq(s):
    return "[" + ";".join(str(ord(c)) for c in s) + "]"


BINOPS = {"+": "BAdd", "-": "BSub", "*": "BMul", "/": "BDiv", "%": "BMod", "==": "BEq", "!=": "BNe", "<": "BLt",
          ">": "BGt", "<=": "BLe", ">=": "BGe", "and": "BAnd", "or": "BOr"}
SEQK = {"stopping": "SeqStopping", "cycle": "SeqCycle", "once": "SeqOnce", "shuffle": "SeqShuffle"}


def c_list(xs):
    return "[" + ";".join(xs) + "]"


def c_expr(e):
    k = e[0]
    if k == "i":
        return f"(EInt ({e[1]})%Z)"
    if k == "b":
        return f"(EBool {'true' if e[1] else 'false'})"
    if k == "s":
        return f"(EStr {tq(e[1])})"
    if k == "v":
        return f"(EVar {tq(e[1])})"
    if k == "cnt":
        return f"(ECount {tq(e[1])})"
    if k == "un":
        return f"(EUn {'UNot' if e[1] == 'not' else 'UNeg'} {c_expr(e[2])})"
    if k == "bin":
        return f"(EBin {BINOPS[e[1]]} {c_expr(e[2])} {c_expr(e[3])})"
    if k == "call":
        return f"(ECall {tq(e[1])} {c_list([c_expr(a) for a in e[2]])})"
    if k == "turns_since":
        return f"(ETurnsSince {tq(e[1])})"
    if k == "choice_count":
        return "EChoiceCount"
    if k == "turns":
        return "ETurns"
    raise ValueError("not in the RefSem fragment: %r" % (e,))


def c_inl(c):
    out = []
    for x in c:
        k = x[0]
        if k == "t":
            out.append(f"IText {tq(x[1])}")
        elif k == "e":
            out.append(f"IExpr {c_expr(x[1])}")
        elif k == "c":
            out.append(f"ICond {c_expr(x[1])} {c_inl(x[2])} {c_inl(x[3] or [])}")
        elif k == "seq":
            if x[1] == "shuffle":
                raise ValueError("shuffle not in the RefSem fragment")
            out.append(f"ISeq {SEQK[x[1]]} {x[2]}%nat {c_list([c_inl(a) for a in x[3]])}")
        elif k == "glue":
            out.append("IGlue")
        else:
            raise ValueError(x)
    return c_list(out)


def c_target(t):
    if t == "END":
        return "TEnd"
    if t == "DONE":
        return "TDone"
    if t == "->->":
        return "TTunnelRet"
    return f"(TKnot {tq(t)})"


def c_opt(x, f):
    return "None" if x is None else f"(Some {f(x)})"


def c_block(b):
    out = []
    for s in b:
        k = s[0]
        if k == "line":
            # `text -> target`: the blank before the arrow belongs to the text (source-level fact)
            content = s[1] + ([["t", " "]] if s[3] is not None and not s[2] else [])
            out.append(f"SLine {c_inl(content)} {c_list([tq(g) for g in s[2]])} {c_opt(s[3], c_target)}")
        elif k == "assign":
            out.append(f"SAssign {tq(s[1])} {c_expr(s[2])}")
        elif k == "temp":
            out.append(f"STemp {tq(s[1])} {c_expr(s[2])}")
        elif k == "eval":
            out.append(f"SEval {c_expr(s[1])}")
        elif k == "return":
            out.append(f"SReturn {c_opt(s[1], c_expr)}")
        elif k == "divert":
            out.append(f"SDivert {c_target(s[1])}")
        elif k == "tunnel":
            out.append(f"STunnel {tq(s[1])}")
        elif k == "thread":
            out.append(f"SThread {tq(s[1])}")
        elif k == "if":
            brs = c_list([f"({c_expr(c)},{c_block(b2)})" for c, b2 in s[1]])
            out.append(f"SIf {brs} {c_block(s[2] or [])}")
        elif k == "switch":
            # source-level desugaring: { x: - v: b } is { - x == v: b }
            brs = c_list([f"({c_expr(['bin', '==', s[1], c])},{c_block(b2)})" for c, b2 in s[2]])
            out.append(f"SIf {brs} {c_block(s[3] or [])}")
        elif k == "seqblock":
            if s[1] == "shuffle":
                raise ValueError("shuffle not in the RefSem fragment")
            out.append(f"SSeq {SEQK[s[1]]} {s[2]}%nat {c_list([c_block(b2) for b2 in s[3]])}")
        elif k == "choices":
            cs = []
            for c in s[1]:
                # `* text -> target`: the blank before the arrow belongs to the text
                inner = c["inner"] + ([["t", " "]] if c["divert"] and not c["fallback"] and not c["tags"] else [])
                cs.append("mkChoice %d%%nat %s %s %s %s %s %s %s %s %s %s %s" % (
                    c["id"], "true" if c["sticky"] else "false", c_opt(c["label"], tq),
                    c_list([c_expr(e) for e in c["conds"]]), c_inl(c["start"]),
                    "true" if c["only"] is not None else "false", c_inl(c["only"] or []), c_inl(inner),
                    c_list([tq(g) for g in c["tags"]]), c_opt(c["divert"], c_target),
                    "true" if c["fallback"] else "false", c_block(c["body"])))
            out.append("SChoices " + c_list(cs))
        elif k == "gather":
            out.append(f"SGather {c_opt(s[1], tq)}")
        else:
            raise ValueError(s)
    return c_list(out)


def ast_to_coq(ast):
    if ast.get("lists"):
        raise ValueError("lists not in the RefSem fragment")
    gl = c_list([f"({tq(n)},{c_expr(e)})" for n, e in ast["globals"]])
    ks = []
    for k in ast["knots"]:
        st = c_list([f"({tq(s['name'])},{c_block(s['body'])})" for s in k["stitches"]])
        ks.append(f"mkKnot {tq(k['name'])} {c_list([tq(p) for p in k['params']])} "
                  f"{'true' if k['function'] else 'false'} {c_block(k['body'])} {st}")
    return f"(mkProgram {gl} {c_block(ast['top'])} {c_list(ks)})"


# ================================================================== scripts
def gen_script(rng, ast, kind="explore", depth=None, max_paths=None, length=12):
    """inkdrive case fragment for a program.
    kind "explore": {"script":[], "explore":{depth,max_paths}}
         "walk":    a linear script of CONT / CONT_MAX / CHOOSE ops with GETVAR / VISITS probes
         "async":   like walk, with CONT_ASYNC slices
         "probe":   the GETVAR/VISITS ops for every global and every knot / stitch / label"""
    gl, cn = global_names(ast), count_names(ast)
    probe = [["GETVAR", g] for g in gl] + [["VISITS", c] for c in cn]
    if kind == "explore":
        return {"script": [], "explore": {"depth": depth if depth is not None else rng.randint(3, 5),
                                          "max_paths": max_paths or 60}}
    if kind == "probe":
        return {"script": probe}
    ops = []
    for _ in range(length):
        x = rng.random()
        if kind == "async" and x < 0.35:
            ops.append(["CONT_ASYNC", [rng.randint(1, 4)]])
            if rng.random() < 0.5:
                ops.append(["CONT"])
        elif x < 0.45:
            ops.append(["CONT"])
        elif x < 0.65:
            ops.append(["CONT_MAX"])
        elif x < 0.92:
            ops.append(["CHOOSE", rng.choice([0, 0, 0, 1, 1, 2, 3])])
        elif gl and x < 0.96:
            ops.append(["GETVAR", rng.choice(gl)])
        elif cn:
            ops.append(["VISITS", rng.choice(cn)])
    return {"script": ops + probe}


# ================================================================== look-ahead variants
def lookahead_variant(ast, rng, mode):
    """A program with the same observable behaviour but different look-ahead lengths: after each plain
    text line (newline-terminated, no glue at its end) of a main weave insert
       mode "noop":  a statement without output or effect on observed state (`~ temp zz = 0`-style
                     evaluation) — the engine has to look further ahead to confirm the line end;
       mode "cond":  a text line whose only content is an inline conditional that is false (prints
                     nothing; its newline is absorbed);
       (a glue line would change the text, so it is not semantics-preserving and is not offered).
    Returns a new AST (deep copy)."""
    a = copy.deepcopy(ast)
    n = [0]

    def blk(b):
        out = []
        for s in b:
            out.append(s)
            if s[0] == "line" and s[3] is None and rng.random() < 0.7:
                n[0] += 1
                if mode == "cond":
                    # a line that prints nothing: the engine has to evaluate it to find that out
                    out.append(["line", [["t", ""], ["c", ["bin", ">", ["i", 0], ["i", n[0]]], [["t", "never"]], None]], [], None])
                else:
                    out.append(["temp", "zz%d" % n[0], ["i", n[0]]])
                    if rng.random() < 0.4:
                        n[0] += 1
                        out.append(["temp", "zz%d" % n[0], ["bin", "+", ["i", 1], ["i", n[0]]]])
            if s[0] == "choices":
                for c in s[1]:
                    c["body"] = blk(c["body"])
            elif s[0] == "if":
                for br in s[1]:
                    br[1] = blk(br[1])
                if s[2]:
                    s[2] = blk(s[2])
        return out

    for k in a["knots"]:
        if k["function"]:
            continue
        k["body"] = blk(k["body"])
        for s in k["stitches"]:
            s["body"] = blk(s["body"])
    return a


# ================================================================== shrinking
def referenced_names(ast):
    """every identifier the program mentions (variables, read counts, divert / tunnel / thread /
    call targets) — deleting the definition of a mentioned name is not a valid shrink step (this
    compiler accepts some programs with dangling names)"""
    names = set()

    def walk(x):
        if isinstance(x, list):
            if x and isinstance(x[0], str):
                k = x[0]
                if k in ("v", "cnt", "turns_since", "tunnel", "thread", "divert") and len(x) > 1 and isinstance(x[1], str):
                    names.add(x[1])
                if k == "call":
                    names.add(x[1])
                if k == "assign":
                    names.add(x[1])
                if k == "line" and len(x) > 3 and isinstance(x[3], str):
                    names.add(x[3])
            for y in x:
                walk(y)
        elif isinstance(x, dict):
            if isinstance(x.get("divert"), str):
                names.add(x["divert"])
            for k, y in x.items():
                if k not in ("name", "params"):
                    walk(y)

    walk(ast["top"]); walk(ast["knots"])
    full = set(names)
    for n in names:
        parts = n.split(".")
        for i in range(1, len(parts)):
            full.add(".".join(parts[:i]))
    return full


def _candidates(ast):
    """smaller variants of the AST (one deletion each)"""
    refs = referenced_names(ast)
    def blocks(b, path):
        yield path
        for i, s in enumerate(b):
            if s[0] == "choices":
                for j, c in enumerate(s[1]):
                    yield from blocks(c["body"], path + [(i, "c", j)])
            elif s[0] == "if":
                for j, br in enumerate(s[1]):
                    yield from blocks(br[1], path + [(i, "if", j)])
                if s[2]:
                    yield from blocks(s[2], path + [(i, "else", 0)])

    def get(root, path):
        b = root
        for i, kind, j in path:
            s = b[i]
            b = s[1][j]["body"] if kind == "c" else (s[1][j][1] if kind == "if" else s[2])
        return b

    roots = [("top", None, None)]
    for ki, k in enumerate(ast["knots"]):
        roots.append(("knot", ki, None))
        for si in range(len(k["stitches"])):
            roots.append(("stitch", ki, si))

    def root_block(a, r):
        if r[0] == "top":
            return a["top"]
        if r[0] == "knot":
            return a["knots"][r[1]]["body"]
        return a["knots"][r[1]]["stitches"][r[2]]["body"]

    # whole knots / stitches / globals
    for ki in reversed(range(len(ast["knots"]))):
        kn = ast["knots"][ki]["name"]
        if kn not in refs:
            a = copy.deepcopy(ast); del a["knots"][ki]; yield a
        for si in reversed(range(len(ast["knots"][ki]["stitches"]))):
            if kn + "." + ast["knots"][ki]["stitches"][si]["name"] not in refs:
                a = copy.deepcopy(ast); del a["knots"][ki]["stitches"][si]; yield a
    for r in roots:
        for path in blocks(root_block(ast, r), []):
            b = get(root_block(ast, r), path)
            for i in reversed(range(len(b))):
                s = b[i]
                if not (s[0] == "temp" and s[1] in refs):
                    a = copy.deepcopy(ast)
                    del get(root_block(a, r), path)[i]
                    yield a
                if s[0] == "choices" and len(s[1]) > 1:
                    for j in reversed(range(len(s[1]))):
                        a = copy.deepcopy(ast)
                        del get(root_block(a, r), path)[i][1][j]
                        yield a
                if s[0] == "choices":
                    for j, c in enumerate(s[1]):
                        for fld, val in (("conds", []), ("tags", []), ("label", None), ("inner", []), ("only", None)):
                            if fld == "only" and not c["start"]:
                                continue      # would turn the choice into a fallback
                            if c[fld]:
                                a = copy.deepcopy(ast)
                                get(root_block(a, r), path)[i][1][j][fld] = val
                                yield a
                if s[0] == "line":
                    if s[2]:
                        a = copy.deepcopy(ast); get(root_block(a, r), path)[i][2] = []; yield a
                    if len(s[1]) > 1:
                        for j in reversed(range(len(s[1]))):
                            a = copy.deepcopy(ast); del get(root_block(a, r), path)[i][1][j]; yield a
    for gi in reversed(range(len(ast["globals"]))):
        if ast["globals"][gi][0] not in refs:
            a = copy.deepcopy(ast); del a["globals"][gi]; yield a


def shrink(ast, still_fails, max_rounds=30, max_tests=400):
    """greedy AST delta debugging: keep a deletion whenever `still_fails(candidate)` holds"""
    tests = 0
    for _ in range(max_rounds):
        progress = False
        for cand in _candidates(ast):
            tests += 1
            if tests > max_tests:
                return ast
            try:
                if still_fails(cand):
                    ast, progress = cand, True
                    break
            except Exception:
                continue
        if not progress:
            break
    return ast


# ================================================================== list programs
# (an addition: nothing above calls it; gen_program's random stream is unchanged)
LIST_WEIGHTS = dict(
    n_lists=(2, 3), n_items=(2, 4), n_lvars=(2, 4), lv_empty=0.55, list_density=0.5, list_funcs=0.7,
    list_temps=0.25,
    # forms that make two variables / a variable and a program literal hold one empty list value: bare variable
    # on the right of a list assignment, `~ temp t = ()` declarations that can be executed twice in one frame,
    # functions returning a bare variable / literal.  (Before the repair abbdf69 the retained origin names were
    # written into that shared value: they showed through the other holders and survived reset_state.)
    list_alias=0.25,
    # (addition, default off: no random draw is consumed when it is 0) LIST_RANDOM of variables / LIST_ALL(..) among
    # the printed observations and the computed right-hand sides, {RANDOM(a, b)} beside printed lists and a rare
    # `~ SEED_RANDOM(n)`: the story's random counter (previousRandom: the raw 32-bit draw after LIST_RANDOM, +1 per
    # RANDOM, 0 after SEED_RANDOM) takes all its kinds of values
    list_random=0.0,
)


def listify(rng, ast, **weights):
    """Turn a generated program into a LIST program (in place; returns ast): several LIST declarations
    (items marked as initially selected, explicit values), list-typed globals initialised to `()`, to one item
    and to items of different LISTs, and list statements spread over every block: assignments of `()`, of items
    (of any LIST), of computed lists, `+=` / `-=`, printed {v} LIST_ALL LIST_INVERT LIST_COUNT LIST_MIN LIST_MAX
    LIST_VALUE LIST_RANGE, `?` / `!?`, list conditions, functions taking list parameters (by value and by `ref`),
    list temporaries.  Every random choice from `rng`; uses only the raw-text expression kind ["list", text]
    the printer already has.  ast["listinfo"] = {"lists": {name: [item..]}, "vars": [name..], "funcs": [..]}."""
    w = dict(LIST_WEIGHTS)
    w.update(weights)
    r = rng
    alias = w["list_alias"]
    lrnd = w.get("list_random", 0.0)
    lists, items = {}, []
    decl = []
    for li in range(r.randint(*w["n_lists"])):
        lname = "L" + "abcd"[li]
        its = ["%s%d" % ("abcd"[li], j) for j in range(r.randint(*w["n_items"]))]
        lists[lname] = its
        items += [(lname, x) for x in its]
        shown, val = [], 0
        for x in its:
            t = x
            if r.random() < 0.15:
                val += r.randint(2, 3)
                t = "%s = %d" % (x, val)
            else:
                val += 1
            shown.append("(" + t + ")" if r.random() < 0.3 else t)
        decl.append([lname, shown])
    ast["lists"] = ast.get("lists", []) + decl

    def item():
        ln, x = r.choice(items)
        return ln + "." + x if r.random() < 0.2 else x

    def lit(empty=0.35):
        x = r.random()
        if x < empty:
            return "()"
        if x < empty + (1 - empty) * 0.6:
            return item()
        return "(" + ", ".join(sorted(set(item() for _ in range(r.randint(2, 3))))) + ")"

    lvars = ["lv%d" % i for i in range(r.randint(*w["n_lvars"]))]
    for i, v in enumerate(lvars):
        ast["globals"].append([v, ["list", "()" if (i == 0 or r.random() < w["lv_empty"]) else lit(0.0)]])
    allvars = lvars + list(lists)

    funcs = []
    fknots = []
    if r.random() < w["list_funcs"]:
        fknots.append({"name": "lclr", "params": ["ref l"], "function": True, "stitches": [],
                       "body": [["assign", "l", ["list", "()"]]]})
        fknots.append({"name": "lall", "params": ["l"], "function": True, "stitches": [],
                       "body": [["return", ["list", "LIST_ALL(l)"]]]})
        fknots.append({"name": "ladd", "params": ["ref l", "x"], "function": True, "stitches": [],
                       "body": [["eval", ["list", "l += x"]]]})
        fknots.append({"name": "lpop", "params": ["ref l"], "function": True, "stitches": [],
                       "body": [["temp", "x", ["list", "LIST_MIN(l)"]], ["eval", ["list", "l -= x"]],
                                ["return", ["list", "x"]]]})
        funcs = ["lclr", "lall", "ladd", "lpop"]
        if r.random() < alias:
            fknots.append({"name": "lsame", "params": ["l"], "function": True, "stitches": [],
                           "body": [["return", ["list", "l"]]]})
            funcs.append("lsame")

    def computed(vs):
        v = r.choice(vs)
        if lrnd > 0 and r.random() < lrnd:
            return r.choice(["LIST_RANDOM(LIST_ALL(%s))", "LIST_RANDOM(%s)", "LIST_RANDOM(LIST_INVERT(%s))"]) % v
        k = r.randint(0, 8)
        if k == 0:
            return "LIST_ALL(%s)" % v
        if k == 1:
            return "LIST_INVERT(%s)" % v
        if k == 2:
            return "%s + %s" % (v, item())
        if k == 3:
            return "%s - %s" % (v, item())
        if k == 4:
            return "%s ^ %s" % (v, lit(0.1))
        if k == 5:
            return "%s + %s" % (v, r.choice(vs))
        if k == 6:
            return "%s - %s" % (v, r.choice(vs))
        if k == 7:
            return "LIST_RANGE(LIST_ALL(%s), %d, %d)" % (r.choice(list(lists)), r.randint(1, 2), r.randint(2, 4))
        return "%s - LIST_ALL(%s)" % (v, v)

    def observation(vs):
        v = r.choice(vs)
        if lrnd > 0 and r.random() < lrnd:
            return r.choice(["LIST_RANDOM(LIST_ALL(%s))", "LIST_RANDOM(%s)", "LIST_RANDOM(%s + " + item() + ")"]) % v
        k = r.randint(0, 11)
        if k <= 2:
            return "LIST_ALL(%s)" % v
        if k == 3:
            return "LIST_INVERT(%s)" % v
        if k == 4:
            return v
        if k == 5:
            return "LIST_COUNT(%s)" % v
        if k == 6:
            return "LIST_MIN(%s)" % v
        if k == 7:
            return "LIST_MAX(%s)" % v
        if k == 8:
            return "LIST_VALUE(%s)" % v
        if k == 9:
            return "%s %s %s" % (v, r.choice(["?", "!?"]), item())
        if k == 10 and "lall" in funcs:
            return "lall(%s)" % v
        return "LIST_COUNT(LIST_INVERT(%s))" % v

    tcount = [0]

    def show(vs):
        c = [["t", r.choice(["now", "could be", "holds", "left"]) + " "], ["e", ["list", observation(vs)]]]
        if r.random() < 0.4:
            c += [["t", " and "], ["e", ["list", observation(vs)]]]
        if r.random() < 0.25:
            c += [["t", " "], ["c", ["list", r.choice(vs)], [["t", "some"]], [["t", "none"]]]]
        if lrnd > 0 and r.random() < lrnd:
            c += [["t", " roll "], ["e", ["list", "RANDOM(1, %d)" % r.choice([6, 100, 1000000])]]]
        c.append(["t", "."])
        return ["line", c, [], None]

    def assign(vs, targets):
        v = r.choice(targets)
        k = r.random()
        if k < 0.45:
            return ["assign", v, ["list", lit()]]
        if k < 0.6:
            return ["eval", ["list", "%s %s %s" % (v, r.choice(["+=", "-="]), item())]]
        if k < 0.7:
            if funcs:
                f = r.choice(["lclr", "ladd", "lpop"])
                return ["eval", ["list", "%s(%s%s)" % (f, v, ", " + item() if f == "ladd" else "")]]
            return ["assign", v, ["list", "()"]]
        if k < 0.7 + 0.3 * alias:
            return ["assign", v, ["list", r.choice(vs) if r.random() < 0.7 or "lsame" not in funcs
                                  else "lsame(%s)" % r.choice(vs)]]
        return ["assign", v, ["list", computed(vs)]]

    def group():
        """one or more consecutive list statements"""
        out = []
        vs = list(allvars)
        if r.random() < w["list_temps"]:
            tcount[0] += 1
            t = "tl%d" % tcount[0]
            # (a declaration `~ temp t = ()` executed twice in one frame is an alias form: see list_alias)
            init = "()" if r.random() < alias else (lit(0.0) if r.random() < 0.5 else computed(vs))
            out.append(["temp", t, ["list", init]])
            if r.random() < 0.6:
                out.append(["assign", t, ["list", lit(0.7)]])
            out.append(show([t]))
            return out
        for _ in range(r.choice([1, 1, 2, 3])):
            out.append(assign(vs, vs) if r.random() < 0.6 else show(vs))
        if lrnd > 0 and r.random() < lrnd * 0.15:
            out.insert(r.randrange(len(out) + 1), ["eval", ["list", "SEED_RANDOM(%d)" % r.randint(0, 99)]])
        return out

    def blk(b, function=False):
        out = []
        for i, s in enumerate(b):
            prev = b[i - 1] if i else None
            ok = not (prev is not None and prev[0] == "gather" and prev[1] is None) \
                and not (prev is not None and prev[0] in ("divert", "return")) and s[0] != "gather"
            # (not directly before a gather: the statement would become part of the last choice's body)
            if ok and r.random() < w["list_density"]:
                out += group()
            if s[0] == "choices":
                for c in s[1]:
                    c["body"] = blk(c["body"])
            elif s[0] == "if":
                for br in s[1]:
                    br[1] = blk(br[1])
                if s[2]:
                    s[2] = blk(s[2])
            out.append(s)
        return out

    ast["top"] = blk(ast["top"])
    for k in ast["knots"]:
        if k["function"]:
            continue
        k["body"] = blk(k["body"])
        for s in k["stitches"]:
            s["body"] = blk(s["body"])
    ast["knots"] = ast["knots"] + fknots
    ast["listinfo"] = {"lists": lists, "vars": allvars, "funcs": funcs}
    return ast


if __name__ == "__main__":
    import sys
    seed = int(sys.argv[1]) if len(sys.argv) > 1 else 1
    frag = sys.argv[2] if len(sys.argv) > 2 else "full"
    src, ast = gen_program(random.Random(seed), fragment=frag)
    print(src)
    if "--coq" in sys.argv:
        print(ast_to_coq(ast))
