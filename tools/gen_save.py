"""gen_save.py — T-gen for the save format (C02): theories/Gen/SaveGen.v.

Read off the CURRENT sources of /repo:
  * `ssite`            one constructor per modelled unwrap site of the save / load code
                       (story_state.rs::load_json_obj, flow.rs::{from_json,write_json,
                       load_flow_choice_threads}, callstack.rs::{CallStack::load_json,
                       Thread::write_json}, variables_state.rs::load_json)
  * `ssite_panics`     ssite -> bool   "the panicking form is present in the source as it is NOW"
  * `ssite_name`       ssite -> string "file.rs:function:<line>:<id>"
  * switches that say what the format carries:
      choice_invisible_written / choice_invisible_read   (D10: `isInvisibleDefault` of a pending choice)
      list_origins_written                                (D11: `origins` of an empty list)
      list_equal_origins                                  (D11b: val_equal distinguishes empty lists by origin names)
      save_alias_current                                  (D12: snapshot copy inserts the current flow into named_flows)
      float_equal_bits                                    (val_equal compares floats bit for bit: -0.0 is not the default 0.0)
      nonfinite_substituted                               (inf / NaN are written as +-3.4e38 / 0.0 instead of `null`)
      function_start_saved                                (Element.function_start_in_output_stream is written as "fnStart")
  * constants INK_SAVE_STATE_VERSION, MIN_COMPATIBLE_LOAD_VERSION, DEFAULT_FLOW_NAME, the flow name
    the old-format branch assigns.

Every unwrap-like token of a modelled function must be owned by exactly one site or benign
pattern; anything else raises GenError, so a new unwrap or a reshaped function is noticed.
"""
import re
import vlib
from gen_tables import GenError, write_if_changed
from gen_load import _nows, _coq_str, UNWRAP_LIKE


def _body_after(src, marker, name):
    """(offset of body start in src, body) of the first `fn name` after `marker`"""
    base = src.find(marker) if marker else 0
    if base < 0:
        raise GenError(f"marker {marker!r} not found")
    m = re.compile(r"fn\s+" + re.escape(name) + r"\b[^{;]*\{").search(src, base)
    if not m:
        raise GenError(f"function {name} not found after {marker!r}")
    i, depth = m.end(), 1
    while i < len(src) and depth:
        if src[i] == "{":
            depth += 1
        elif src[i] == "}":
            depth -= 1
        i += 1
    return m.end(), src[m.end():i - 1]


# file -> list of (function key, marker, fn name)
FUNCS = {
    "runtime/src/story_state.rs": [("ss_write", "impl StoryState", "write_json"),
                                   ("ss_load", "impl StoryState", "load_json_obj")],
    "runtime/src/flow.rs": [("fl_from", "impl Flow", "from_json"),
                            ("fl_write", "impl Flow", "write_json"),
                            ("fl_ct", "impl Flow", "load_flow_choice_threads")],
    "runtime/src/callstack.rs": [("th_from", "impl Thread", "from_json"),
                                 ("th_write", "impl Thread", "write_json"),
                                 ("cs_write", "impl CallStack", "write_json"),
                                 ("cs_load", "impl CallStack", "load_json")],
    "runtime/src/variables_state.rs": [("vs_write", "impl VariablesState", "write_json"),
                                       ("vs_load", "impl VariablesState", "load_json")],
}

# (site id, function key, regex on whitespace-free function text, tokens owned)
SITES = [
    ("old_out_arr", "ss_load", r"output_stream_obj\.as_array\(\)\.unwrap\(\)", 1),
    ("old_choices_arr", "ss_load", r"current_choices_obj\.as_array\(\)\.unwrap\(\)", 1),
    ("old_choice_downcast", "ss_load", r"\.downcast::<Choice>\(\)\.unwrap\(\)", 1),
    ("eval_arr", "ss_load", r"eval_stack_obj\.as_array\(\)\.unwrap\(\)", 1),
    ("flow_out_arr", "fl_from", r'"outputStream"\)[^;]*?\.as_array\(\)\.unwrap\(\)', 1),
    ("flow_choices_arr", "fl_from", r'"currentChoices"\)[^;]*?\.as_array\(\)\.unwrap\(\)', 1),
    ("flow_choice_downcast", "fl_from", r"\.downcast::<Choice>\(\)\.unwrap\(\)", 1),
    ("flow_cs_obj", "fl_from", r'"callstack"\)[^;]*?\.as_object\(\)\.unwrap\(\)', 1),
    ("w_choice_thread", "fl_write", r"c\.get_thread_at_generation\(\)\.unwrap\(\)\.thread_index", 1),
    ("ct_missing", "fl_ct", r'\.ok_or\("loading choice threads"\)\.unwrap\(\)', 1),
    ("ct_obj", "fl_ct", r"j_saved_choice_thread\.as_object\(\)\.unwrap\(\)", 1),
    ("ct_thread_err", "fl_ct", r"Thread::from_json\([^;]*?\)\.unwrap\(\)", 1),
    ("w_prev_resolve", "th_write", r"previous_pointer\.resolve\(\)\.unwrap\(\)", 1),
    ("cs_threads_get", "cs_load", r'j_obj\.get\("threads"\)\.unwrap\(\)', 1),
    ("cs_threads_arr", "cs_load", r"j_threads\.as_array\(\)\.unwrap\(\)", 1),
    ("cs_thread_obj", "cs_load", r"j_thread_tok\.as_object\(\)\.unwrap\(\)", 1),
    ("cs_counter_get", "cs_load", r'j_obj\.get\("threadCounter"\)\.unwrap\(\)', 1),
    ("cs_counter_i64", "cs_load", r'"threadCounter"\)[^;]*?\.as_i64\(\)\.unwrap\(\)', 1),
    ("vars_downcast", "vs_load", r"\.downcast::<Value>\(\)\.unwrap\(\)", 1),
]

# unwrap-like tokens that cannot fail (guarded just above / only reached after the site above)
BENIGN = {
    "ss_write": [r"\.get_path\(\)\.unwrap\(\)"],                       # guarded by !is_null()
    "ss_load": [r"named_flows\.as_mut\(\)\.unwrap\(\)\.clear\(\)"],      # else-branch of is_none()
    "fl_write": [r"c\.get_thread_at_generation\(\)\.unwrap\(\)\.write_json"],   # same Option as the site
    "th_write": [r"container\.as_ref\(\)\.unwrap\(\)"],                 # guarded by !is_null()
}


def _present(src, fn, pat):
    return bool(re.search(pat, _nows(src)[0]))


def gen_save():
    flags, lines, fn_of, file_of = {}, {}, {}, {}
    for rel, fns in FUNCS.items():
        raw = vlib.repo_file(rel)
        src = re.sub(r"//[^\n]*", "", raw)
        short = rel.split("/")[-1]
        for key, marker, name in fns:
            start, body = _body_after(src, marker, name)
            ns, idx = _nows(body)
            n_tokens = len(UNWRAP_LIKE.findall(ns))
            owned = 0
            for pat in BENIGN.get(key, []):
                owned += len(re.findall(pat, ns))
            for sid, skey, pat, w in SITES:
                if skey != key:
                    continue
                ms = list(re.finditer(pat, ns))
                if len(ms) > 1:
                    raise GenError(f"{short}:{name}: site {sid} matches {len(ms)} times (function reshaped)")
                flags[sid] = bool(ms)
                fn_of[sid], file_of[sid] = name, short
                if ms:
                    owned += w
                    pos = start + idx[ms[0].end() - 1]
                    lines[sid] = src.count("\n", 0, pos) + 1
            if owned != n_tokens:
                raise GenError(f"{short}:{name}: {n_tokens} unwrap-like tokens but the site table accounts for "
                               f"{owned} — a panic site was added or reshaped; update tools/gen_save.py AND "
                               f"theories/Engine/Save.v")

    ss = re.sub(r"//[^\n]*", "", vlib.repo_file("runtime/src/story_state.rs"))
    jw = re.sub(r"//[^\n]*", "", vlib.repo_file("runtime/src/json/json_write.rs"))
    jr = re.sub(r"//[^\n]*", "", vlib.repo_file("runtime/src/json/json_read.rs"))
    vs = re.sub(r"//[^\n]*", "", vlib.repo_file("runtime/src/variables_state.rs"))
    il = re.sub(r"//[^\n]*", "", vlib.repo_file("runtime/src/ink_list.rs"))

    def const(name, pat=r"(\d+)"):
        m = re.search(r"\b" + name + r"\s*:\s*[\w&' ]+=\s*" + pat + r"\s*;", ss)
        if not m:
            raise GenError(f"story_state.rs: constant {name} not found")
        return m.group(1)

    save_ver = int(const("INK_SAVE_STATE_VERSION"))
    min_ver = int(const("MIN_COMPATIBLE_LOAD_VERSION"))
    default_flow = const("DEFAULT_FLOW_NAME", r'"([^"\\]*)"')
    _, load_body = _body_after(ss, "impl StoryState", "load_json_obj")
    m = re.search(r'current_flow\.name\s*=\s*"([^"\\]*)"', load_body)
    if not m:
        raise GenError("load_json_obj: old-format flow name assignment not found")
    old_flow_name = m.group(1)

    # --- what the format carries
    _, wc = _body_after(jw, "", "write_choice")
    for k in ["text", "index", "originalChoicePath", "originalThreadIndex", "targetPath", "tags"]:
        if f'"{k}"' not in wc:
            raise GenError(f"write_choice: key {k} no longer written")
    inv_w = '"isInvisibleDefault"' in wc
    if inv_w and not re.search(r"if\s+choice\.is_invisible_default\s*\{[^}]*\"isInvisibleDefault\"", wc, re.S):
        raise GenError("write_choice: isInvisibleDefault written in a form the model does not know "
                       "(expected: only when the flag is set)")
    _, rc = _body_after(jr, "", "jobject_to_choice")
    inv_r = '"isInvisibleDefault"' in rc
    _, wl = _body_after(jw, "", "write_ink_list")
    org_w = '"origins"' in wl
    if org_w and not (re.search(r"items\.is_empty\(\)", wl) and "get_origin_names()" in wl):
        raise GenError("write_ink_list: origins written in a form the model does not know "
                       "(expected: get_origin_names() of an empty list, when non-empty)")
    _, ve = _body_after(vs, "impl VariablesState", "val_equal")
    if not re.search(r"ValueType::List\(default_val\)\s*=>", ve):
        raise GenError("val_equal: List arm not found")
    m = re.search(r"ValueType::List\(default_val\)\s*=>\s*([^,]*),", ve)
    arm = re.sub(r"\s+", "", m.group(1))
    if arm == "*val==*default_val":
        leq = False
    elif "get_origin_names" in arm or "same_as_for_save" in arm:
        leq = True
    else:
        raise GenError(f"val_equal: List arm not recognised: {arm}")
    if leq and "same_as_for_save" in arm:
        _, sb = _body_after(il, "impl InkList", "same_as_for_save")
        if "get_origin_names" not in sb:
            raise GenError("InkList::same_as_for_save does not compare origin names")
    m = re.search(r"ValueType::Float\(default_val\)\s*=>\s*([^,]*),", ve)
    if not m:
        raise GenError("val_equal: Float arm not found")
    arm = re.sub(r"\s+", "", m.group(1))
    if arm == "*val==default_val":
        feq_bits = False
    elif arm == "val.to_bits()==default_val.to_bits()":
        feq_bits = True
    else:
        raise GenError(f"val_equal: Float arm not recognised: {arm}")
    _, wr = _body_after(jw, "", "write_rtobject")
    m = re.search(r"get_value::<f32>\(o\.as_ref\(\)\)\s*\{(.*?)return Ok\(json!\(v\)\);", wr, re.S)
    if not m:
        raise GenError("write_rtobject: f32 branch not found")
    fb = re.sub(r"\s+", "", m.group(1))
    if fb == "":
        nonfinite = False
    elif fb == "letv=ifv.is_nan(){0.0}elseifv==f32::INFINITY{3.4e38}elseifv==f32::NEG_INFINITY{-3.4e38}else{v};":
        nonfinite = True
    else:
        raise GenError(f"write_rtobject: f32 branch not recognised: {fb}")
    csrc = re.sub(r"//[^\n]*", "", vlib.repo_file("runtime/src/callstack.rs"))
    _, tw = _body_after(csrc, "impl Thread", "write_json")
    _, tr = _body_after(csrc, "impl Thread", "from_json")
    fs_w, fs_r = '"fnStart"' in tw, '"fnStart"' in tr
    if fs_w != fs_r:
        raise GenError("Thread::write_json / from_json disagree about the fnStart key")
    if fs_w:
        wn, rn = re.sub(r"\s+", "", tw), re.sub(r"\s+", "", tr)
        if ('ifel.function_start_in_output_stream!=0{el_map.insert("fnStart".to_owned(),json!(el.function_start_in_output_stream),);}'
                not in wn.replace('json!(el.function_start_in_output_stream));', 'json!(el.function_start_in_output_stream),);')):
            raise GenError("Thread::write_json: fnStart written in a form the model does not know")
        if wn.index('"type"') > wn.index('"fnStart"') or wn.index('"fnStart"') > wn.index('"temp"'):
            raise GenError("Thread::write_json: fnStart must be inserted between type and temp")
        if 'get("fnStart").and_then(|v|v.as_i64())' not in rn or "fn_startasi32" not in rn:
            raise GenError("Thread::from_json: fnStart read in a form the model does not know")
    _, cl = _body_after(csrc, "impl CallStack", "load_json")
    empty_thread = bool(re.search(r"if\s+thread\.callstack\.is_empty\(\)\s*\{\s*return\s+Err", tr))
    no_threads = bool(re.search(r"if\s+self\.threads\.is_empty\(\)\s*\{\s*return\s+Err", cl))
    if ("is_empty()" in tr) != empty_thread or ("is_empty()" in cl) != no_threads:
        raise GenError("callstack.rs: emptiness checks of the loader in a form the model does not know")
    if empty_thread and tr.index("thread.callstack.is_empty()") > tr.index("previousContentObject"):
        raise GenError("Thread::from_json: the emptiness check must come before previousContentObject")
    if no_threads and cl.index("self.threads.is_empty()") > cl.index("threadCounter"):
        raise GenError("CallStack::load_json: the emptiness check must come before threadCounter")
    _, cp = _body_after(ss, "impl StoryState", "copy_and_start_patching")
    if "named_flows" not in cp:
        raise GenError("copy_and_start_patching: named_flows handling not found")
    alias = bool(re.search(r"\.insert\(\s*copy\.current_flow\.name", cp))

    ids = [s[0] for s in SITES]
    b = lambda x: "true" if x else "false"
    o = ["(* GENERATED by tools/gen_save.py from runtime/src/{story_state,flow,callstack,variables_state}.rs,",
         "   json/{json_write,json_read}.rs — do not edit *)",
         "From Coq Require Import String ZArith.",
         "Local Open Scope string_scope.",
         "",
         "Inductive ssite :="]
    o += ["| S_" + i for i in ids]
    o[-1] += "."
    o += ["", "Definition all_ssites : list ssite := ("]
    o += ["  " + " :: ".join("S_" + i for i in ids[k:k + 5]) + " ::" for k in range(0, len(ids), 5)]
    o += ["  nil)%list.", "",
          "(* true = the unwrap at this site is present in the source as it is now *)",
          "Definition ssite_panics (s : ssite) : bool :=", "  match s with"]
    o += [f"  | S_{i} => {b(flags[i])}" for i in ids]
    o += ["  end.", "", "Definition ssite_name (s : ssite) : string :=", "  match s with"]
    for i in ids:
        loc = f"{file_of[i]}:{fn_of[i]}:{lines[i]}:{i}" if flags[i] else f"{file_of[i]}:{fn_of[i]}:{i}"
        o.append(f"  | S_{i} => {_coq_str(loc)}")
    o += ["  end.", "",
          f"Definition ink_save_state_version : Z := {save_ver}%Z.",
          f"Definition min_compatible_load_version : Z := {min_ver}%Z.",
          f"Definition default_flow_name : string := {_coq_str(default_flow)}.",
          f"Definition old_format_flow_name : string := {_coq_str(old_flow_name)}.", "",
          "(* what the format carries *)",
          f"Definition choice_invisible_written : bool := {b(inv_w)}.",
          f"Definition choice_invisible_read : bool := {b(inv_r)}.",
          f"Definition list_origins_written : bool := {b(org_w)}.",
          f"Definition list_equal_origins : bool := {b(leq)}.",
          f"Definition save_alias_current : bool := {b(alias)}.",
          f"Definition float_equal_bits : bool := {b(feq_bits)}.",
          f"Definition nonfinite_substituted : bool := {b(nonfinite)}.",
          f"Definition function_start_saved : bool := {b(fs_w)}.",
          f"Definition empty_thread_rejected : bool := {b(empty_thread)}.",
          f"Definition no_threads_rejected : bool := {b(no_threads)}.", ""]
    changed = write_if_changed("theories/Gen/SaveGen.v", "\n".join(o))
    facts = {"save.sites_on": sorted(i for i in ids if flags[i]),
             "save.sites_off": sorted(i for i in ids if not flags[i]),
             "save.versions": [min_ver, save_ver],
             "save.choice_invisible_written": inv_w, "save.choice_invisible_read": inv_r,
             "save.list_origins_written": org_w, "save.list_equal_origins": leq,
             "save.alias_current": alias, "save.float_equal_bits": feq_bits,
             "save.nonfinite_substituted": nonfinite, "save.function_start_saved": fs_w,
             "save.empty_thread_rejected": empty_thread, "save.no_threads_rejected": no_threads}
    return changed, facts
