#!/usr/bin/env python3
"""check.py <Cnn> [--tier quick|thorough] [--replay file]

Decides one property: hygiene gate, (re)generated tables, Coq build of the
property's theorems with Print-Assumptions gate, correspondence model<->code,
property-direct oracle on the implementation; writes evidence/<id>.json.

exit 0: held on everything explored (KNOWN-FINDING lines may be printed)
exit 1: `VIOLATION property=<id> replay=<path>[ no-failing-input-found]`
exit 2: the check itself is broken (hygiene gate, tooling failure)
"""
import argparse, importlib, json, os, random, sys, time, traceback

sys.path.insert(0, os.path.dirname(os.path.abspath(__file__)))
import vlib


class Ctx:
    def __init__(self, pid, tier, seed):
        self.pid, self.tier, self.seed = pid, tier, seed
        self.rng = random.Random(seed)
        self.violations = []      # dicts: what, replay(payload), key, no_input
        self.coverage = {}
        self.assumptions = []
        self.notes = []

    def quick(self):
        return self.tier == "quick"

    def violation(self, what, replay, key=None, no_input=False):
        """key: stable identifier of the failing class (matched against known_findings.json)."""
        self.violations.append(dict(what=what, replay=replay, key=key, no_input=no_input))

    def build(self, targets):
        """incremental build of model targets needed by coq_eval (not a proof obligation)"""
        ok, log = vlib.coq_make(targets)
        return ok, log

    def proof(self, propfile):
        """Build Props file + Print Assumptions gate.  Returns result dict; on failure records
        nothing — the caller must search for a failing input and call violation()."""
        r = vlib.check_props(propfile)
        self.coverage.setdefault("obligations", 0)
        self.coverage.setdefault("discharged", 0)
        self.coverage["obligations"] += max(r["obligations"], 1 if not r["ok"] else 0)
        self.coverage["discharged"] += r["discharged"] if r["ok"] else 0
        self.coverage.setdefault("theorems", {}).update({k: (v or "closed") for k, v in r["axioms"].items()})
        return r


def main():
    ap = argparse.ArgumentParser()
    ap.add_argument("pid")
    ap.add_argument("--tier", default=os.environ.get("VERIF_TIER", "quick"))
    ap.add_argument("--replay")
    a = ap.parse_args()
    seed = int(os.environ.get("VERIF_SEED", "20260923"))
    pid = a.pid.upper()
    t0 = time.time()

    bad = vlib.hygiene()
    if bad:
        print("CHECK-BROKEN hygiene gate:\n  " + "\n  ".join(bad[:20]))
        sys.exit(2)

    try:
        mod = importlib.import_module("props." + pid.lower())
    except ModuleNotFoundError as e:
        print("CHECK-BROKEN no module for", pid, e)
        sys.exit(2)
    ctx = Ctx(pid, a.tier, seed)
    try:
        if a.replay:
            mod.replay(ctx, json.load(open(a.replay)))
        else:
            mod.run(ctx)
    except Exception:
        traceback.print_exc()
        print("CHECK-BROKEN exception in check", pid)
        sys.exit(2)

    # thorough tier: the independent checker re-checks the property's compiled theorems and all they depend on
    if a.tier == "thorough" and not a.replay:
        try:
            mods = ["Ink.Props." + pid]
            if os.path.exists(os.path.join(vlib.VERIF, "theories", "Props", pid + "_spec.v")):
                mods.append("Ink.Props." + pid + "_spec")
            ck = vlib.coqchk(mods)
            ctx.coverage["coqchk"] = dict(modules=mods, ok=ck["ok"], axioms=ck["axioms"])
            if not ck["ok"]:
                ctx.violation("coqchk does not accept the compiled theorems: %s %s %s" % (
                    ck.get("outside_allow_list"), ck.get("unsafe"), ck["log"][-300:]),
                    dict(theorem_file="theories/Props/%s.v" % pid, coqchk=ck), no_input=True)
        except Exception:
            traceback.print_exc()

    # a table that could not be regenerated from the (reshaped) sources: the theorems that rest on it
    # are not re-established for the code as it is now
    try:
        import gen_tables
        concrete = any(not v.get("no_input") for v in ctx.violations)
        for n, msg in sorted(gen_tables.FAILED.items()):
            if not concrete:
                ctx.violation("table '%s' could not be regenerated from the current sources (%s): the theorems "
                              "resting on it are not re-established for this code" % (n, msg[:300]),
                              dict(generator=n, error=msg, theorem_file="theories/Props/%s.v" % pid), no_input=True)
            ctx.coverage.setdefault("tables_not_regenerated", []).append(n)
    except Exception:
        traceback.print_exc()

    kf = vlib.known_findings()
    known = {(k["property"], k["key"]): k for k in kf.get("known", [])}
    rc = 0
    seen_known = set()
    nviol = 0
    for v in ctx.violations:
        k = (pid, v.get("key"))
        if v.get("key") and k in known:
            if k not in seen_known:
                seen_known.add(k)
                print(f"KNOWN-FINDING: property={pid} {known[k]['what']}")
            continue
        nviol += 1
        path = vlib.write_replay(pid, dict(property=pid, what=v["what"], replay=v["replay"],
                                           seed=seed, tier=a.tier))
        tail = " no-failing-input-found" if v.get("no_input") else ""
        print(f"  {v['what']}")
        print(f"VIOLATION property={pid} replay={path}{tail}")
        rc = 1
        if nviol >= 5:
            break
    cov = ctx.coverage
    cov.setdefault("checker_cmd", f"python3 tools/check.py {pid} --tier {a.tier}")
    cov.setdefault("trusted_base", TRUSTED)
    level = getattr(mod, "LEVEL", "proof")
    if not cov.get("discharged"):
        # a broken proof: keep the numbers but let the evidence validate through the generic keys
        cov["obligations_attempted"] = cov.pop("obligations", 0)
        cov["discharged_count"] = cov.pop("discharged", 0)
        cov.setdefault("evaluations", 1)
        cov.setdefault("distinct_nontrivial", 2)
    cov.setdefault("samples", [f"theorems of theories/Props/{pid}.v"])
    vlib.write_evidence(pid, a.tier, seed, level, cov, time.time() - t0, nviol,
                        ctx.assumptions + getattr(mod, "ASSUMPTIONS", []))
    for n in ctx.notes:
        print("note:", n)
    print(f"{pid} {a.tier}: {'OK' if rc == 0 else 'VIOLATION'} in {time.time()-t0:.1f}s "
          f"obligations={cov.get('obligations')} discharged={cov.get('discharged')} "
          f"evaluations={cov.get('evaluations')}")
    sys.exit(rc)


TRUSTED = [
    "Coq 8.16.1 kernel (coqc, full .vo build; vm_compute used, native_compute not used)",
    "no axioms declared; Print Assumptions of every property theorem checked against the allow-list in tools/vlib.py",
    "hand-written Gallina model of /repo/runtime tied by correspondence runs (tools/props/*.py, harness/inkdrive) and regenerated tables (tools/gen_tables.py)",
    "translators: tools/vlib.py json2coq/text2coq, tools/gen_tables.py",
    "Rust harness /verif/harness (inkdrive) and hooks guarded by --cfg bladeink_verif",
]

if __name__ == "__main__":
    main()
