"""engine.py — correspondence between the Coq engine model (theories/Engine/Run.v) and the
implementation (harness/inkdrive) on the same cases.

A case is the dict accepted by inkdrive: {"id","story_file"|"story"|"ink","seed","fuel","script":[op..],
"explore":{"depth","max_paths"}}.  `compare(cases)` runs both sides and returns per-case results.
"""
import json, os, re, subprocess
import vlib

SWITCH_FIELDS = ["alias_current", "warnings_cleared", "observer_removal_checked", "remove_flow_checked", "ovf_panics",
                 "cont_check_first", "path_validated_first", "eval_args_first", "ext_guard_fixed",
                 "guard_setvar", "guard_remove_flow", "guard_switch_default", "guard_load", "counter_dec_first"]

UNSUPPORTED = {"SAVE", "LOAD", "LOADNEW", "LOADTEXT", "SHOWSAVE", "STACKINFO"}


def tq(s):
    return vlib.text2coq(s)


def value_term(j):
    """script value -> term of type sval"""
    if not isinstance(j, dict):
        return "SBad"
    if "i" in j and isinstance(j["i"], int):
        v = ((j["i"] + 2**31) % 2**32) - 2**31
        return f"(SV (VInt ({v})%Z))"
    if "f" in j and isinstance(j["f"], (int, float)):
        return f"(SV (VFloat {vlib.f32bits(float(j['f']))}%Z))"
    if "fbits" in j and isinstance(j["fbits"], int):
        return f"(SV (VFloat {j['fbits'] & 0xffffffff}%Z))"
    if "b" in j and isinstance(j["b"], bool):
        return f"(SV (VBool {'true' if j['b'] else 'false'}))"
    if "s" in j and isinstance(j["s"], str):
        return f"(SV (VString {tq(j['s'])}))"
    if "var" in j and isinstance(j["var"], str):
        return f"(SVar {tq(j['var'])})"
    return "SBad"


def args_term(a):
    if a is None:
        return "None"
    if not isinstance(a, list):
        return "None"
    return "(Some [" + ";".join(value_term(x) for x in a) + "])"


def b(x):
    return "true" if x else "false"


def op_term(op):
    n = op[0]
    g = lambda i, d=None: op[i] if len(op) > i else d
    s = lambda i: g(i, "") if isinstance(g(i, ""), str) else ""
    if n == "NEW":
        return "HNew"
    if n == "CONT":
        return "HCont"
    if n == "CONT_MAX":
        return "HContMax"
    if n == "CONT_ASYNC":
        sched = g(1, []) or []
        return "(HContAsync [" + ";".join(f"{int(x)}%N" for x in sched if isinstance(x, int) and x >= 0) + "])"
    if n == "FINISH":
        return "HFinish"
    if n == "CONT_SLICED":
        sched = g(1, []) or []
        return "(HContSliced [" + ";".join(f"{int(x)}%N" for x in sched if isinstance(x, int) and x >= 0) + "])"
    if n == "CHOOSE_END":
        k = g(1, 0)
        return f"(HChooseEnd {int(k) if isinstance(k, int) and k >= 0 else 0}%nat)"
    if n == "CHOOSE":
        i = g(1, 0)
        return f"(HChoose ({int(i) if isinstance(i, int) else 0})%Z)"
    if n == "PATH":
        reset = g(2, True)
        return f"(HPath {tq(s(1))} {b(reset if isinstance(reset, bool) else True)} {args_term(g(3))})"
    if n == "SWITCH":
        return f"(HSwitch {tq(s(1))})"
    if n == "SWITCH_DEFAULT":
        return "HSwitchDefault"
    if n == "REMOVE_FLOW":
        return f"(HRemoveFlow {tq(s(1))})"
    if n == "OBSERVE":
        return f"(HObserve {tq(s(1))} {tq(s(2))})"
    if n == "UNOBSERVE":
        v = g(2)
        return f"(HUnobserve {tq(s(1))} {'(Some ' + tq(v) + ')' if isinstance(v, str) else 'None'})"
    if n == "BIND":
        safe = g(2, True)
        r = g(3)
        if r == "echo":
            beh = "ExtEcho"
        else:
            vt = value_term(r) if isinstance(r, dict) else "SBad"
            m = re.match(r"\(SV (.*)\)$", vt)
            beh = f"(ExtReturn (Some {m.group(1)}))" if m else "(ExtReturn None)"
        return f"(HBind {tq(s(1))} {b(safe if isinstance(safe, bool) else True)} {beh})"
    if n == "UNBIND":
        return f"(HUnbind {tq(s(1))})"
    if n == "FALLBACKS":
        v = g(1, True)
        return f"(HFallbacks {b(v if isinstance(v, bool) else True)})"
    if n == "HANDLER":
        return "HHandler"
    if n == "SETVAR":
        return f"(HSetVar {tq(s(1))} {value_term(g(2))})"
    if n == "GETVAR":
        return f"(HGetVar {tq(s(1))})"
    if n == "VISITS":
        return f"(HVisits {tq(s(1))})"
    if n == "EVAL":
        return f"(HEval {tq(s(1))} {args_term(g(2))})"
    if n == "RESET":
        return "HReset"
    if n == "SEED":
        v = g(1, 0)
        return f"(HSeed ({int(v) if isinstance(v, int) else 0})%Z)"
    if n == "GLOBALTAGS":
        return "HGlobalTags"
    if n == "PATHSTR":
        return "HPathStr"
    if n == "STATUS":
        return "HStatus"
    return "HUnsupported"


def supported(case):
    return all(op and op[0] not in UNSUPPORTED for op in case.get("script", []))


def oracle_term(res):
    u = ";".join(f"(({k})%Z,{v}%Z)" for k, v in (res.get("rng_u32") or {}).items())
    i = ";".join(f"(({k})%Z,[" + ";".join(f"({x})%Z" for x in v) + "])" for k, v in (res.get("rng_i32") or {}).items())
    return f"(mkOracles [] [{u}] [{i}])"


def switches_term(sw):
    return "(mkSwitches " + " ".join(b(sw[f]) for f in SWITCH_FIELDS) + ")"


def current_switches():
    """facts about the code read by gen_tables (engine generator)"""
    import gen_tables
    facts = gen_tables.run(["engine"])
    return {f: facts["engine." + f] for f in SWITCH_FIELDS}


def f32_display(bits_list, exe):
    if not bits_list:
        return {}
    rc, o, e = vlib.sh([exe, "--f32show"] + ["%08x" % x for x in bits_list], timeout=60)
    out = {}
    for line in o.splitlines():
        k, _, v = line.partition(" ")
        out[k] = v
    return out


def fix_floats(lines, exe):
    """replace the model's ?float<hex8>? placeholders by the library Display (oracle)"""
    need = set()
    for l in lines:
        need.update(re.findall(r"\?float([0-9a-f]{8})\?", l))
    if not need:
        return lines
    tab = f32_display([int(x, 16) for x in need], exe)
    return [re.sub(r"\?float([0-9a-f]{8})\?", lambda m: tab.get(m.group(1), m.group(0)), l) for l in lines]


def model_expr(case, impl_res, story_json, sw):
    script = case.get("script", [])
    ops = "[" + ";".join(op_term(o) for o in script) + "]"
    ex = case.get("explore")
    exs = f"(Some ({int(ex.get('depth', 2))}%nat, {int(ex.get('max_paths', 50))}%nat))" if ex else "None"
    seed = int(case.get("seed", 42))
    fuel = int(case.get("fuel", 100000))
    return (f"join_with [10] (run_case {switches_term(sw)} {oracle_term(impl_res)} {vlib.json2coq(story_json)} "
            f"({seed})%Z {fuel}%N {ops} {exs})")


def impl_lines(case, res):
    """implementation transcript in the model's line format: '<res> | <summary>' for script
    lines, exploration lines verbatim"""
    out = []
    for l in res.get("lines", []):
        if l.startswith("PATH ") or l.startswith("  "):
            out.append(l)
        else:
            out.append(l.split(" => ", 1)[1] if " => " in l else l)
    return out


def canon_line(l):
    """canonicalise one transcript line: sort observer notifications (HashMap order)"""
    m = re.search(r"ev=\[(.*)\]$", l)
    if not m or not m.group(1):
        return l
    evs = m.group(1).split(";")
    # keep relative order of non-obs events; sort runs of obs events
    out, run = [], []
    for e in evs:
        if e.startswith("obs("):
            run.append(e)
        else:
            out.extend(sorted(run)); run = []; out.append(e)
    out.extend(sorted(run))
    return l[:m.start()] + "ev=[" + ";".join(out) + "]"


def obs_set(l):
    m = re.search(r"ev=\[(.*)\]$", l)
    if not m or not m.group(1):
        return [], l
    evs = m.group(1).split(";")
    obs = [e for e in evs if e.startswith("obs(")]
    rest = [e for e in evs if not e.startswith("obs(")]
    return obs, l[:m.start()] + "ev=[" + ";".join(rest) + "]"


def lines_agree(impl, model):
    """Observer notifications: the model reports the permitted set (every variable ASSIGNED during
    the continue); the implementation may omit those whose Rc was re-assigned unchanged
    (Rc::ptr_eq).  Everything else must be equal."""
    if impl == model:
        return True
    oi, ri = obs_set(impl)
    om, rm = obs_set(model)
    return ri == rm and set(oi) <= set(om)


def compare(cases, exe=None, sw=None, shard=40, want_model=True):
    """returns list of dicts: id, status in {agree, mismatch, skipped-fuel, skipped-unsupported,
    compile-error, model-error}, first differing line"""
    exe = exe or vlib.build_harness()
    sw = sw or current_switches()
    for c in cases:
        c.setdefault("want_json", True)
    impl = vlib.run_inkdrive(cases, exe)
    results, exprs, idx = [], [], []
    for c, r in zip(cases, impl):
        base = dict(id=c.get("id"), impl=r)
        if r.get("crash") is not None:
            results.append(dict(base, status="impl-crash")); continue
        if r.get("compile", "none") not in ("ok", "none"):
            results.append(dict(base, status="compile-error")); continue
        if r.get("out_of_fuel"):
            results.append(dict(base, status="skipped-fuel")); continue
        if not supported(c):
            results.append(dict(base, status="skipped-unsupported")); continue
        try:
            sj = json.loads(r.get("json") or (open(c["story_file"]).read() if "story_file" in c else c.get("story", "null")))
        except Exception:
            results.append(dict(base, status="skipped-badjson")); continue
        results.append(dict(base, status="pending"))
        if want_model:
            exprs.append(model_expr(c, r, sj, sw)); idx.append(len(results) - 1)
    if want_model and exprs:
        okb, logb = vlib.coq_make(["theories/Engine/Run.vo"])
        if not okb:
            for i in idx:
                results[i]["status"] = "model-error"; results[i]["error"] = "engine model does not build: " + logb[-1500:]
            return results
        pre = "From Ink.Engine Require Import Run.\nFrom Ink.Data Require Import Types.\n"
        try:
            outs = vlib.coq_eval_sharded(pre, exprs, shard=shard, name="eng")
        except RuntimeError as e:
            for i in idx:
                results[i]["status"] = "model-error"; results[i]["error"] = str(e)[-1500:]
            return results
        for i, o in zip(idx, outs):
            r = results[i]
            ml = fix_floats(o.split("\n"), exe)
            il = impl_lines(None, r["impl"])
            r["model_lines"], r["impl_lines"] = ml, il
            ok = len(ml) == len(il) and all(lines_agree(canon_line(a), canon_line(b_)) for a, b_ in zip(il, ml))
            if ok:
                r["status"] = "agree"
            else:
                r["status"] = "mismatch"
                for k, (a, b_) in enumerate(zip(il, ml)):
                    if not lines_agree(canon_line(a), canon_line(b_)):
                        r["first_diff"] = dict(line=k, impl=a, model=b_); break
                else:
                    r["first_diff"] = dict(line=min(len(il), len(ml)), impl=f"{len(il)} lines", model=f"{len(ml)} lines")
    return results
