"""mutate_ink.py — input streams for the compiler totality exploration (C06 (c)).

Every random choice comes from the `rng` passed in (check.py's ctx.rng).  Streams:
  byte   : UTF-8 byte flips / inserts / deletes (re-decoded with replacement)
  char   : character insert / delete / replace / swap / duplicate, alphabet = Ink punctuation + odd Unicode
  token  : token delete / duplicate / swap / replace with Ink vocabulary, repetition of a token
  line   : line delete / duplicate / swap / indent change, splice of lines from another corpus source
  soup   : random token soup over Ink's punctuation and keywords
  nest   : deep repetition of one opening token (stack depth), long lines
  gen    : small generated programs (weighted grammar) — gen_ink.py programs are added by the caller
"""
import re

PUNCT = ["->", "<-", "->->", "==", "===", "=", "*", "+", "-", "{", "}", "[", "]", "(", ")", "|", "&", "!",
         "~", "#", "<>", ":", ",", ".", "\"", "//", "/*", "*/", "\\", "^", "%", "/", "<", ">", "<=", ">=",
         "!=", "&&", "||", "++", "--", "+=", "-=", "?", "!?", "$", "@", "\t", " ", "\n", "\r\n", "- -", "* *",
         "{!", "{&", "{~", "{stopping:", "{shuffle:", "{cycle:", "{once:", "- else:", "->->\n", "-> DONE", "-> END"]
KEYWORDS = ["VAR", "CONST", "LIST", "EXTERNAL", "INCLUDE", "TODO:", "function", "return", "temp", "ref", "not",
            "and", "or", "mod", "has", "hasnt", "true", "false", "else", "DONE", "END", "TURNS_SINCE", "CHOICE_COUNT",
            "RANDOM", "SEED_RANDOM", "LIST_COUNT", "LIST_MIN", "LIST_MAX", "LIST_ALL", "LIST_INVERT", "LIST_RANGE",
            "LIST_RANDOM", "LIST_VALUE", "INT", "FLOAT", "FLOOR", "CEILING", "POW", "MIN", "MAX", "TURNS", "READ_COUNT",
            "stopping", "shuffle", "cycle", "once"]
IDENTS = ["x", "y", "k", "knot", "st", "f", "l", "a", "b", "g", "lab", "v", "n"]
LITERALS = ["0", "1", "-1", "2147483647", "-2147483648", "4294967296", "99999999999999999999", "1.5", "0.0", "1e9",
            ".5", "5.", "\"s\"", "\"", "\"a{x}b\"", "007", "0x10"]
ODD = ["é", "中", "\U0001F600", "​", " ", "﻿", " ", "\x00", "\x01", "\x7f", "\x0b", "\x0c",
       "́", "퟿", "", "\U0010ffff"]
VOCAB = PUNCT + KEYWORDS + IDENTS + LITERALS

TOKEN_RE = re.compile(r"[A-Za-z_][A-Za-z_0-9]*|\d+(?:\.\d+)?|->->|->|<-|===|==|<>|!=|<=|>=|&&|\|\||\+\+|--|\+=|-=|//|/\*|\*/|\s+|.", re.S)


def tokens(src):
    return TOKEN_RE.findall(src)


def mut_byte(rng, src):
    b = bytearray(src.encode("utf-8"))
    for _ in range(rng.choice([1, 1, 1, 2, 3, 8])):
        k = rng.random()
        i = rng.randrange(len(b) + 1)
        if k < 0.35 and b:
            i = min(i, len(b) - 1)
            b[i] ^= 1 << rng.randrange(8)
        elif k < 0.6:
            b.insert(i, rng.randrange(256))
        elif k < 0.8 and b:
            del b[min(i, len(b) - 1)]
        elif b:
            b[min(i, len(b) - 1)] = rng.choice([0, 9, 10, 13, 32, 34, 35, 40, 41, 42, 43, 45, 58, 60, 61, 62, 91, 92, 93, 123, 124, 125, 126, 127, 128, 255])
    return b.decode("utf-8", errors="replace")


def mut_char(rng, src):
    s = list(src)
    for _ in range(rng.choice([1, 1, 2, 3, 5])):
        k = rng.random()
        i = rng.randrange(len(s) + 1)
        alpha = rng.choice([PUNCT, PUNCT, ODD, IDENTS, LITERALS])
        if k < 0.35:
            s[i:i] = list(rng.choice(alpha))
        elif k < 0.55 and s:
            del s[min(i, len(s) - 1)]
        elif k < 0.75 and s:
            s[min(i, len(s) - 1):min(i, len(s) - 1) + 1] = list(rng.choice(alpha))
        elif k < 0.9 and len(s) > 1:
            i = min(i, len(s) - 2)
            s[i], s[i + 1] = s[i + 1], s[i]
        elif s:
            i = min(i, len(s) - 1)
            s[i:i] = [s[i]] * rng.choice([1, 2, 10])
    return "".join(s)


def mut_token(rng, src):
    t = tokens(src)
    if not t:
        return rng.choice(VOCAB)
    for _ in range(rng.choice([1, 1, 2, 3])):
        k = rng.random()
        i = rng.randrange(len(t))
        if k < 0.25:
            del t[i]
        elif k < 0.45:
            t.insert(i, t[i])
        elif k < 0.6 and len(t) > 1:
            j = rng.randrange(len(t))
            t[i], t[j] = t[j], t[i]
        elif k < 0.85:
            t[i] = rng.choice(VOCAB)
        elif k < 0.95:
            t.insert(i, rng.choice(VOCAB))
        else:
            t[i] = t[i] * rng.choice([2, 16, 200])
        if not t:
            break
    return "".join(t)


def mut_line(rng, src, others):
    l = src.split("\n")
    for _ in range(rng.choice([1, 1, 2, 3])):
        k = rng.random()
        i = rng.randrange(len(l))
        if k < 0.2 and len(l) > 1:
            del l[i]
        elif k < 0.35:
            l.insert(i, l[i])
        elif k < 0.5 and len(l) > 1:
            j = rng.randrange(len(l))
            l[i], l[j] = l[j], l[i]
        elif k < 0.6:
            l[i] = rng.choice(["  ", "\t", "- ", "* ", "+ ", "    ", "~ ", "-> "]) + l[i]
        elif k < 0.7:
            l[i] = l[i].lstrip(" \t-*+")
        else:
            o = rng.choice(others).split("\n")
            a = rng.randrange(len(o))
            n = rng.choice([1, 1, 2, 4, 10])
            l[i:i] = o[a:a + n]
    return "\n".join(l)


def soup(rng):
    n = rng.choice([1, 2, 3, 5, 8, 13, 30, 80])
    out = []
    for _ in range(n):
        r = rng.random()
        if r < 0.55:
            out.append(rng.choice(PUNCT))
        elif r < 0.75:
            out.append(rng.choice(KEYWORDS))
        elif r < 0.87:
            out.append(rng.choice(IDENTS))
        elif r < 0.95:
            out.append(rng.choice(LITERALS))
        else:
            out.append(rng.choice(ODD))
        if rng.random() < 0.5:
            out.append(rng.choice([" ", " ", "\n", "\n", "\t", ""]))
    return "".join(out)


def nest(rng):
    """depth / length stress: the recursive-descent parts of the parser and emitter"""
    n = rng.choice([50, 200, 1000, 5000, 20000])
    k = rng.randrange(12)
    if k == 0:
        return "{" * n + "x" + "}" * rng.choice([0, n])
    if k == 1:
        return "~ x = " + "(" * n + "1" + ")" * rng.choice([0, n]) + "\n"
    if k == 2:
        return "VAR x = 0\n~ x = " + "-" * n + "1\n"
    if k == 3:
        return "VAR x = 0\n~ x = " + "!" * n + "x\n"
    if k == 4:
        return "".join("- " * i + "g\n" for i in range(1, min(n, 400)))
    if k == 5:
        return "".join("* " * i + "c\n" for i in range(1, min(n, 400)))
    if k == 6:
        return "{" + "a|" * n + "b}\n"
    if k == 7:
        return "VAR x = 0\n~ x = 1" + " + 1" * n + "\n"
    if k == 8:
        return "x" * (n * 50) + "\n"
    if k == 9:
        return "{x:" * min(n, 500) + "y" + "}" * rng.choice([0, min(n, 500)]) + "\n"
    if k == 10:
        return "=== k ===\n" + "-> k\n" * n
    return "\n" * n + "->"


def gen_program(rng):
    """small mostly-valid programs (own generator; independent of gen_ink.py)"""
    knots = ["k%d" % i for i in range(rng.choice([1, 2, 3]))]
    vars_ = ["v%d" % i for i in range(rng.choice([0, 1, 2, 3]))]
    lists = rng.random() < 0.35
    out = []
    for v in vars_:
        init = rng.choice(['0', '1', '5', 'true', '"s"', '2.5', '-> ' + knots[0]])
        out.append(f"VAR {v} = {init}")
    if lists:
        out.append("LIST L = a, (b), c")
        out.append("VAR lv = " + rng.choice(["(a)", "(a, b)", "()", "L.a", "a", "(L.b)"]))
    if rng.random() < 0.3:
        out.append("=== function f(p) ===\n~ return p + 1")

    def expr(d=0):
        r = rng.random()
        if d > 2 or r < 0.3:
            c = ["1", "2", "0", "true"] + vars_ + knots
            if lists:
                c += ["lv", "L.a", "a", "L", "(a, c)", "LIST_COUNT(lv)", "L.b"]
            return rng.choice(c)
        if r < 0.8:
            op = rng.choice(['+', '-', '*', '/', '%', '==', '!=', '<', '>', '&&', '||', 'has', 'hasnt', '^', 'mod', 'and', 'or'])
            return f"{expr(d + 1)} {op} {expr(d + 1)}"
        if r < 0.9:
            return f"({expr(d + 1)})"
        return rng.choice(["not ", "-", "!"]) + expr(d + 1)

    def target():
        return rng.choice(knots + ["END", "DONE"] + (["nowhere"] if rng.random() < 0.05 else []))

    def body(depth):
        lines = []
        for _ in range(rng.choice([1, 2, 3, 5])):
            r = rng.random()
            if r < 0.3:
                lines.append(rng.choice(["Some text.", "Text {" + expr() + "} more.", "{&a|b|c}", "{!once}", "{~s|t}",
                                         "A <> glued", "tagged # tag", "{" + expr() + ": yes|no}"]))
            elif r < 0.45 and vars_:
                lines.append(f"~ {rng.choice(vars_)} {rng.choice(['=', '+=', '-='])} {expr()}")
            elif r < 0.5:
                lines.append(f"~ temp t{depth} = {expr()}")
            elif r < 0.7 and depth < 3:
                n = rng.choice([1, 2, 3])
                for i in range(n):
                    mark = rng.choice(["*", "+"]) * depth if depth else rng.choice(["*", "+"])
                    lab = f"(c{depth}{i}) " if rng.random() < 0.2 else ""
                    cond = "{" + expr() + "} " if rng.random() < 0.2 else ""
                    lines.append(f"{mark or '*'} {lab}{cond}pick{i} [br] tail" + (f" -> {target()}" if rng.random() < 0.4 else ""))
                    if rng.random() < 0.5:
                        lines.extend("  " + x for x in body(depth + 1))
                lines.append("-" * max(1, depth) + " gather")
            elif r < 0.8:
                lines.append(f"-> {target()}")
            elif r < 0.85:
                lines.append("{\n - " + expr() + ": A\n - else: B\n}")
            elif r < 0.9 and len(knots) > 1:
                lines.append(f"-> {rng.choice(knots)} ->")
            elif r < 0.93:
                lines.append(f"<- {rng.choice(knots)}")
            elif r < 0.96:
                lines.append("{f(1)}")
            else:
                lines.append(f"{{{rng.choice(knots)}}} {{TURNS_SINCE(-> {rng.choice(knots)})}}")
        return lines

    out.extend(body(1))
    out.append(f"-> {knots[0]}")
    for k in knots:
        out.append(f"=== {k} ===")
        out.extend(body(1))
        out.append(rng.choice(["-> END", "-> DONE", "->->", f"-> {target()}"]))
    return "\n".join(out) + "\n"


STREAMS = ["byte", "char", "token", "line", "soup", "nest", "gen", "genmut"]
WEIGHTS = [14, 18, 22, 16, 12, 2, 8, 8]


def one(rng, sources, stream=None):
    """-> (stream name, source text)"""
    s = stream or rng.choices(STREAMS, WEIGHTS)[0]
    if s == "soup":
        return s, soup(rng)
    if s == "nest":
        return s, nest(rng)
    if s == "gen":
        return s, gen_program(rng)
    if s == "genmut":
        base = gen_program(rng)
        return s, rng.choice([mut_char, mut_token])(rng, base)
    base = rng.choice(sources)
    if len(base) > 6000:       # keep the big ones (The Intercept) affordable: mutate a window of lines
        l = base.split("\n")
        a = rng.randrange(len(l))
        base = "\n".join(l[a:a + rng.choice([5, 20, 80])])
    if s == "byte":
        return s, mut_byte(rng, base)
    if s == "char":
        return s, mut_char(rng, base)
    if s == "token":
        return s, mut_token(rng, base)
    return s, mut_line(rng, base, sources)
