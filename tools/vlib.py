"""vlib — shared machinery for the /verif checks.

  * Coq side: incremental `make` of the development, hygiene gate,
    Print-Assumptions parsing, evaluation of model expressions with vm_compute
    (`coq_eval`), JSON -> Gallina term translation (`json2coq`).
  * Rust side: build the harness against /repo's *current working tree*
    (cfg bladeink_verif), run `inkdrive` on case lists.
  * evidence writer.
"""
import hashlib, json, os, re, struct, subprocess, sys, time, random, shutil

VERIF = os.path.dirname(os.path.dirname(os.path.abspath(__file__)))
REPO = os.environ.get("VERIF_REPO", "/repo")   # a scratch worktree may be substituted for experiments
BUILD = os.path.join(VERIF, "build")
TARGET = os.path.join(BUILD, "target")
SCRATCH = os.path.join(BUILD, "scratch")
NPROC = os.cpu_count() or 4

ALLOWED_AXIOMS = {
    # standard-library axioms reachable through Flocq's real-number development
    "ClassicalDedekindReals.sig_forall_dec",
    "ClassicalDedekindReals.sig_not_dec",
    "FunctionalExtensionality.functional_extensionality_dep",
    "Classical_Prop.classic",
}


def sh(cmd, cwd=None, env=None, timeout=None, input=None):
    e = dict(os.environ)
    if env:
        e.update(env)
    p = subprocess.run(cmd, cwd=cwd, env=e, shell=isinstance(cmd, str), capture_output=True,
                       text=True, timeout=timeout, input=input)
    return p.returncode, p.stdout, p.stderr


# ---------------------------------------------------------------- Coq side
def hygiene():
    """Fail the check (not the property) if the development cheats."""
    bad = []
    pat = re.compile(r"\b(Admitted|admit|Axiom|Axioms|Parameter|Parameters|Conjecture|Unset\s+Guard|"
                     r"bypass_check|Admit\s+Obligations|type-in-type|impredicative-set)\b")
    for root, _, files in os.walk(os.path.join(VERIF, "theories")):
        for f in files:
            if not f.endswith(".v"):
                continue
            p = os.path.join(root, f)
            depth = 0
            txt = open(p, encoding="utf-8").read()
            # strip comments (nested)
            out, i, lvl = [], 0, 0
            while i < len(txt):
                if txt.startswith("(*", i):
                    lvl += 1; i += 2; continue
                if txt.startswith("*)", i) and lvl > 0:
                    lvl -= 1; i += 2; continue
                if lvl == 0:
                    out.append(txt[i])
                elif txt[i] == "\n":
                    out.append("\n")
                i += 1
            code = "".join(out)
            for n, line in enumerate(code.split("\n"), 1):
                if pat.search(line):
                    bad.append(f"{p}:{n}: {line.strip()}")
                if re.match(r"\s*Section\b", line):
                    depth += 1
                if re.match(r"\s*End\b", line) and depth > 0:
                    depth -= 1
                if depth == 0 and re.match(r"\s*(Variable|Variables|Hypothesis|Hypotheses|Context)\b", line):
                    bad.append(f"{p}:{n}: {line.strip()} (outside section)")
    proj = open(os.path.join(VERIF, "_CoqProject")).read()
    if "type-in-type" in proj or "impredicative-set" in proj:
        bad.append("_CoqProject: forbidden flag")
    return bad


COQPROJECT_HEAD = """-Q theories Ink
-arg -w -arg -notation-overridden,-deprecated-hint-without-locality,-deprecated-instance-without-locality,-ambiguous-paths
"""


def refresh_coqproject():
    """_CoqProject lists every theories/**/*.v (sorted); Makefile.coq is regenerated only when
    that list changes, so concurrent builds do not trample each other."""
    files = []
    for root, _, fs in os.walk(os.path.join(VERIF, "theories")):
        for f in fs:
            if f.endswith(".v") and not f.startswith("."):
                files.append(os.path.relpath(os.path.join(root, f), VERIF))
    content = COQPROJECT_HEAD + "\n".join(sorted(files)) + "\n"
    p = os.path.join(VERIF, "_CoqProject")
    old = open(p).read() if os.path.exists(p) else None
    if old != content or not os.path.exists(os.path.join(VERIF, "Makefile.coq")):
        tmp = p + ".tmp%d" % os.getpid()
        with open(tmp, "w") as f:
            f.write(content)
        os.replace(tmp, p)
        rc, o, e = sh(["coq_makefile", "-f", "_CoqProject", "-o", "Makefile.coq"], cwd=VERIF)
        if rc != 0:
            raise RuntimeError("coq_makefile failed: " + o + e)


def coq_make(targets=None, timeout=1500):
    """Full .vo build (never -vos).  Returns (ok, log).  With targets, only those .vo files and
    their dependencies are (re)built."""
    refresh_coqproject()
    cmd = ["make", "-f", "Makefile.coq", f"-j{NPROC}"]
    if targets:
        cmd += targets
    try:
        rc, o, e = sh(cmd, cwd=VERIF, timeout=timeout)
    except subprocess.TimeoutExpired:
        return False, "coq build timed out"
    return rc == 0, o + e


def print_assumptions(vo_source):
    """Re-compile one Props file capturing its output; returns {theorem: [axioms]}.
    The file prints `Print Assumptions thm.` under every theorem."""
    rel = os.path.relpath(vo_source, VERIF)
    vo = os.path.join(VERIF, rel[:-2] + ".vo")
    for ext in (".vo", ".glob", ".vos", ".vok"):
        try:
            os.remove(os.path.join(VERIF, rel[:-2] + ext))
        except FileNotFoundError:
            pass
    ok, log = coq_make([rel[:-2] + ".vo"])
    res = {}
    if not ok:
        return None, log
    # coqc output: for each Print Assumptions either "Closed under the global context"
    # or "Axioms:\n name : type ..."
    src = open(os.path.join(VERIF, rel)).read()
    names = re.findall(r"Print Assumptions\s+([A-Za-z0-9_'.]+)\s*\.", src)
    chunks = re.split(r"(?=Closed under the global context|Axioms:)", log)
    chunks = [c for c in chunks if c.startswith("Closed under") or c.startswith("Axioms:")]
    for i, n in enumerate(names):
        if i >= len(chunks):
            res[n] = ["<no output>"]
            continue
        c = chunks[i]
        if c.startswith("Closed under"):
            res[n] = []
        else:
            ax = [a for a in re.findall(r"^([A-Za-z_][A-Za-z0-9_'.]*)\s*:", c, re.M)
                  if a != "Axioms" and a not in names]
            # names printed on their own line (type wrapped onto the next line)
            ax += [a for a in re.findall(r"^([A-Za-z_][A-Za-z0-9_'.]*)\s*\n\s+:", c, re.M)
                   if a not in names and a not in ax]
            res[n] = ax
    return res, log


def check_props(propfile, theorems=None):
    """Build a Props file, check every `Print Assumptions` against the allow-list.
    Returns dict(ok, obligations, discharged, axioms, log, failed)."""
    t0 = time.time()
    res, log = print_assumptions(os.path.join(VERIF, propfile))
    if res is None:
        m = re.search(r'File "([^"]+)", line (\d+).*?\n(Error:.*?)(?:\n\n|\Z)', log, re.S)
        failed = m.group(0)[:2000] if m else log[-2000:]
        return dict(ok=False, obligations=0, discharged=0, axioms={}, log=log, failed=failed,
                    wall=time.time() - t0)
    badax = {n: [a for a in ax if a not in ALLOWED_AXIOMS] for n, ax in res.items()}
    badax = {n: a for n, a in badax.items() if a}
    return dict(ok=not badax, obligations=len(res), discharged=len(res) - len(badax), axioms=res,
                log=log, failed=("axioms outside allow-list: %r" % badax) if badax else "",
                wall=time.time() - t0)


def coqchk(modules, timeout=3000):
    """Re-check compiled Props modules (and everything they depend on) with the independent checker.
    Returns dict(ok, axioms, log).  Axioms are those of every loaded library (Flocq's classical reals)."""
    cmd = ["coqchk", "-o", "-silent", "-Q", os.path.join(VERIF, "theories"), "Ink"] + list(modules)
    try:
        rc, o, e = sh(cmd, cwd=VERIF, timeout=timeout)
    except subprocess.TimeoutExpired:
        return dict(ok=False, axioms=[], log="coqchk timed out")
    out = o + e
    m = re.search(r"\* Axioms:(.*?)\* Constants/Inductives relying on type-in-type", out, re.S)
    ax = [a for a in (m.group(1).split() if m else []) if a != "<none>"]
    bad = [a for a in ax if not any(a == b or a.endswith("." + b) for b in ALLOWED_AXIOMS)]
    other = []
    for label in ("relying on type-in-type", "relying on unsafe (co)fixpoints", "whose positivity is assumed"):
        mm = re.search(re.escape(label) + r":(.*?)(?:\n\s*\n|\Z)", out, re.S)
        if mm and "<none>" not in mm.group(1):
            other.append(label + ":" + " ".join(mm.group(1).split())[:200])
    return dict(ok=(rc == 0 and not bad and not other and m is not None), axioms=ax, outside_allow_list=bad,
                unsafe=other, log=out[-1500:])


def text2coq(s):
    return "[" + ";".join(str(ord(c)) for c in s) + "]%N"


def f32bits(x):
    return struct.unpack("<I", struct.pack("<f", x))[0]


def json2coq(j):
    """JSON value -> Gallina term of type Types.json (translator; trusted, ~20 lines)."""
    if j is None:
        return "JNull"
    if j is True:
        return "(JBool true)"
    if j is False:
        return "(JBool false)"
    if isinstance(j, int):
        return f"(JInt ({j})%Z)"
    if isinstance(j, float):
        try:
            b = f32bits(j)
        except OverflowError:
            b = 0x7F800000 if j > 0 else 0xFF800000
        return f"(JFloat {b}%Z)"
    if isinstance(j, str):
        return f"(JStr {text2coq(j)})"
    if isinstance(j, list):
        return "(JArr [" + ";".join(json2coq(x) for x in j) + "])"
    if isinstance(j, dict):
        return "(JObj [" + ";".join(f"({text2coq(k)},{json2coq(v)})" for k, v in j.items()) + "])"
    raise TypeError(type(j))


def decode_nlist(s):
    nums = re.findall(r"\d+", s.replace("%N", ""))
    return "".join(chr(int(n)) for n in nums)


def coq_eval(preamble, exprs, name="cases", timeout=600, raw=False):
    """Evaluate each expr (of type text = list N, unless raw) with vm_compute in one coqc run.
    preamble: Gallina source placed before the evals (Require lines, definitions).
    Returns list of decoded strings (or raw printed terms)."""
    os.makedirs(SCRATCH, exist_ok=True)
    # unique per call: several checks (and workers) evaluate concurrently
    name = re.sub(r"[^A-Za-z0-9_]", "_", name) + "_%d_%08x" % (os.getpid(), random.getrandbits(32))
    path = os.path.join(SCRATCH, name + ".v")
    with open(path, "w") as f:
        f.write("Set Printing Width 1000000.\nSet Printing Depth 10000000.\n")
        f.write(preamble + "\n")
        for i, e in enumerate(exprs):
            f.write(f"Definition case_{i} := {e}.\n")
            f.write(f"Eval vm_compute in (777777%N, case_{i}).\n")
    # large story terms (The Intercept) overflow the default 8 MB stack of coqc's parser / vm_compute
    rc, o, e = sh(["sh", "-c", "ulimit -s unlimited 2>/dev/null || ulimit -s 1000000 2>/dev/null; exec \"$@\"", "coqc",
                   "coqc", "-noglob", "-Q", os.path.join(VERIF, "theories"), "Ink", path],
                  cwd=SCRATCH, timeout=timeout)
    for ext in (".v", ".vo", ".vok", ".vos", ".glob"):
        try:
            if rc == 0 or ext != ".v":
                os.remove(os.path.join(SCRATCH, name + ext))
        except FileNotFoundError:
            pass
    try:
        os.remove(os.path.join(SCRATCH, "." + name + ".aux"))
    except FileNotFoundError:
        pass
    if rc != 0:
        raise RuntimeError("coq_eval failed: " + (e or o)[-3000:])
    parts = re.split(r"=\s*\(777777(?:%N)?,", o)[1:]
    outs = []
    for p in parts:
        m = re.search(r"\)\s*\n\s*:\s", p)
        body = p[:m.start()] if m else p
        outs.append(body.strip() if raw else decode_nlist(body))
    if len(outs) != len(exprs):
        raise RuntimeError(f"coq_eval: expected {len(exprs)} results, got {len(outs)}\n{o[-2000:]}")
    return outs


def coq_eval_sharded(preamble, exprs, shard=200, name="cases", timeout=900):
    """coq_eval over shards run in parallel."""
    from concurrent.futures import ThreadPoolExecutor
    chunks = [exprs[i:i + shard] for i in range(0, len(exprs), shard)]
    with ThreadPoolExecutor(max_workers=NPROC) as ex:
        futs = [ex.submit(coq_eval, preamble, c, f"{name}_{i}", timeout) for i, c in enumerate(chunks)]
        out = []
        for f in futs:
            out.extend(f.result())
    return out


# ---------------------------------------------------------------- Rust side
def harness_env():
    return {"CARGO_TARGET_DIR": TARGET, "RUSTFLAGS": "--cfg bladeink_verif",
            "CARGO_NET_OFFLINE": "true"}


def _repo_tag():
    return "" if REPO == "/repo" else "_" + hashlib.sha1(REPO.encode()).hexdigest()[:8]


def harness_dir():
    """The harness crate has path dependencies on the repository; for a substituted repository a
    copy with rewritten paths is kept under build/."""
    src = os.path.join(VERIF, "harness")
    if REPO == "/repo":
        return src
    dst = os.path.join(BUILD, "harness" + _repo_tag())
    os.makedirs(os.path.join(dst, "src", "bin"), exist_ok=True)
    os.makedirs(os.path.join(dst, ".cargo"), exist_ok=True)
    for rel in ["Cargo.toml", ".cargo/config.toml"] + [os.path.join("src", "bin", f) for f in os.listdir(os.path.join(src, "src", "bin"))]:
        txt = open(os.path.join(src, rel)).read()
        if rel == "Cargo.toml":
            txt = txt.replace('"/repo/', '"' + REPO.rstrip("/") + "/")
        old = open(os.path.join(dst, rel)).read() if os.path.exists(os.path.join(dst, rel)) else None
        if old != txt:
            with open(os.path.join(dst, rel), "w") as f:
                f.write(txt)
    return dst


def build_harness(features=(), release=False, timeout=900, binname="inkdrive"):
    """(Re)build the harness against the repository's working tree.  Returns path of the binary."""
    hd = harness_dir()
    lock = os.path.join(REPO, "Cargo.lock")
    if not os.path.exists(lock):            # Cargo.lock is git-ignored: a worktree has none
        lock = "/repo/Cargo.lock"
    shutil.copyfile(lock, os.path.join(hd, "Cargo.lock"))
    if REPO != "/repo" and not os.path.exists(os.path.join(REPO, "Cargo.lock")):
        shutil.copyfile(lock, os.path.join(REPO, "Cargo.lock"))
    env = harness_env()
    tdir = TARGET + _repo_tag() + ("_" + "_".join(features) if features else "")
    env["CARGO_TARGET_DIR"] = tdir
    cmd = ["cargo", "build", "--offline", "--bins"]
    if release:
        cmd.append("--release")
    if features:
        cmd += ["--features", ",".join(features)]
    rc, o, e = sh(cmd, cwd=hd, env=env, timeout=timeout)
    if rc != 0:
        raise RuntimeError("harness build failed:\n" + e[-4000:])
    return os.path.join(tdir, "release" if release else "debug", binname)


def build_repo_bin(package, binname, release=False, timeout=900):
    """Build a binary of /repo itself (e.g. rinklecate) into our target dir."""
    env = harness_env()
    env["CARGO_TARGET_DIR"] = TARGET + _repo_tag() + "_repo"
    env["RUSTFLAGS"] = ""
    cmd = ["cargo", "build", "--offline", "-p", package, "--bin", binname]
    if release:
        cmd.append("--release")
    rc, o, e = sh(cmd, cwd=REPO, env=env, timeout=timeout)
    if rc != 0:
        raise RuntimeError("repo build failed:\n" + e[-4000:])
    return os.path.join(env["CARGO_TARGET_DIR"], "release" if release else "debug", binname)


def run_inkdrive(cases, exe=None, timeout=600, shards=None, extra_args=()):
    """Run cases (list of dicts) through inkdrive, sharded over processes.
    A shard whose process dies (abort / stack overflow) is re-run case by case so the
    culprit is identified; its result is {"id":..,"crash":rc}."""
    from concurrent.futures import ThreadPoolExecutor
    exe = exe or build_harness()
    os.makedirs(SCRATCH, exist_ok=True)
    shards = shards or min(NPROC, max(1, len(cases) // 20 + 1))
    chunks = [cases[i::shards] for i in range(shards)]
    tag = "%08x" % random.getrandbits(32)

    def run_chunk(k, chunk):
        if not chunk:
            return []
        p = os.path.join(SCRATCH, f"cases_{tag}_{k}.jsonl")
        with open(p, "w") as f:
            for c in chunk:
                f.write(json.dumps(c) + "\n")
        try:
            rc, o, e = sh([exe, *extra_args, p], timeout=timeout)
        except subprocess.TimeoutExpired:
            rc, o = -9, ""
        os.remove(p)
        res = []
        for line in o.split("\n"):
            try:
                res.append(json.loads(line))
            except json.JSONDecodeError:
                pass
        if rc != 0 or len(res) != len(chunk):
            if len(chunk) == 1:
                return [{"id": chunk[0].get("id"), "crash": rc, "lines": [], "load": "crash",
                         "compile": "crash"}]
            out = []
            for c in chunk:
                out.extend(run_chunk(f"{k}_{len(out)}", [c]))
            return out
        return res

    with ThreadPoolExecutor(max_workers=shards) as ex:
        futs = [ex.submit(run_chunk, k, ch) for k, ch in enumerate(chunks)]
        parts = [f.result() for f in futs]
    byid = {}
    for part in parts:
        for r in part:
            byid[r.get("id")] = r
    return [byid.get(c.get("id"), {"id": c.get("id"), "crash": "missing", "lines": []}) for c in cases]


# ---------------------------------------------------------------- evidence
def write_evidence(pid, tier, seed, level, coverage, wall, violations=0, assumptions=None):
    os.makedirs(os.path.join(VERIF, "evidence"), exist_ok=True)
    ev = {"property_id": pid, "tier": tier, "seed": int(seed), "level": level, "coverage": coverage,
          "assumptions": assumptions or [], "wall_s": round(wall, 2), "violations": int(violations)}
    with open(os.path.join(VERIF, "evidence", pid + ".json"), "w") as f:
        json.dump(ev, f, indent=1, ensure_ascii=False)
    return ev


def write_replay(pid, payload):
    os.makedirs(os.path.join(VERIF, "replays"), exist_ok=True)
    blob = json.dumps(payload, indent=1, ensure_ascii=False, sort_keys=True)
    h = hashlib.sha1(blob.encode()).hexdigest()[:10]
    p = os.path.join(VERIF, "replays", f"{pid}-{h}.json")
    with open(p, "w") as f:
        f.write(blob)
    return p


def known_findings():
    p = os.path.join(VERIF, "known_findings.json")
    if not os.path.exists(p):
        return {"known": [], "fixed": []}
    return json.load(open(p))


def repo_file(rel):
    return open(os.path.join(REPO, rel), encoding="utf-8").read()
