"""gen_decls.py — generator of Ink programs that exercise every *table* the compiler keeps while it
translates a story: CONST declarations (defined from each other, several levels deep, declared in
every order and in every place a declaration may stand), VARs, LISTs and their items, knots,
stitches, labels on gathers and choices, EXTERNAL functions with fallbacks, Ink functions and
INCLUDEd files.  The class it is aimed at is "the compiler's output depends on something that is
not the source text" (per-instance / per-process HashMap iteration order, addresses, time): the
programs are meant to be compiled many times and the outputs compared, then played.

    prog = gen_program(rng, **weights)   -> {"src": text, "files": {name: text}, "features": {..}}
    src  = with_const_dag(rng, source)   -> the given source with a CONST DAG, VARs initialised from
                                            it and a line printing it in front (names prefixed zq)
    const_dag(rng, ...)                  -> ([(name, expr text)] in topological order, depth per name)

Every random choice comes from `rng` (random.Random).  Nothing here depends on tools/gen_ink.py.
"""

WORDS = "rain lamp door hall stone river bird road light north cold wait nod bridge".split()
SYLL = "ka lo mi ru te va zo ne shi pa du ge fo xi".split()

DEFAULT_WEIGHTS = dict(
    n_consts=(3, 9), n_vars=(2, 12), n_lists=(0, 3), n_knots=(1, 5), n_funcs=(0, 3), n_externals=(0, 2),
    n_includes=(0, 2), max_stitches=3, max_labels=3,
    chain=0.45,          # probability that the CONST DAG is one chain (every constant defined from the previous one)
    depth_bias=0.75,     # probability that a non-chain constant refers to the most recently defined ones
    str_consts=0.25, bool_consts=0.15, list_consts=0.2,
    const_in_knot=0.3,   # a CONST / VAR / LIST declaration placed inside a knot instead of the preamble
    const_in_include=0.5,
)


def _name(rng, used, prefix=""):
    while True:
        n = prefix + "".join(rng.choice(SYLL) for _ in range(rng.randint(1, 4)))
        if rng.random() < 0.3:
            n += str(rng.randint(0, 99))
        if n not in used and n not in ("not", "and", "or", "mod", "has", "hasnt", "else", "true", "false", "temp",
                                       "return", "function", "END", "DONE"):
            used.add(n)
            return n


def const_dag(rng, n, used, prefix="", chain=0.45, depth_bias=0.75, str_consts=0.25, bool_consts=0.15):
    """-> (decls, depth): decls = [(name, expr text, kind)] in an order in which every constant only
    refers to earlier ones; depth[name] = length of the longest reference path below it"""
    decls, depth, kinds = [], {}, {}
    is_chain = rng.random() < chain
    for i in range(n):
        name = _name(rng, used, prefix)
        ints = [d[0] for d in decls if kinds[d[0]] == "int"]
        strs = [d[0] for d in decls if kinds[d[0]] == "str"]
        r = rng.random()
        if i > 0 and r < str_consts and not is_chain:
            kind = "str"
            if strs and rng.random() < 0.7:
                ref = rng.choice(strs)
                expr, dp = f'{ref} + "{rng.choice(WORDS)}"', depth[ref] + 1
            elif ints and rng.random() < 0.5:
                ref = rng.choice(ints)
                expr, dp = f'"{rng.choice(WORDS)}" + {ref}', depth[ref] + 1
            else:
                expr, dp = f'"{rng.choice(WORDS)}"', 0
        elif i > 0 and r < str_consts + bool_consts and ints and not is_chain:
            kind = "bool"
            ref = rng.choice(ints)
            expr, dp = f"{ref} {rng.choice(['>', '<', '>=', '==', '!='])} {rng.randint(0, 9)}", depth[ref] + 1
        else:
            kind = "int"
            if not ints or (not is_chain and rng.random() < 0.15):
                expr, dp = str(rng.randint(0, 9)), 0
            else:
                if is_chain or rng.random() < depth_bias:
                    a = ints[-1] if is_chain or rng.random() < 0.6 else rng.choice(ints[-3:])
                else:
                    a = rng.choice(ints)
                shape = rng.random()
                if shape < 0.45:
                    expr, dp = f"{a} {rng.choice('+-*')} {rng.randint(1, 5)}", depth[a] + 1
                elif shape < 0.6:
                    expr, dp = f"{rng.randint(1, 5)} {rng.choice('+*')} {a}", depth[a] + 1
                elif shape < 0.7:
                    expr, dp = a, depth[a] + 1                       # a plain alias
                elif shape < 0.78:
                    expr, dp = f"-{a}", depth[a] + 1
                elif shape < 0.85:
                    expr, dp = f"({a} + {rng.randint(1, 5)}) * 2", depth[a] + 1
                else:
                    b = rng.choice(ints)
                    expr, dp = f"{a} {rng.choice('+-*')} {b}", max(depth[a], depth[b]) + 1
        decls.append((name, expr, kind))
        depth[name], kinds[name] = dp, kind
    return decls, depth


def _ordered(rng, decls):
    """the declarations in one of: definition order, reverse, random, deepest-first halves swapped"""
    k = rng.random()
    d = list(decls)
    if k < 0.25:
        return d
    if k < 0.5:
        return d[::-1]
    if k < 0.85:
        rng.shuffle(d)
        return d
    h = len(d) // 2
    return d[h:] + d[:h]


def _use_lines(rng, ints, strs, bools, var_ints, funcs, exts, tag, blocks=True):
    """content lines in which declared names are *used*, one per construct the constant substitution
    (and every other name lookup of the compiler) has to reach"""
    out = []
    pick = lambda xs: rng.choice(xs)
    if ints:
        out.append(f"{tag} out " + " ".join("{" + c + "}" for c in rng.sample(ints, min(len(ints), rng.randint(1, 4)))))
        out.append(f"{tag} cond {{{pick(ints)} > {rng.randint(0, 9)}: hi|lo}} {{{pick(ints)} + {pick(ints)}}}")
        if rng.random() < 0.7:
            out.append(f"~ temp t{tag} = {pick(ints)} * 2 + {pick(ints)}")
            out.append(f"{tag} temp {{t{tag}}}")
        if var_ints and rng.random() < 0.8:
            v = pick(var_ints)
            out.append(f"~ {v} = {v} + {pick(ints)}")
            out.append(f"{tag} var {{{v}}}")
        if blocks and rng.random() < 0.5:
            out += [f"{{ {pick(ints)} >= {rng.randint(0, 6)}:", f"    {tag} then {{{pick(ints)}}}", "- else:",
                    f"    {tag} else {{{pick(ints)}}}", "}"]
        if blocks and rng.random() < 0.4:
            c = pick(ints)
            out += [f"{{ {c}:", f"- {rng.randint(0, 9)}: {tag} case a", f"- {pick(ints)}: {tag} case b {{{c}}}",
                    f"- else: {tag} case other {{{c} - 1}}", "}"]
        if rng.random() < 0.4:
            out.append(f"{tag} seq {{&{{{pick(ints)}}}|two|{{{pick(ints)} + 1}}}}")
        if funcs and rng.random() < 0.8:
            f, ar = pick(funcs)
            out.append(f"{tag} call {{{f}(" + ", ".join(pick(ints) for _ in range(ar)) + ")}")
        if exts and rng.random() < 0.8:
            f, ar = pick(exts)
            out.append(f"{tag} ext {{{f}(" + ", ".join(pick(ints) for _ in range(ar)) + ")}")
    if strs:
        out.append(f"{tag} str {{{pick(strs)}}} {{{pick(strs)} == \"{pick(WORDS)}\"}}")
    if bools:
        out.append(f"{tag} bool {{{pick(bools)}}} {{{pick(bools)}: yes|no}} {{not {pick(bools)}}}")
    return out


def gen_program(rng, **weights):
    w = dict(DEFAULT_WEIGHTS)
    w.update(weights)
    ri = lambda k: rng.randint(*w[k])
    used = set()
    decls, depth = const_dag(rng, ri("n_consts"), used, chain=w["chain"], depth_bias=w["depth_bias"],
                             str_consts=w["str_consts"], bool_consts=w["bool_consts"])
    ints = [n for n, _, k in decls if k == "int"]
    strs = [n for n, _, k in decls if k == "str"]
    bools = [n for n, _, k in decls if k == "bool"]
    deep = sorted(ints, key=lambda n: -depth[n])

    # LISTs (items may share values across lists), list-valued constants
    lists = []
    for _ in range(ri("n_lists")):
        ln = _name(rng, used, "L")
        items, val = [], 0
        for _ in range(rng.randint(2, 5)):
            it = _name(rng, used)
            val = val + 1 if rng.random() < 0.7 else rng.randint(1, 9)
            items.append((it, val, rng.random() < 0.3))
        lists.append((ln, items))
    list_consts = []
    if lists and rng.random() < w["list_consts"] * 3:
        ln, items = rng.choice(lists)
        cn = _name(rng, used)
        list_consts.append((cn, items[0][0], "list"))
        if rng.random() < 0.5:
            cn2 = _name(rng, used)
            list_consts.append((cn2, cn, "list"))

    # VARs: initialised from constants (deep ones preferred), literals, list items
    var_ints, var_decl = [], []
    for i in range(ri("n_vars")):
        vn = _name(rng, used)
        r = rng.random()
        if ints and r < 0.6:
            c = deep[0] if rng.random() < 0.4 else rng.choice(ints)
            init = c if rng.random() < 0.5 else f"{c} {rng.choice('+-*')} {rng.randint(1, 4)}"
            var_ints.append(vn)
        elif strs and r < 0.7:
            init = rng.choice(strs)
        elif bools and r < 0.75:
            init = rng.choice(bools)
        elif lists and r < 0.85:
            init = rng.choice(rng.choice(lists)[1])[0]
        elif list_consts and r < 0.9:
            init = rng.choice(list_consts)[0]
        else:
            init = str(rng.randint(-3, 40))
            var_ints.append(vn)
        var_decl.append(f"VAR {vn} = {init}")

    # functions and externals (each external has an Ink fallback of the same name)
    funcs, exts, fdefs = [], [], []
    for _ in range(ri("n_funcs")):
        fn, ar = _name(rng, used, "f"), rng.randint(0, 2)
        ps = ["p", "q"][:ar]
        body = [f"~ return {' + '.join(ps + [rng.choice(ints) if ints else '1'])}"]
        if ints and rng.random() < 0.4:
            body = [f"{{ {rng.choice(ints)} > {rng.randint(0, 5)}:", f"    ~ return {rng.choice(ints)}", "}"] + body
        funcs.append((fn, ar))
        fdefs.append((f"=== function {fn}({', '.join(ps)}) ===", body))
    for _ in range(ri("n_externals")):
        fn, ar = _name(rng, used, "x"), rng.randint(0, 2)
        ps = ["p", "q"][:ar]
        exts.append((fn, ar))
        fdefs.append((f"=== function {fn}({', '.join(ps)}) ===",
                      [f"~ return {' + '.join(ps + [rng.choice(ints) if ints else '7'])}"]))

    # knots with stitches and labels; read counts of all of them are printed at the end
    knots, counts = [], []
    nk = ri("n_knots")
    knames = [_name(rng, used, "k") for _ in range(nk)]
    for ki, kn in enumerate(knames):
        body = _use_lines(rng, ints, strs, bools, var_ints, funcs, exts, kn)
        counts.append(kn)
        labs = []
        for _ in range(rng.randint(0, w["max_labels"])):
            lb = _name(rng, used, "g")
            labs.append(lb)
            body.append(f"- ({lb}) {kn} gather {{{rng.choice(ints)}}}" if ints else f"- ({lb}) {kn} gather")
            counts.append(f"{kn}.{lb}")
        stitches = []
        for _ in range(rng.randint(0, w["max_stitches"])):
            sn = _name(rng, used, "s")
            stitches.append((sn, _use_lines(rng, ints[:3], strs[:1], bools[:1], var_ints, funcs, [], sn, blocks=False)[:5]))
            counts.append(f"{kn}.{sn}")
        nxt = knames[ki + 1] if ki + 1 < nk else "END"
        # a choice block: one labelled, conditions over constants, sticky back edge through a choice
        ch = []
        cl = _name(rng, used, "c")
        cond = f"{{{rng.choice(ints)} > {rng.randint(0, 4)}}} " if ints and rng.random() < 0.6 else ""
        ch.append(f"* ({cl}) {cond}[{kn} go {{{rng.choice(ints)}}}] went" if ints else f"* ({cl}) [{kn} go] went")
        counts.append(f"{kn}.{cl}")
        if stitches:
            ch.append(f"    -> {stitches[0][0]}")
        else:
            ch.append(f"    -> {nxt}")
        ch.append(f"+ [{kn} again] -> {kn}")
        ch.append(f"* [{kn} skip] -> {nxt}")
        knots.append((kn, body, ch, stitches, nxt))

    # where every declaration goes: preamble / inside a knot / an included file
    preamble, in_knot, inc_files = [], {k: [] for k in knames}, []
    n_inc = ri("n_includes")
    inc_names = [f"inc_{i}_{_name(rng, set())}.ink" for i in range(n_inc)]
    inc_body = {n: [] for n in inc_names}
    all_decl = [f"CONST {n} = {e}" for n, e, _ in _ordered(rng, decls)]
    all_decl += [f"CONST {n} = {e}" for n, e, _ in list_consts]
    other = [f"LIST {ln} = " + ", ".join((f"({it})" if on else it) + (f" = {v}" if rng.random() < 0.6 else "")
                                          for it, v, on in items) for ln, items in lists]
    other += [f"EXTERNAL {fn}({', '.join(['p', 'q'][:ar])})" for fn, ar in exts]
    other += var_decl
    if rng.random() < 0.5:
        rng.shuffle(other)
    mixed = all_decl + other if rng.random() < 0.5 else other + all_decl
    if rng.random() < 0.4:
        rng.shuffle(mixed)
    for d in mixed:
        r = rng.random()
        if inc_names and r < w["const_in_include"] * 0.6:
            inc_body[rng.choice(inc_names)].append(d)
        elif knames and not d.startswith(("EXTERNAL", "INCLUDE")) and r < w["const_in_include"] * 0.6 + w["const_in_knot"]:
            in_knot[rng.choice(knames)].append(d)
        else:
            preamble.append(d)

    out = []
    inc_at = sorted(rng.randint(0, len(preamble)) for _ in inc_names)
    for i, d in enumerate(preamble + [None]):
        for k, at in enumerate(inc_at):
            if at == i:
                out.append(f"INCLUDE {inc_names[k]}")
        if d is not None:
            out.append(d)
    out += _use_lines(rng, ints, strs, bools, var_ints, funcs, exts, "top")
    if deep:
        out.append("deepest {" + deep[0] + "} all " + " ".join("{" + c + "}" for c in ints))
    out.append(f"-> {knames[0]}" if knames else "-> END")
    for kn, body, ch, stitches, nxt in knots:
        out.append(f"=== {kn} ===")
        out += in_knot[kn]
        out += body + ch
        for si, (sn, sb) in enumerate(stitches):
            out.append(f"= {sn}")
            out += sb
            out.append(f"-> {stitches[si + 1][0]}" if si + 1 < len(stitches) else f"-> {nxt}")
    for head, body in fdefs:
        out.append(head)
        out += body
    files = {}
    for n in inc_names:
        b = inc_body[n]
        if rng.random() < 0.5:
            b = b + [f"included {n[:5]} " + (("{" + rng.choice(ints) + "}") if ints else "")]
        files[n] = "\n".join(b) + "\n"
    feats = dict(consts=len(decls), const_depth=max(depth.values()) if depth else 0, vars=len(var_decl),
                 lists=len(lists), knots=nk, funcs=len(funcs), externals=len(exts), includes=n_inc,
                 labels=sum(1 for c in counts if "." in c), decl_in_knot=sum(len(v) for v in in_knot.values()),
                 decl_in_include=sum(len(v) for v in inc_body.values()))
    script = [["FALLBACKS", True]] if exts else []
    return dict(src="\n".join(out) + "\n", files=files, features=feats, script=script,
                explore={"depth": 2, "max_paths": 6}, counts=counts,
                var_names=[d.split()[1] for d in var_decl])


def with_const_dag(rng, source, prefix="zq"):
    """put a CONST DAG, VARs initialised from it and a line printing all of it in front of `source`
    (any program: generated, corpus).  Names are prefixed so that they cannot clash."""
    used = set()
    decls, depth = const_dag(rng, rng.randint(3, 7), used, prefix=prefix, str_consts=0.15, bool_consts=0.1)
    lines = [f"CONST {n} = {e}" for n, e, _ in _ordered(rng, decls)]
    ints = [n for n, _, k in decls if k == "int"]
    deep = max(decls, key=lambda d: depth[d[0]])[0]
    vn = _name(rng, used, prefix)
    lines.append(f"VAR {vn} = {deep}")
    show = f"{prefix} " + " ".join("{" + n + "}" for n, _, _ in decls) + " {" + vn + "}"
    head, body = [], source.split("\n")
    # keep the program's own leading declarations first only sometimes: declarations may stand anywhere
    if rng.random() < 0.5:
        while body and body[0].startswith(("VAR ", "LIST ", "CONST ", "EXTERNAL ", "INCLUDE ")):
            head.append(body.pop(0))
    return "\n".join(head + lines + [show] + body), dict(consts=len(decls), const_depth=max(depth.values()))
