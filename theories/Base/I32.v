(* Base/I32.v — i32 / usize arithmetic with the wrap written out. *)
From Coq Require Export ZArith.
Local Open Scope Z_scope.

Definition i32_min : Z := -2147483648.
Definition i32_max : Z := 2147483647.
Definition two32 : Z := 4294967296.
Definition two31 : Z := 2147483648.
Definition two64 : Z := 18446744073709551616.

Definition in_i32 (z : Z) : bool := (i32_min <=? z) && (z <=? i32_max).
Definition wrap32 (z : Z) : Z := ((z + two31) mod two32) - two31.
(* `x as u32` / `x as u64` / `x as usize` for a (sign-extended) i32 or i64 *)
Definition to_u32 (z : Z) : Z := z mod two32.
Definition to_u64 (z : Z) : Z := z mod two64.
(* `x as i32` for an integer (truncating) *)
Definition trunc_i32 (z : Z) : Z := wrap32 z.
(* Rust `/` and `%` on integers truncate toward zero *)
Definition quot32 (a b : Z) : Z := Z.quot a b.
Definition rem32 (a b : Z) : Z := Z.rem a b.
(* rem_euclid *)
Definition rem_euclid (a b : Z) : Z := a mod (Z.abs b).
