(* Base/Text.v — text as lists of Unicode scalar values, plus the handful of
   Rust `str`/`String` operations the runtime uses.  Model file: no proofs. *)
From Coq Require Export String Ascii.
From Coq Require Export List NArith ZArith Bool.
Export ListNotations.
Open Scope N_scope.

Definition text := list N.

(* ASCII literal -> text.  Only used on ASCII literals of the model. *)
Fixpoint T (s : string) : text :=
  match s with
  | EmptyString => []
  | String a r => N_of_ascii a :: T r
  end.

Fixpoint text_eqb (a b : text) : bool :=
  match a, b with
  | [], [] => true
  | x :: a', y :: b' => N.eqb x y && text_eqb a' b'
  | _, _ => false
  end.

(* lexicographic compare on scalar values = Rust `str::cmp` (UTF-8 byte order
   coincides with scalar-value order). *)
Fixpoint text_cmp (a b : text) : comparison :=
  match a, b with
  | [], [] => Eq
  | [], _ => Lt
  | _, [] => Gt
  | x :: a', y :: b' =>
      match N.compare x y with
      | Eq => text_cmp a' b'
      | c => c
      end
  end.

Definition text_ltb (a b : text) : bool :=
  match text_cmp a b with Lt => true | _ => false end.

(* UTF-8 encoded length of one scalar value / of a text (Rust `str::len`). *)
Definition utf8_len1 (c : N) : N :=
  if c <? 128 then 1 else if c <? 2048 then 2 else if c <? 65536 then 3 else 4.
Definition utf8_len (t : text) : N :=
  fold_left (fun acc c => acc + utf8_len1 c) t 0.

Definition nlen (t : text) : N := N.of_nat (length t).

(* character classes *)
Definition c_space := 32.
Definition c_tab := 9.
Definition c_nl := 10.
Definition c_cr := 13.
Definition c_dot := 46.
Definition c_caret := 94.
Definition c_quote := 34.
Definition c_bslash := 92.

Definition is_inline_ws (c : N) : bool := N.eqb c c_space || N.eqb c c_tab.

(* Rust `char::is_whitespace` = Unicode White_Space *)
Definition is_unicode_ws (c : N) : bool :=
  (9 <=? c) && (c <=? 13) || N.eqb c 32 || N.eqb c 133 || N.eqb c 160
  || N.eqb c 5760 || ((8192 <=? c) && (c <=? 8202)) || N.eqb c 8232 || N.eqb c 8233
  || N.eqb c 8239 || N.eqb c 8287 || N.eqb c 12288.

Fixpoint drop_while (f : N -> bool) (t : text) : text :=
  match t with
  | [] => []
  | c :: r => if f c then drop_while f r else t
  end.

Definition trim_start (t : text) : text := drop_while is_unicode_ws t.
Definition trim_end (t : text) : text := rev (drop_while is_unicode_ws (rev t)).
Definition trim (t : text) : text := trim_end (trim_start t).

(* Rust `str::split(c)`: always at least one piece *)
Fixpoint split_on_aux (sep : N) (t : text) (cur : text) : list text :=
  match t with
  | [] => [rev cur]
  | c :: r => if N.eqb c sep then rev cur :: split_on_aux sep r []
              else split_on_aux sep r (c :: cur)
  end.
Definition split_on (sep : N) (t : text) : list text := split_on_aux sep t [].

Fixpoint join_with (sep : text) (l : list text) : text :=
  match l with
  | [] => []
  | [x] => x
  | x :: r => x ++ sep ++ join_with sep r
  end.

Fixpoint starts_with (p t : text) : bool :=
  match p, t with
  | [], _ => true
  | x :: p', y :: t' => N.eqb x y && starts_with p' t'
  | _, [] => false
  end.

(* substring containment (Rust `str::contains(&str)`) *)
Fixpoint contains_text (t p : text) : bool :=
  starts_with p t ||
  match t with
  | [] => false
  | _ :: r => contains_text r p
  end.

(* decimal digits *)
Definition is_digit (c : N) : bool := (48 <=? c) && (c <=? 57).

(* digits <-> Decimal.uint (stdlib), so that the print/parse round trip is
   inherited from DecimalN *)
Fixpoint uint_of_text (t : text) : option Decimal.uint :=
  match t with
  | [] => Some Decimal.Nil
  | c :: r =>
      match uint_of_text r with
      | None => None
      | Some u =>
          if N.eqb c 48 then Some (Decimal.D0 u) else if N.eqb c 49 then Some (Decimal.D1 u)
          else if N.eqb c 50 then Some (Decimal.D2 u) else if N.eqb c 51 then Some (Decimal.D3 u)
          else if N.eqb c 52 then Some (Decimal.D4 u) else if N.eqb c 53 then Some (Decimal.D5 u)
          else if N.eqb c 54 then Some (Decimal.D6 u) else if N.eqb c 55 then Some (Decimal.D7 u)
          else if N.eqb c 56 then Some (Decimal.D8 u) else if N.eqb c 57 then Some (Decimal.D9 u)
          else None
      end
  end.

Fixpoint text_of_uint (u : Decimal.uint) : text :=
  match u with
  | Decimal.Nil => []
  | Decimal.D0 r => 48 :: text_of_uint r | Decimal.D1 r => 49 :: text_of_uint r
  | Decimal.D2 r => 50 :: text_of_uint r | Decimal.D3 r => 51 :: text_of_uint r
  | Decimal.D4 r => 52 :: text_of_uint r | Decimal.D5 r => 53 :: text_of_uint r
  | Decimal.D6 r => 54 :: text_of_uint r | Decimal.D7 r => 55 :: text_of_uint r
  | Decimal.D8 r => 56 :: text_of_uint r | Decimal.D9 r => 57 :: text_of_uint r
  end.

Definition digits_val (t : text) (acc : N) : option N :=
  match uint_of_text t with
  | Some u => Some (N.of_uint u)
  | None => None
  end.

(* Rust `str::parse::<usize>()`: optional leading '+', at least one digit,
   no overflow (usize = 64 bit). *)
Definition parse_usize (t : text) : option N :=
  let body := match t with 43 :: r => r | _ => t end in
  match body with
  | [] => None
  | _ => match digits_val body 0 with
         | Some v => if v <? 18446744073709551616 then Some v else None
         | None => None
         end
  end.

(* Rust `str::parse::<i32>()` *)
Definition parse_i32 (t : text) : option Z :=
  match t with
  | 45 :: r =>
      match r with
      | [] => None
      | _ => match digits_val r 0 with
             | Some v => if (v <=? 2147483648) then Some (- Z.of_N v)%Z else None
             | None => None
             end
      end
  | _ =>
      let body := match t with 43 :: r => r | _ => t end in
      match body with
      | [] => None
      | _ => match digits_val body 0 with
             | Some v => if (v <=? 2147483647) then Some (Z.of_N v) else None
             | None => None
             end
      end
  end.

(* decimal rendering of N / Z  (`to_string` on integers) *)
Definition show_N (n : N) : text := text_of_uint (N.to_uint n).
Definition show_Z (z : Z) : text :=
  match z with
  | Z0 => [48]
  | Zpos p => show_N (Npos p)
  | Zneg p => 45 :: show_N (Npos p)
  end.

(* canonical quoting used by the transcripts (same as harness `q`) *)
Definition hex_digit (d : N) : N := if d <? 10 then 48 + d else 87 + d.
Fixpoint show_hex_fuel (fuel : nat) (n : N) (acc : text) : text :=
  match fuel with
  | O => acc
  | S f => let acc' := hex_digit (n mod 16) :: acc in
           if N.eqb (n / 16) 0 then acc' else show_hex_fuel f (n / 16) acc'
  end.
Definition show_hex (n : N) : text := show_hex_fuel 16 n [].
Definition quote_char (c : N) : text :=
  if N.eqb c 92 then [92; 92]
  else if N.eqb c 34 then [92; 34]
  else if (c <? 32) || (126 <? c) then [92; 117; 123] ++ show_hex c ++ [125]
  else [c].
Definition quote_text (t : text) : text := 34 :: flat_map quote_char t ++ [34].
Definition show_bool01 (b : bool) : text := if b then [49] else [48].

(* UTF-8 encoding (Rust `str::as_bytes`) *)
Definition utf8_bytes1 (c : N) : list N :=
  if c <? 128 then [c]
  else if c <? 2048 then [192 + c / 64; 128 + c mod 64]
  else if c <? 65536 then [224 + c / 4096; 128 + (c / 64) mod 64; 128 + c mod 64]
  else [240 + c / 262144; 128 + (c / 4096) mod 64; 128 + (c / 64) mod 64; 128 + c mod 64].
Definition utf8_bytes (t : text) : list N := flat_map utf8_bytes1 t.
