(* Base/F32.v — Rust `f32` as a bit pattern (Z in [0, 2^32)), computed with
   Flocq's IEEE-754 binary32 (round-to-nearest-even).  Model file: no proofs.

   What is modelled exactly: + - * / (RNE), comparisons, unary minus, floor,
   ceil, `i32 as f32` (RNE), `f32 as i32` (saturating, NaN -> 0), `== 0.0`.
   What is NOT modelled: the sign/payload of NaN results (hardware/LLVM
   dependent in Rust; every NaN is the canonical quiet NaN 0x7fc00000 here —
   `Display` prints "NaN" for all of them, so no Ink-visible output depends on
   it), and library functions Flocq does not have.  Those are the fields of
   [float_oracle], always passed as a parameter. *)
From Coq Require Import ZArith Bool.
From Flocq Require IEEE754.Binary IEEE754.Bits IEEE754.BinarySingleNaN.
From Ink.Base Require Import Text I32.
Local Open Scope Z_scope.

Module FB := Flocq.IEEE754.Binary.
Module FBits := Flocq.IEEE754.Bits.
Module B := Flocq.IEEE754.BinarySingleNaN.

Definition f32 := B.binary_float 24 128.
Definition Hprec24 : 0 < 24 := eq_refl.
Definition Hemax128 : 24 < 128 := eq_refl.

Definition f32_nan_bits : Z := 2143289344.      (* 0x7fc00000 *)
Definition f32_zero : Z := 0.
Definition f32_negzero : Z := 2147483648.
Definition f32_one : Z := 1065353216.
Definition f32_inf : Z := 2139095040.
Definition f32_neginf : Z := 4286578688.

Definition f32_of_bits (z : Z) : f32 :=
  FB.B2BSN 24 128 (FBits.b32_of_bits (z mod two32)).
Definition f32_to_bits (f : f32) : Z :=
  FBits.bits_of_b32 (FB.BSN2B 24 128 FBits.default_nan_pl32 f).

Definition lift2 (op : f32 -> f32 -> f32) (a b : Z) : Z :=
  f32_to_bits (op (f32_of_bits a) (f32_of_bits b)).

Definition f32_add : Z -> Z -> Z := lift2 (@B.Bplus 24 128 Hprec24 Hemax128 B.mode_NE).
Definition f32_sub : Z -> Z -> Z := lift2 (@B.Bminus 24 128 Hprec24 Hemax128 B.mode_NE).
Definition f32_mul : Z -> Z -> Z := lift2 (@B.Bmult 24 128 Hprec24 Hemax128 B.mode_NE).
Definition f32_div : Z -> Z -> Z := lift2 (@B.Bdiv 24 128 Hprec24 Hemax128 B.mode_NE).
Definition f32_neg (a : Z) : Z := f32_to_bits (B.Bopp (f32_of_bits a)).

Definition f32_is_nan (a : Z) : bool :=
  match f32_of_bits a with B.B754_nan => true | _ => false end.

(* None = unordered (a NaN operand) *)
Definition f32_cmp (a b : Z) : option comparison := B.Bcompare (f32_of_bits a) (f32_of_bits b).
Definition f32_eqb (a b : Z) : bool := match f32_cmp a b with Some Eq => true | _ => false end.
Definition f32_neb (a b : Z) : bool := negb (f32_eqb a b).          (* Rust `!=`: true on NaN *)
Definition f32_ltb (a b : Z) : bool := match f32_cmp a b with Some Lt => true | _ => false end.
Definition f32_gtb (a b : Z) : bool := match f32_cmp a b with Some Gt => true | _ => false end.
Definition f32_leb (a b : Z) : bool := match f32_cmp a b with Some Lt | Some Eq => true | _ => false end.
Definition f32_geb (a b : Z) : bool := match f32_cmp a b with Some Gt | Some Eq => true | _ => false end.
(* `x == 0.0` / `x != 0.0` *)
Definition f32_is_zero (a : Z) : bool := f32_eqb a f32_zero.

Definition f32_floor (a : Z) : Z :=
  f32_to_bits (@B.Bnearbyint 24 128 Hemax128 B.mode_DN (f32_of_bits a)).
Definition f32_ceil (a : Z) : Z :=
  f32_to_bits (@B.Bnearbyint 24 128 Hemax128 B.mode_UP (f32_of_bits a)).

(* `z as f32` for an i32 z *)
Definition f32_of_i32 (z : Z) : Z :=
  f32_to_bits (B.binary_normalize 24 128 Hprec24 Hemax128 B.mode_NE z 0 false).

(* `x as i32`: truncation toward zero, saturating, NaN -> 0 *)
Definition f32_to_i32 (a : Z) : Z :=
  match f32_of_bits a with
  | B.B754_nan => 0
  | B.B754_infinity s => if s then i32_min else i32_max
  | f => let t := B.Btrunc f in
         if t <? i32_min then i32_min else if i32_max <? t then i32_max else t
  end.

(* f32::min / f32::max (IEEE minNum/maxNum: a NaN operand yields the other one).
   For operands that compare equal (only +0.0 / -0.0 differ in bits) Rust leaves
   the choice unspecified; observed on x86-64 (debug and release): the FIRST
   operand is returned. *)
Definition f32_min (a b : Z) : Z :=
  if f32_is_nan a then (if f32_is_nan b then f32_nan_bits else b mod two32)
  else if f32_is_nan b then a mod two32
  else if f32_ltb b a then b mod two32 else a mod two32.
Definition f32_max (a b : Z) : Z :=
  if f32_is_nan a then (if f32_is_nan b then f32_nan_bits else b mod two32)
  else if f32_is_nan b then a mod two32
  else if f32_gtb b a then b mod two32 else a mod two32.

(* `%` on f32 (C fmod) is exact: x - trunc(x/y)*y needs no rounding.  Computed
   here with integers; used to cross-check the [f32_rem] oracle, and as the
   oracle instance in proofs that want a closed term. *)
Definition f32_rem_exact (a b : Z) : Z :=
  match f32_of_bits a, f32_of_bits b with
  | B.B754_nan, _ | _, B.B754_nan => f32_nan_bits
  | B.B754_infinity _, _ => f32_nan_bits
  | _, B.B754_zero _ => f32_nan_bits
  | B.B754_zero s, _ => a mod two32
  | B.B754_finite _ _ _ _, B.B754_infinity _ => a mod two32
  | B.B754_finite sx mx ex _, B.B754_finite _ my ey _ =>
      let e := Z.min ex ey in
      let X := Z.pos mx * 2 ^ (ex - e) in
      let Y := Z.pos my * 2 ^ (ey - e) in
      let r := Z.rem X Y in
      let r' := if sx then - r else r in
      f32_to_bits (B.binary_normalize 24 128 Hprec24 Hemax128 B.mode_NE r' e sx)
  end.

(* library behaviour Flocq cannot compute: always a parameter, never an axiom *)
Record float_oracle := {
  f32_show : Z -> text;          (* core::fmt::Display for f32 *)
  f32_pow : Z -> Z -> Z;         (* f32::powf *)
  f32_rem : Z -> Z -> Z;         (* `%` on f32 (fmod) *)
  f32_parse : text -> option Z   (* str::parse::<f32>() *)
}.
