(* Base/Res.v — outcome monad.  A Rust panic is *data* (Panic site), so that
   "never panics" is a theorem rather than a by-product of totalising. *)
From Ink.Base Require Export Text.

Inductive ekind := BadArgument | InvalidState | BadJson.

Inductive Res (A : Type) : Type :=
| Ok (a : A)
| Err (k : ekind) (msg : text)
| Panic (site : text).
Arguments Ok {A} a.
Arguments Err {A} k msg.
Arguments Panic {A} site.

Definition bind {A B} (m : Res A) (f : A -> Res B) : Res B :=
  match m with
  | Ok a => f a
  | Err k e => Err k e
  | Panic s => Panic s
  end.

Declare Scope res_scope.
Delimit Scope res_scope with res.
Notation "'do' x <- m ; k" := (bind m (fun x => k))
  (at level 200, x pattern, m at level 100, k at level 200) : res_scope.
Notation "m ;; k" := (bind m (fun _ => k))
  (at level 200, right associativity) : res_scope.
Open Scope res_scope.

Definition is_ok {A} (r : Res A) : bool := match r with Ok _ => true | _ => false end.
Definition is_err {A} (r : Res A) : bool := match r with Err _ _ => true | _ => false end.
Definition is_panic {A} (r : Res A) : bool := match r with Panic _ => true | _ => false end.

Definition unwrap_or_panic {A} (site : string) (o : option A) : Res A :=
  match o with Some a => Ok a | None => Panic (T site) end.
Definition ok_or {A} (k : ekind) (msg : string) (o : option A) : Res A :=
  match o with Some a => Ok a | None => Err k (T msg) end.

Fixpoint mapM {A B} (f : A -> Res B) (l : list A) : Res (list B) :=
  match l with
  | [] => Ok []
  | x :: r => do y <- f x; do ys <- mapM f r; Ok (y :: ys)
  end.

Fixpoint foldM {A S} (f : S -> A -> Res S) (l : list A) (s : S) : Res S :=
  match l with
  | [] => Ok s
  | x :: r => do s' <- f s x; foldM f r s'
  end.
