(* Spec/RefSem.v — source-level reference semantics of core Ink (the C01 oracle).

   An executable, fuel-bounded interpreter over Spec/InkAst.v, written from the language rules
   ("Writing with Ink") and, where the documentation is silent (whitespace, glue and newline
   handling, evaluation order inside a choice, visit counting), from the behaviour of the
   reference engine.  It is INDEPENDENT of the runtime model in Engine/: it never sees compiled
   JSON, containers or pointers.  It does not look ahead: a line ends when the next piece of
   real content arrives, so "effects after a line end happen once" holds by construction here and
   is what the implementation is compared against.

   Model file: no proofs (see Spec/RefSemProofs.v). *)
From Ink.Base Require Import Text I32.
From Ink.Spec Require Import InkAst.

(* ------------------------------------------------------------------ values, results *)
Inductive val := VI (z : Z) | VB (b : bool) | VS (s : text) | VVoid.

Inductive R (A : Type) := ROk (a : A) | RErr (kind : text).
Arguments ROk {A}. Arguments RErr {A}.
Definition rbind {A B} (m : R A) (f : A -> R B) : R B :=
  match m with ROk a => f a | RErr k => RErr k end.
Notation "x <-- m ;; k" := (rbind m (fun x => k)) (at level 61, m at next level, right associativity).

Fixpoint lookup {V} (k : text) (l : list (text * V)) : option V :=
  match l with [] => None | (k', v) :: r => if text_eqb k k' then Some v else lookup k r end.
Fixpoint upsert {V} (k : text) (v : V) (l : list (text * V)) : list (text * V) :=
  match l with
  | [] => [(k, v)]
  | (k', v') :: r => if text_eqb k k' then (k, v) :: r else (k', v') :: upsert k v r
  end.
Fixpoint nlookup {V} (k : nat) (l : list (nat * V)) : option V :=
  match l with [] => None | (k', v) :: r => if Nat.eqb k k' then Some v else nlookup k r end.
Fixpoint nupsert {V} (k : nat) (v : V) (l : list (nat * V)) : list (nat * V) :=
  match l with
  | [] => [(k, v)]
  | (k', v') :: r => if Nat.eqb k k' then (k, v) :: r else (k', v') :: nupsert k v r
  end.
Definition zcount (k : text) (l : list (text * Z)) : Z := match lookup k l with Some z => z | None => 0%Z end.

Definition truthy (v : val) : option bool :=
  match v with VI z => Some (negb (z =? 0)%Z) | VB b => Some b | _ => None end.
Definition show_val (v : val) : text :=
  match v with
  | VI z => show_Z z
  | VB b => if b then T "true" else T "false"
  | VS s => s
  | VVoid => []
  end.

(* ------------------------------------------------------------------ output text rules *)
(* whitespace normalisation of a finished line (engine: clean_output_whitespace): leading and
   trailing blanks of every line removed, inner runs of blanks collapsed to one space *)
Inductive cws := CSol | CMid | CPend.
Fixpoint clean_go (s : cws) (t : text) : text :=
  match t with
  | [] => []
  | c :: r =>
      if is_inline_ws c then clean_go (match s with CSol => CSol | _ => CPend end) r
      else if N.eqb c c_nl then c :: clean_go CSol r
      else match s with
           | CPend => c_space :: c :: clean_go CMid r
           | _ => c :: clean_go CMid r
           end
  end.
Definition clean_ws (t : text) : text := clean_go CSol t.

(* the output stream of the line under construction, newest token first *)
Inductive otok := OText (t : text) | ONl | OGlue | OTag (t : text).

Definition blank (t : text) : bool := forallb is_inline_ws t.
Definition is_textual (k : otok) : bool := match k with OText _ | ONl => true | _ => false end.
Definition is_glue (k : otok) : bool := match k with OGlue => true | _ => false end.

(* does the stream end in a newline, ignoring blanks, glue and tags after it *)
Fixpoint ends_in_nl (s : list otok) : bool :=
  match s with
  | [] => false
  | ONl :: _ => true
  | OText t :: r => if blank t then ends_in_nl r else false
  | _ :: r => ends_in_nl r
  end.

(* glue removes the newline(s) and blanks at the end of the stream: the number of newest tokens
   up to and including the oldest newline of the trailing blank run *)
Fixpoint trim_span (s : list otok) (i mark : nat) : nat :=
  match s with
  | [] => mark
  | ONl :: r => trim_span r (S i) (S i)
  | OText t :: r => if blank t then trim_span r (S i) mark else mark
  | _ :: r => trim_span r (S i) mark
  end.
Definition trim_newlines (s : list otok) : list otok :=
  let n := trim_span s 0 0 in
  filter (fun k => negb (is_textual k)) (firstn n s) ++ skipn n s.

(* end of a function call: trailing newlines and blanks written by the function are dropped;
   n = number of newest tokens that belong to the call *)
Fixpoint fn_end_trim (n : nat) (s : list otok) : list otok :=
  match n, s with
  | O, _ => s
  | _, [] => []
  | S n', ONl :: r => fn_end_trim n' r
  | S n', OText t :: r => if blank t then fn_end_trim n' r else s
  | S n', k :: r => k :: fn_end_trim n' r
  end.

Record outst := mkOut {
  o_lines : list (text * list text);    (* finished lines, newest first *)
  o_cur : list otok;                    (* current line, newest first *)
  o_fs : list (option nat);             (* active function calls, innermost first: Some n = nothing but
                                           blanks written so far, the call started at stream length n *)
  o_str : bool                          (* evaluating a string (choice text): no line is ever finished *)
}.
Definition out_empty : outst := mkOut [] [] [] false.
Definition out_string : outst := mkOut [] [] [] true.

Definition fn_trimming (fs : list (option nat)) : bool :=
  match fs with Some _ :: _ => true | _ => false end.

Definition tok_text (k : otok) : text := match k with OText t => t | ONl => [c_nl] | _ => [] end.
Definition stream_text (s : list otok) : text := flat_map tok_text (rev s).
Definition stream_tags (s : list otok) : list text :=
  flat_map (fun k => match k with OTag t => [t] | _ => [] end) (rev s).
Definition render_line (s : list otok) : text * list text := (clean_ws (stream_text s), stream_tags s).

(* tokens newer than the newest newline / the newline and everything older *)
Fixpoint split_nl (s : list otok) : list otok * list otok :=
  match s with
  | [] => ([], [])
  | ONl :: r => ([], s)
  | k :: r => let '(a, b) := split_nl r in (k :: a, b)
  end.

(* the pending newline becomes a line end *)
Definition commit (o : outst) : outst :=
  let '(newer, older) := split_nl (o_cur o) in
  if o_str o then o else
  mkOut (render_line older :: o_lines o) newer (map (fun x => match x with Some _ => Some O | None => None end) (o_fs o)) (o_str o).

Definition push (k : otok) (o : outst) : outst :=
  match k with
  | OGlue => mkOut (o_lines o) (OGlue :: trim_newlines (o_cur o)) (o_fs o) (o_str o)
  | OTag t =>
      let o1 := if ends_in_nl (o_cur o) then commit o else o in
      mkOut (o_lines o1) (OTag t :: o_cur o1) (o_fs o1) (o_str o1)
  | ONl =>
      if existsb is_glue (o_cur o) || fn_trimming (o_fs o) then o
      else if ends_in_nl (o_cur o) || negb (existsb is_textual (o_cur o)) then o
      else mkOut (o_lines o) (ONl :: o_cur o) (o_fs o) (o_str o)
  | OText t =>
      match t with
      | [] => o
      | _ =>
        if blank t then mkOut (o_lines o) (OText t :: o_cur o) (o_fs o) (o_str o)
        else
          let o1 := if ends_in_nl (o_cur o) then commit o else o in
          let s := filter (fun k => negb (is_glue k)) (o_cur o1) in
          mkOut (o_lines o1) (OText t :: s) (map (fun _ => None) (o_fs o1)) (o_str o1)
      end
  end.

(* the line still under construction at a choice point / the end *)
Definition flush (o : outst) : outst :=
  match o_cur o with
  | [] => o
  | s => mkOut (render_line s :: o_lines o) [] (o_fs o) (o_str o)
  end.
(* an error interrupts the line: what was written so far is still observable (current text) *)
Definition flush_on_error (o : outst) : outst := flush o.

Definition fn_enter (o : outst) : outst := mkOut (o_lines o) (o_cur o) (Some (length (o_cur o)) :: o_fs o) (o_str o).
Definition fn_leave (o : outst) : outst :=
  match o_fs o with
  | [] => o
  | st :: r =>
      let n := match st with Some k => length (o_cur o) - k | None => length (o_cur o) end in
      mkOut (o_lines o) (fn_end_trim n (o_cur o)) r (o_str o)
  end%nat.

(* ------------------------------------------------------------------ state *)
Inductive fkind := FMain | FTunnel.
Record frame := mkFrame {
  f_kind : fkind;
  f_cont : list stmt;                  (* what this frame still has to execute *)
  f_temps : list (text * val);
  f_place : text                       (* knot / knot.stitch the frame is in (qualifies labels) *)
}.

Record pchoice := mkPC {
  pc_text : text;
  pc_tags : list text;
  pc_invisible : bool;
  pc_choice : choice;
  pc_stack : list frame                (* call stack at generation; top frame continues after the group *)
}.

Inductive status :=
| Running
| Waiting                              (* choices on offer *)
| Finished                             (* -> END, or -> DONE / safe exit with nothing on offer *)
| Failed (kind : text).

Record state := mkState {
  st_globals : list (text * val);
  st_visits : list (text * Z);
  st_turnidx : list (text * Z);
  st_trace : list text;                (* ghost: every entry counted by [visit], newest first *)
  st_turn : Z;
  st_seqs : list (nat * nat);
  st_chosen : list nat;
  st_threads : list (list frame);      (* current thread first *)
  st_choices : list pchoice;           (* generated so far, in order *)
  st_out : outst;
  st_safe : bool;                      (* -> DONE reached *)
  st_status : status
}.

Definition set_out (st : state) (o : outst) : state :=
  mkState (st_globals st) (st_visits st) (st_turnidx st) (st_trace st) (st_turn st) (st_seqs st) (st_chosen st)
          (st_threads st) (st_choices st) o (st_safe st) (st_status st).
Definition set_globals (st : state) (g : list (text * val)) : state :=
  mkState g (st_visits st) (st_turnidx st) (st_trace st) (st_turn st) (st_seqs st) (st_chosen st)
          (st_threads st) (st_choices st) (st_out st) (st_safe st) (st_status st).
Definition set_seqs (st : state) (s : list (nat * nat)) : state :=
  mkState (st_globals st) (st_visits st) (st_turnidx st) (st_trace st) (st_turn st) s (st_chosen st)
          (st_threads st) (st_choices st) (st_out st) (st_safe st) (st_status st).
Definition set_threads (st : state) (t : list (list frame)) : state :=
  mkState (st_globals st) (st_visits st) (st_turnidx st) (st_trace st) (st_turn st) (st_seqs st) (st_chosen st)
          t (st_choices st) (st_out st) (st_safe st) (st_status st).
Definition set_choices (st : state) (c : list pchoice) : state :=
  mkState (st_globals st) (st_visits st) (st_turnidx st) (st_trace st) (st_turn st) (st_seqs st) (st_chosen st)
          (st_threads st) c (st_out st) (st_safe st) (st_status st).
Definition set_status (st : state) (s : status) : state :=
  mkState (st_globals st) (st_visits st) (st_turnidx st) (st_trace st) (st_turn st) (st_seqs st) (st_chosen st)
          (st_threads st) (st_choices st) (st_out st) (st_safe st) s.
Definition set_safe (st : state) (b : bool) : state :=
  mkState (st_globals st) (st_visits st) (st_turnidx st) (st_trace st) (st_turn st) (st_seqs st) (st_chosen st)
          (st_threads st) (st_choices st) (st_out st) b (st_status st).
(* entering a knot / stitch / labelled gather / chosen labelled choice: read count and turn index *)
Definition visit (name : text) (st : state) : state :=
  mkState (st_globals st) (upsert name (zcount name (st_visits st) + 1)%Z (st_visits st))
          (upsert name (st_turn st) (st_turnidx st)) (name :: st_trace st) (st_turn st) (st_seqs st) (st_chosen st)
          (st_threads st) (st_choices st) (st_out st) (st_safe st) (st_status st).
Definition emit (k : otok) (st : state) : state := set_out st (push k (st_out st)).

(* tags at the end of a line: the source has a blank between the text and the first '#' *)
Definition emit_tags (tags : list text) (st : state) : state :=
  match tags with
  | [] => st
  | _ => fold_left (fun s t => emit (OTag t) s) tags (emit (OText [c_space]) st)
  end.

(* ------------------------------------------------------------------ program lookup *)
Fixpoint find_knot (ks : list knot) (name : text) : option knot :=
  match ks with
  | [] => None
  | k :: r => if text_eqb (k_name k) name then Some k else find_knot r name
  end.

Definition qualify (place label : text) : text := place ++ [c_dot] ++ label.

(* a divert target path, seen from the place [cur] the flow is in -> (place, content, names whose
   read count goes up).  Reference engine rule (visit_changed_containers_due_to_divert): a knot or
   stitch is counted when the flow ENTERS it from outside; a divert that stays inside the same
   knot (stitch) does not count that knot (stitch) again. *)
Definition knot_of (place : text) : text :=
  match split_on c_dot place with k :: _ => k | [] => [] end.

Definition resolve (p : program) (cur : text) (path : text) : option (text * list stmt * list text) :=
  match split_on c_dot path with
  | [kn] =>
      match find_knot (p_knots p) kn with
      | Some k =>
          let outer := if text_eqb (knot_of cur) kn then [] else [kn] in
          match k_body k, k_stitches k with
          | [], (sn, sb) :: _ => Some (qualify kn sn, sb, outer ++ [qualify kn sn])
          | b, _ => Some (kn, b, outer)
          end
      | None => None
      end
  | [kn; sn] =>
      match find_knot (p_knots p) kn with
      | Some k => match lookup sn (k_stitches k) with
                  | Some b =>
                      Some (path, b,
                            if text_eqb cur path then []
                            else path :: (if text_eqb (knot_of cur) kn then [] else [kn]))
                  | None => None
                  end
      | None => None
      end
  | _ => None
  end.

(* ------------------------------------------------------------------ expressions *)
Definition arith (o : binop) (a b : Z) : R val :=
  match o with
  | BAdd => ROk (VI (wrap32 (a + b)))
  | BSub => ROk (VI (wrap32 (a - b)))
  | BMul => ROk (VI (wrap32 (a * b)))
  | BDiv => if (b =? 0)%Z then RErr (T "other") else ROk (VI (wrap32 (Z.quot a b)))
  | BMod => if (b =? 0)%Z then RErr (T "other") else ROk (VI (wrap32 (Z.rem a b)))
  | BEq => ROk (VB (a =? b)%Z)
  | BNe => ROk (VB (negb (a =? b)%Z))
  | BLt => ROk (VB (a <? b)%Z)
  | BGt => ROk (VB (a >? b)%Z)
  | BLe => ROk (VB (a <=? b)%Z)
  | BGe => ROk (VB (a >=? b)%Z)
  | BAnd => ROk (VB (negb (a =? 0)%Z && negb (b =? 0)%Z))
  | BOr => ROk (VB (negb (a =? 0)%Z || negb (b =? 0)%Z))
  end.

Definition b2z (b : bool) : Z := if b then 1%Z else 0%Z.

Definition binop_val (o : binop) (x y : val) : R val :=
  match x, y with
  | VI a, VI b => arith o a b
  | VB a, VB b =>
      match o with
      | BAnd => ROk (VB (a && b))
      | BOr => ROk (VB (a || b))
      | BEq => ROk (VB (Bool.eqb a b))
      | BNe => ROk (VB (negb (Bool.eqb a b)))
      | _ => RErr (T "type")
      end
  | VB a, VI b => arith o (b2z a) b
  | VI a, VB b => arith o a (b2z b)
  | VS a, VS b =>
      match o with
      | BAdd => ROk (VS (a ++ b))
      | BEq => ROk (VB (text_eqb a b))
      | BNe => ROk (VB (negb (text_eqb a b)))
      | _ => RErr (T "type")
      end
  (* a number next to a string is printed: "a" + 1 = "a1" *)
  | VS a, VI b => match o with BAdd => ROk (VS (a ++ show_Z b)) | _ => RErr (T "type") end
  | VI a, VS b => match o with BAdd => ROk (VS (show_Z a ++ b)) | _ => RErr (T "type") end
  | _, _ => RErr (T "type")
  end.

Definition unop_val (o : unop) (x : val) : R val :=
  match o, x with
  | UNot, VI z => ROk (VB (z =? 0)%Z)
  | UNot, VB b => ROk (VB (negb b))
  | UNeg, VI z => ROk (VI (wrap32 (- z)))
  | _, _ => RErr (T "type")
  end.

Fixpoint has_call (e : expr) : bool :=
  match e with
  | ECall _ _ | ETurnsSince _ | EChoiceCount | ETurns => true
  | EUn _ a => has_call a
  | EBin _ a b => has_call a || has_call b
  | _ => false
  end.

Definition seq_pick (k : seqkind) (n len : nat) : option nat :=
  match k with
  | SeqStopping => Some (Nat.min n (len - 1))
  | SeqCycle => Some (Nat.modulo n len)
  | SeqOnce => if Nat.ltb n len then Some n else None
  | SeqShuffle => None
  end.

Definition newline_stmt : stmt := SLine [] [] None.

(* text produced by inline content evaluated on its own (choice text): rules of the stream apply
   inside, nothing leaks out *)
Definition string_of_out (o : outst) : text := stream_text (o_cur o).

Section Eval.
Variable p : program.

(* evaluation of expressions, inline content and function bodies; everything recurses on fuel.
   tmps: the temporaries visible here (innermost frame) *)
Fixpoint eval (fuel : nat) (tmps : list (text * val)) (st : state) (e : expr) {struct fuel} : R (val * state) :=
  match fuel with
  | O => RErr (T "fuel")
  | S f =>
    match e with
    | EInt z => ROk (VI z, st)
    | EBool b => ROk (VB b, st)
    | EStr s => ROk (VS s, st)
    | EVar x =>
        match lookup x tmps with
        | Some v => ROk (v, st)
        | None => match lookup x (st_globals st) with
                  | Some v => ROk (v, st)
                  | None => RErr (T "novar")
                  end
        end
    | ECount path => ROk (VI (zcount path (st_visits st)), st)
    | EUn o a =>
        r <-- eval f tmps st a ;;
        v <-- unop_val o (fst r) ;;
        ROk (v, snd r)
    | EBin o a b =>
        ra <-- eval f tmps st a ;;
        rb <-- eval f tmps (snd ra) b ;;
        v <-- binop_val o (fst ra) (fst rb) ;;
        ROk (v, snd rb)
    | ECall fn args =>
        ra <-- eval_args f tmps st args ;;
        match find_knot (p_knots p) fn with
        | Some k =>
            if k_fun k then
              let st1 := visit fn (snd ra) in
              let st2 := set_out st1 (fn_enter (st_out st1)) in
              r <-- exec_fun f (combine (k_params k) (fst ra)) st2 (k_body k) ;;
              let '(v, _, st3) := r in
              ROk (match v with Some x => x | None => VVoid end, set_out st3 (fn_leave (st_out st3)))
            else RErr (T "notfun")
        | None => RErr (T "nofun")
        end
    | ETurnsSince path =>
        ROk (VI (match lookup path (st_turnidx st) with
                 | Some t => (st_turn st - t)%Z
                 | None => (-1)%Z
                 end), st)
    | EChoiceCount => ROk (VI (Z.of_nat (length (st_choices st))), st)
    | ETurns => ROk (VI (st_turn st), st)
    end
  end
with eval_args (fuel : nat) (tmps : list (text * val)) (st : state) (es : list expr) {struct fuel} : R (list val * state) :=
  match fuel with
  | O => RErr (T "fuel")
  | S f =>
    match es with
    | [] => ROk ([], st)
    | e :: r =>
        a <-- eval f tmps st e ;;
        b <-- eval_args f tmps (snd a) r ;;
        ROk (fst a :: fst b, snd b)
    end
  end
(* inline content: pushes text / glue on the output *)
with do_inl (fuel : nat) (tmps : list (text * val)) (st : state) (c : list inl) {struct fuel} : R state :=
  match fuel with
  | O => RErr (T "fuel")
  | S f =>
    match c with
    | [] => ROk st
    | x :: r =>
        st1 <-- match x with
                | IText t => ROk (emit (OText t) st)
                | IGlue => ROk (emit OGlue st)
                | IExpr e =>
                    a <-- eval f tmps st e ;;
                    ROk (emit (OText (show_val (fst a))) (snd a))
                | ICond ce a b =>
                    cv <-- eval f tmps st ce ;;
                    match truthy (fst cv) with
                    | Some true => do_inl f tmps (snd cv) a
                    | Some false => do_inl f tmps (snd cv) b
                    | None => RErr (T "type")
                    end
                | ISeq k id alts =>
                    let n := match nlookup id (st_seqs st) with Some n => n | None => O end in
                    let st' := set_seqs st (nupsert id (S n) (st_seqs st)) in
                    match seq_pick k n (length alts) with
                    | Some i => do_inl f tmps st' (nth i alts [])
                    | None => match k with SeqShuffle => RErr (T "shuffle") | _ => ROk st' end
                    end
                end ;;
        do_inl f tmps st1 r
    end
  end
(* body of a function: returns (returned value, temporaries, state) *)
with exec_fun (fuel : nat) (tmps : list (text * val)) (st : state) (b : list stmt) {struct fuel}
  : R (option val * list (text * val) * state) :=
  match fuel with
  | O => RErr (T "fuel")
  | S f =>
    match b with
    | [] => ROk (None, tmps, st)
    | s :: rest =>
        match s with
        | SLine c tags None =>
            st1 <-- do_inl f tmps st c ;;
            let st2 := emit_tags tags st1 in
            exec_fun f tmps (emit ONl st2) rest
        | SAssign x e =>
            a <-- eval f tmps st e ;;
            let st1 := if has_call e then emit ONl (snd a) else snd a in
            match lookup x tmps with
            | Some _ => exec_fun f (upsert x (fst a) tmps) st1 rest
            | None => exec_fun f tmps (set_globals st1 (upsert x (fst a) (st_globals st1))) rest
            end
        | STemp x e =>
            a <-- eval f tmps st e ;;
            let st1 := if has_call e then emit ONl (snd a) else snd a in
            exec_fun f (upsert x (fst a) tmps) st1 rest
        | SEval e =>
            a <-- eval f tmps st e ;;
            exec_fun f tmps (if has_call e then emit ONl (snd a) else snd a) rest
        | SReturn None => ROk (None, tmps, st)
        | SReturn (Some e) =>
            a <-- eval f tmps st e ;;
            ROk (Some (fst a), tmps, snd a)
        | SIf brs els =>
            r <-- pick_branch f tmps st brs els ;;
            exec_fun f tmps (snd r) (fst r ++ newline_stmt :: rest)
        | SSeq k id alts =>
            let n := match nlookup id (st_seqs st) with Some n => n | None => O end in
            let st' := set_seqs st (nupsert id (S n) (st_seqs st)) in
            match seq_pick k n (length alts) with
            | Some i => exec_fun f tmps st' (newline_stmt :: nth i alts [] ++ newline_stmt :: rest)
            | None => match k with SeqShuffle => RErr (T "shuffle")
                               | _ => exec_fun f tmps st' (newline_stmt :: rest) end
            end
        | _ => RErr (T "unsupported-in-function")
        end
    end
  end
(* first branch of a block conditional whose condition holds *)
with pick_branch (fuel : nat) (tmps : list (text * val)) (st : state) (brs : list (expr * list stmt))
                 (els : list stmt) {struct fuel} : R (list stmt * state) :=
  match fuel with
  | O => RErr (T "fuel")
  | S f =>
    match brs with
    | [] => ROk (els, st)
    | (c, b) :: r =>
        cv <-- eval f tmps st c ;;
        match truthy (fst cv) with
        | Some true => ROk (b, snd cv)
        | Some false => pick_branch f tmps (snd cv) r els
        | None => RErr (T "type")
        end
    end
  end.

(* all conditions of a choice are evaluated; the choice shows if all hold *)
Fixpoint eval_conds (fuel : nat) (tmps : list (text * val)) (st : state) (cs : list expr) : R (bool * state) :=
  match cs with
  | [] => ROk (true, st)
  | c :: r =>
      cv <-- eval fuel tmps st c ;;
      match truthy (fst cv) with
      | Some b => rest <-- eval_conds fuel tmps (snd cv) r ;; ROk (b && fst rest, snd rest)
      | None => RErr (T "type")
      end
  end.

(* choice text: inline content evaluated on a fresh stream; blanks at both ends removed *)
Definition trim_blanks (t : text) : text := rev (drop_while is_inline_ws (rev (drop_while is_inline_ws t))).

Definition eval_string (fuel : nat) (tmps : list (text * val)) (st : state) (c : list inl) : R (text * state) :=
  let saved := st_out st in
  st1 <-- do_inl fuel tmps (set_out st out_string) c ;;
  ROk (string_of_out (st_out st1), set_out st1 saved).

(* one choice of a group: text first (start, then choice-only), then the conditions, then the
   once-only test — the order of the reference engine, visible through side effects *)
Definition gen_choice (fuel : nat) (st : state) (stack : list frame) (tmps : list (text * val)) (c : choice) : R state :=
  s1 <-- (if c_fallback c then ROk ([], st) else eval_string fuel tmps st (c_start c)) ;;
  s2 <-- (if c_fallback c then ROk ([], snd s1) else eval_string fuel tmps (snd s1) (c_only c)) ;;
  cv <-- eval_conds fuel tmps (snd s2) (c_conds c) ;;
  let st1 := snd cv in
  let spent := negb (c_sticky c) && existsb (Nat.eqb (c_id c)) (st_chosen st1) in
  if fst cv && negb spent then
    let tags := if c_bracket c then [] else c_tags c in
    ROk (set_choices st1 (st_choices st1 ++ [mkPC (trim_blanks (fst s1 ++ fst s2)) tags (c_fallback c) c stack]))
  else ROk st1.

Fixpoint gen_choices (fuel : nat) (st : state) (stack : list frame) (tmps : list (text * val)) (cs : list choice) : R state :=
  match cs with
  | [] => ROk st
  | c :: r => st1 <-- gen_choice fuel st stack tmps c ;; gen_choices fuel st1 stack tmps r
  end.

(* what a chosen choice runs: its output line (start + inner text, tags), then its body *)
Definition chosen_stmts (c : choice) : list stmt :=
  SLine (if c_fallback c then [] else c_start c ++ c_inner c) (if c_fallback c then [] else c_tags c) (c_dv c) :: c_body c.

Definition with_cont (fr : frame) (k : list stmt) : frame := mkFrame (f_kind fr) k (f_temps fr) (f_place fr).
Definition with_temps (fr : frame) (t : list (text * val)) : frame := mkFrame (f_kind fr) (f_cont fr) t (f_place fr).

Definition fail (st : state) (kind : text) : state :=
  set_status (set_out st (flush_on_error (st_out st))) (Failed kind).

(* take a pending choice (player's pick, or the fallback): its call stack becomes current *)
Definition take_choice (st : state) (pc : pchoice) (player : bool) : state :=
  let c := pc_choice pc in
  match pc_stack pc with
  | [] => fail st (T "other")
  | fr :: below =>
      let st1 := mkState (st_globals st) (st_visits st) (st_turnidx st) (st_trace st)
                         (if player then (st_turn st + 1)%Z else st_turn st) (st_seqs st)
                         (c_id c :: st_chosen st)
                         [with_cont fr (chosen_stmts c ++ f_cont fr) :: below] [] (st_out st) false Running in
      match c_label c with
      | Some l => visit (qualify (f_place fr) l) st1
      | None => st1
      end
  end.

Definition goto (st : state) (fr : frame) (below : list frame) (others : list (list frame)) (path : text) : state :=
  match resolve p (f_place fr) path with
  | Some (place, body, names) =>
      let st1 := fold_left (fun s n => visit n s) names st in
      set_threads st1 ((mkFrame (f_kind fr) body (f_temps fr) place :: below) :: others)
  | None => fail st (T "other")
  end.

Definition do_target (st : state) (fr : frame) (below : list frame) (others : list (list frame)) (t : target) : state :=
  match t with
  | TKnot path => goto st fr below others path
  | TEnd => set_status (set_choices (set_threads st []) []) Finished
  | TDone =>
      match others with
      | _ :: _ => set_threads st others                      (* a thread is done: back to the one below *)
      | [] => set_safe (set_threads st [with_cont fr [] :: below]) true
      end
  | TTunnelRet =>
      match f_kind fr, below with
      | FTunnel, _ :: _ => set_threads st (below :: others)
      | _, _ => fail st (T "other")
      end
  end.

Definition lift (st : state) (r : R state) : state :=
  match r with ROk s => s | RErr k => fail st (if text_eqb k (T "fuel") then T "fuel" else T "other") end.

(* the current thread has nothing left to run *)
Definition out_of_content (st : state) (cs : list frame) : state :=
  let visible := filter (fun c => negb (pc_invisible c)) (st_choices st) in
  match visible with
  | _ :: _ => set_status st Waiting
  | [] =>
      match st_choices st with
      | pc :: _ => take_choice st pc false
      | [] =>
          if st_safe st then set_status st Finished
          else fail st (match cs with _ :: _ :: _ => T "endcontent" | _ => T "ranout" end)
      end
  end.

(* runs until a choice point, the end, or an error *)
Fixpoint run (fuel : nat) (st : state) {struct fuel} : state :=
  match fuel with
  | O => fail st (T "fuel")
  | S f =>
    match st_status st with
    | Running =>
      match st_threads st with
      | [] => fail st (T "other")
      | cs :: others =>
        match cs with
        | [] => fail st (T "other")
        | fr :: below =>
          match f_cont fr with
          | [] =>
              match others with
              | _ :: _ => run f (set_threads st others)
              | [] => let st1 := out_of_content st cs in
                      match st_status st1 with Running => run f st1 | _ => st1 end
              end
          | s :: rest =>
              let fr1 := with_cont fr rest in
              let here := set_threads st ((fr1 :: below) :: others) in
              let tm := f_temps fr in
              match s with
              | SLine c tags dv =>
                  match do_inl f tm here c with
                  | RErr k => lift here (RErr k)
                  | ROk st1 =>
                      let st2 := emit_tags tags st1 in
                      match dv with
                      | None => run f (emit ONl st2)
                      | Some t => run f (do_target st2 fr1 below others t)
                      end
                  end
              | SAssign x e =>
                  match eval f tm here e with
                  | RErr k => lift here (RErr k)
                  | ROk (v, st1) =>
                      let st2 := if has_call e then emit ONl st1 else st1 in
                      match lookup x tm with
                      | Some _ => run f (set_threads st2 ((with_temps fr1 (upsert x v tm) :: below) :: others))
                      | None => run f (set_globals st2 (upsert x v (st_globals st2)))
                      end
                  end
              | STemp x e =>
                  match eval f tm here e with
                  | RErr k => lift here (RErr k)
                  | ROk (v, st1) =>
                      let st2 := if has_call e then emit ONl st1 else st1 in
                      run f (set_threads st2 ((with_temps fr1 (upsert x v tm) :: below) :: others))
                  end
              | SEval e =>
                  match eval f tm here e with
                  | RErr k => lift here (RErr k)
                  | ROk (_, st1) => run f (if has_call e then emit ONl st1 else st1)
                  end
              | SReturn _ => fail here (T "other")
              | SDivert t => run f (do_target here fr1 below others t)
              | STunnel t =>
                  match resolve p (f_place fr) t with
                  | Some (place, body, names) =>
                      let st1 := fold_left (fun s n => visit n s) names here in
                      run f (set_threads st1 ((mkFrame FTunnel body [] place :: fr1 :: below) :: others))
                  | None => fail here (T "other")
                  end
              | SThread t =>
                  match resolve p (f_place fr) t with
                  | Some (place, body, names) =>
                      let st1 := fold_left (fun s n => visit n s) names here in
                      run f (set_threads st1 ((mkFrame (f_kind fr) body tm place :: below) :: (fr1 :: below) :: others))
                  | None => fail here (T "other")
                  end
              | SIf brs els =>
                  match pick_branch f tm here brs els with
                  | RErr k => lift here (RErr k)
                  | ROk (b, st1) =>
                      run f (set_threads st1 ((with_cont fr (b ++ newline_stmt :: rest) :: below) :: others))
                  end
              | SSeq k id alts =>
                  let n := match nlookup id (st_seqs st) with Some n => n | None => O end in
                  let st' := set_seqs here (nupsert id (S n) (st_seqs st)) in
                  match seq_pick k n (length alts) with
                  | Some i =>
                      run f (set_threads st' ((with_cont fr (newline_stmt :: nth i alts [] ++ newline_stmt :: rest) :: below) :: others))
                  | None =>
                      match k with
                      | SeqShuffle => fail here (T "other")
                      | _ => run f (set_threads st' ((with_cont fr (newline_stmt :: rest) :: below) :: others))
                      end
                  end
              | SChoices chs =>
                  (* the choices remember the stack as it is after the group; the flow itself stops here *)
                  match gen_choices f here (fr1 :: below) tm chs with
                  | RErr k => lift here (RErr k)
                  | ROk st1 => run f (set_threads st1 ((with_cont fr [] :: below) :: others))
                  end
              | SGather l =>
                  match l with
                  | Some lab => run f (visit (qualify (f_place fr) lab) here)
                  | None => run f here
                  end
              end
          end
        end
      end
    | _ => st
    end
  end.

End Eval.

(* ------------------------------------------------------------------ playing *)
Definition literal_val (e : expr) : val :=
  match e with EInt z => VI z | EBool b => VB b | EStr s => VS s | _ => VVoid end.

Definition initial (p : program) : state :=
  mkState (map (fun g => (fst g, literal_val (snd g))) (p_globals p)) [] [] [] 0%Z [] []
          [[mkFrame FMain (p_top p ++ [SDivert TDone]) [] []]] [] out_empty false Running.

Definition visible_choices (st : state) : list pchoice :=
  filter (fun c => negb (pc_invisible c)) (st_choices st).

(* a segment: run to the next choice point; the unfinished line is delivered; the output of the
   segment is then cleared by [next_segment] *)
Definition settle (st : state) : state :=
  match st_status st with
  | Failed _ => st
  | _ => set_out st (flush (st_out st))
  end.
Definition play_segment (fuel : nat) (p : program) (st : state) : state := settle (run p fuel st).

Definition choose (st : state) (i : nat) : option state :=
  match st_status st with
  | Waiting =>
      match nth_error (visible_choices st) i with
      | Some pc => Some (take_choice (set_out st out_empty) pc true)
      | None => None
      end
  | _ => None
  end.

(* play along a path of choice indices; None = the path does not exist *)
Fixpoint play (fuel : nat) (p : program) (st : state) (path : list nat) : option state :=
  let st1 := play_segment fuel p st in
  match path with
  | [] => Some st1
  | i :: r => match choose st1 i with Some st2 => play fuel p st2 r | None => None end
  end.

(* ------------------------------------------------------------------ transcript *)
Definition show_tags (l : list text) : text := T "[" ++ join_with [44] (map quote_text l) ++ T "]".
Definition show_path (pa : list nat) : text :=
  T "[" ++ join_with (T ", ") (map (fun i => show_N (N.of_nat i)) pa) ++ T "]".
Definition show_gval (v : val) : text :=
  match v with
  | VI z => T "i:" ++ show_Z z
  | VB b => T "b:" ++ (if b then T "true" else T "false")
  | VS s => T "s:" ++ s
  | VVoid => T "void"
  end.
Definition show_status (st : state) : text :=
  match st_status st with
  | Waiting => T "choices"
  | Finished => T "end"
  | Failed k => T "error:" ++ k
  | Running => T "running"
  end.

(* lines of one explored node: L text tags / C text tags / S status / G globals / V visits *)
Definition node_lines (st : state) (pa : list nat) (counts : list text) : list text :=
  [T "PATH " ++ show_path pa]
  ++ map (fun l => T "L " ++ quote_text (fst l) ++ [c_space] ++ show_tags (snd l)) (rev (o_lines (st_out st)))
  ++ map (fun c => T "C " ++ quote_text (pc_text c) ++ [c_space] ++ show_tags (pc_tags c))
         (match st_status st with Waiting => visible_choices st | _ => [] end)
  ++ [T "S " ++ show_status st]
  ++ [T "G " ++ join_with [c_space] (map (fun g => fst g ++ [61] ++ quote_text (show_gval (snd g))) (st_globals st))]
  ++ [T "V " ++ join_with [c_space] (map (fun n => n ++ [61] ++ show_Z (zcount n (st_visits st))) counts)].

(* depth-first over all choice paths, same order and budget discipline as the harness *)
Fixpoint explore (fuel : nat) (p : program) (counts : list text) (depth : nat) (st : state) (pa : list nat)
                 (budget : nat) (acc : list text) : nat * list text :=
  match budget with
  | O => (O, acc ++ [T "PATH " ++ show_path pa; T "S budget"])
  | S b =>
      let st1 := play_segment fuel p st in
      let acc1 := acc ++ node_lines st1 pa counts in
      match depth with
      | O => (b, acc1)
      | S d =>
          (fix children (i : nat) (k : nat) (budget : nat) (acc : list text) {struct k} : nat * list text :=
             match k with
             | O => (budget, acc)
             | S k' =>
                 match choose st1 i with
                 | Some st2 =>
                     let '(b', acc') := explore fuel p counts d st2 (pa ++ [i]) budget acc in
                     children (S i) k' b' acc'
                 | None => (budget, acc)
                 end
             end) O (match st_status st1 with Waiting => length (visible_choices st1) | _ => O end) b acc1
      end
  end.

Definition explore_program (fuel : nat) (p : program) (counts : list text) (depth budget : nat) : text :=
  join_with [c_nl] (snd (explore fuel p counts depth (initial p) [] budget [])).
