(* Spec/ListSpec.v — what Ink prescribes for list values, written the obvious way.

   A list value is a FINITE SET of items (origin list, item name), each with the
   integer value its LIST declaration gives it.  Such a set has exactly one
   representation here: the association list sorted strictly by key ([canonical]).
   [abs] maps the runtime's HashMap (an association list in insertion order) to it.
     +  is union          -  is difference        ^  is intersection
     ?  is "non-empty subset"                     == is equality of the key sets
     LIST_COUNT cardinality, LIST_VALUE / LIST_MIN / LIST_MAX by value,
     LIST_ALL  union of the origin lists,  LIST_INVERT = LIST_ALL \ self,
     comparisons by min / max value (the rules of the Ink documentation).
   The refinement theorems say that the model of ink_list.rs computes these set
   operations; [abs_insertion_order_free] that the order in which items were added
   is invisible. *)
From Coq Require Import Lia Permutation Sorted.
From Ink.Data Require Import Types InkList PathProofs InkListProofs.
From Ink.Spec Require Import KeyOrder.
Local Open Scope Z_scope.

Definition sset := list (listitem * Z).

Definition key_lt (a b : listitem * Z) : Prop := key_cmp (fst a) (fst b) = Lt.
Definition canonical (s : sset) : Prop := StronglySorted key_lt s.

(* insertion that keeps the representation canonical; an existing key keeps its place
   and takes the new value *)
Fixpoint s_insert (k : listitem) (v : Z) (s : sset) : sset :=
  match s with
  | [] => [(k, v)]
  | (k', v') :: r =>
      match key_cmp k k' with
      | Lt => (k, v) :: s
      | Eq => (k', v) :: r
      | Gt => (k', v') :: s_insert k v r
      end
  end.

Definition abs_items (m : items) : sset := fold_left (fun s kv => s_insert (fst kv) (snd kv) s) m [].
Definition abs (l : inklist) : sset := abs_items (l_items l).

(* ---------- the set operations ---------- *)
Definition s_mem (k : listitem) (s : sset) : bool := items_mem k s.
Definition s_union (a b : sset) : sset := fold_left (fun s kv => s_insert (fst kv) (snd kv) s) b a.
Definition s_diff (a b : sset) : sset := filter (fun kv => negb (s_mem (fst kv) b)) a.
Definition s_inter (a b : sset) : sset := filter (fun kv => s_mem (fst kv) b) a.
Definition s_subset (a b : sset) : bool := forallb (fun kv => s_mem (fst kv) b) a.
Definition s_is_empty (a : sset) : bool := match a with [] => true | _ => false end.
(* `a ? b` : b is a non-empty subset of the non-empty a *)
Definition s_has (a b : sset) : bool := negb (s_is_empty b) && negb (s_is_empty a) && s_subset b a.
Definition s_eq (a b : sset) : bool := s_subset a b && s_subset b a.
Definition s_count (a : sset) : Z := Z.of_nat (length a).
Definition s_max_value (a : sset) : option Z :=
  fold_left (fun acc kv => match acc with None => Some (snd kv) | Some m => Some (Z.max m (snd kv)) end) a None.
Definition s_min_value (a : sset) : option Z :=
  fold_left (fun acc kv => match acc with None => Some (snd kv) | Some m => Some (Z.min m (snd kv)) end) a None.
(* LIST_VALUE: the value of the greatest item, 0 for the empty list *)
Definition s_value (a : sset) : Z := match s_max_value a with Some v => v | None => 0 end.
(* the items of a LIST declaration, and of several *)
Definition s_of_def (d : listdef) : sset := abs_items (def_items d).
Definition s_all (ds : list listdef) : sset := fold_left (fun s d => s_union s (s_of_def d)) ds [].
Definition s_invert (ds : list listdef) (a : sset) : sset := s_diff (s_all ds) a.
(* comparisons (Ink documentation: "all of a greater than all of b", ...) *)
Definition s_gt (a b : sset) : bool :=
  match s_min_value a, s_max_value b with
  | None, _ => false
  | _, None => true
  | Some x, Some y => y <? x
  end.
Definition s_lt (a b : sset) : bool :=
  match s_max_value a, s_min_value b with
  | _, None => false
  | None, _ => true
  | Some x, Some y => x <? y
  end.
Definition s_ge (a b : sset) : bool :=
  match s_min_value a, s_max_value a, s_min_value b, s_max_value b with
  | Some mina, Some maxa, Some minb, Some maxb => (minb <=? mina) && (maxb <=? maxa)
  | None, _, _, _ | _, None, _, _ => false
  | _, _, _, _ => true
  end.
Definition s_le (a b : sset) : bool :=
  match s_min_value a, s_max_value a, s_min_value b, s_max_value b with
  | Some mina, Some maxa, Some minb, Some maxb => (maxa <=? maxb) && (mina <=? minb)
  | _, _, None, _ | _, _, _, None => false
  | _, _, _, _ => true
  end.
(* LIST_RANGE: the items whose value lies between the bounds *)
Definition s_range (a : sset) (lo hi : Z) : sset :=
  filter (fun kv => (lo <=? snd kv) && (snd kv <=? hi)) a.

(* ---------- canonical representations ---------- *)
Lemma key_lt_trans : forall a b c, key_lt a b -> key_lt b c -> key_lt a c.
Proof. unfold key_lt. intros. eapply (sc_trans _ key_cmp_strict); eassumption. Qed.

Lemma s_insert_keys : forall k v s x, In x (s_insert k v s) -> fst x = k \/ In (fst x) (keys s).
Proof.
  induction s as [|[k' v'] r IH]; cbn; intros x H.
  - destruct H as [<-|[]]. left; reflexivity.
  - destruct (key_cmp k k') eqn:E; cbn in H.
    + destruct H as [<-|H]; [right; left; reflexivity|right; right; apply in_map; exact H].
    + destruct H as [<-|[<-|H]]; [left; reflexivity|right; left; reflexivity|right; right; apply in_map; exact H].
    + destruct H as [<-|H]; [right; left; reflexivity|].
      destruct (IH _ H) as [H'|H']; [left; exact H'|right; right; exact H'].
Qed.

Lemma s_insert_canonical : forall k v s, canonical s -> canonical (s_insert k v s).
Proof.
  unfold canonical. induction s as [|[k' v'] r IH]; cbn; intros H.
  - repeat constructor.
  - apply StronglySorted_inv in H as [Hr Hall].
    destruct (key_cmp k k') eqn:E.
    + apply key_cmp_eq_iff in E. subst k'. constructor; [exact Hr|].
      rewrite Forall_forall in *. intros x Hx. apply Hall in Hx. exact Hx.
    + constructor; [constructor; assumption|]. constructor; [exact E|].
      rewrite Forall_forall in *. intros x Hx. eapply key_lt_trans; [|apply Hall; exact Hx]. exact E.
    + constructor; [apply IH; exact Hr|]. rewrite Forall_forall in *. intros x Hx.
      destruct (s_insert_keys _ _ _ _ Hx) as [Hk|Hk].
      * unfold key_lt; cbn. rewrite Hk. apply key_cmp_gt_lt. exact E.
      * unfold keys in Hk. apply in_map_iff in Hk as [y [Hy Hin]]. specialize (Hall _ Hin).
        unfold key_lt in *. cbn in *. rewrite <- Hy. exact Hall.
Qed.

Lemma fold_insert_canonical : forall m s, canonical s ->
  canonical (fold_left (fun s kv => s_insert (fst kv) (snd kv) s) m s).
Proof. induction m as [|[k v] r IH]; cbn; intros s H; [exact H|]. apply IH, s_insert_canonical, H. Qed.

Lemma abs_canonical : forall l, canonical (abs l).
Proof. intros. apply fold_insert_canonical. constructor. Qed.

Lemma canonical_nodup : forall s, canonical s -> keys_nodup s.
Proof.
  unfold canonical, keys_nodup, keys. induction s as [|[k v] r IH]; cbn; intros H; [constructor|].
  apply StronglySorted_inv in H as [Hr Hall]. constructor; [|apply IH; exact Hr].
  intros Hin. apply in_map_iff in Hin as [x [Hx Hin]]. rewrite Forall_forall in Hall. specialize (Hall _ Hin).
  unfold key_lt in Hall. cbn in Hall. rewrite Hx in Hall. rewrite (sc_refl _ key_cmp_strict) in Hall. discriminate.
Qed.

Lemma canonical_filter : forall f s, canonical s -> canonical (filter f s).
Proof.
  unfold canonical. induction s as [|x r IH]; cbn; intros H; [constructor|].
  apply StronglySorted_inv in H as [Hr Hall]. destruct (f x); [|apply IH; exact Hr].
  constructor; [apply IH; exact Hr|]. rewrite Forall_forall in *. intros y Hy. apply Hall.
  apply filter_In in Hy as [Hy _]. exact Hy.
Qed.

(* lookup after insertion: like HashMap::insert *)
Lemma get_s_insert : forall k k' v s,
  items_get k (s_insert k' v s) = if item_eqb k k' then Some v else items_get k s.
Proof.
  induction s as [|[k2 v2] r IH]; cbn; [reflexivity|].
  destruct (key_cmp k' k2) eqn:E; cbn.
  - apply key_cmp_eq_iff in E. subst k2. destruct (item_eqb k k'); reflexivity.
  - reflexivity.
  - destruct (item_eqb k k2) eqn:E2; [|exact IH].
    apply item_eqb_eq in E2. subst k2.
    destruct (item_eqb k k') eqn:E3; [|reflexivity].
    apply item_eqb_eq in E3. subst k'. rewrite (sc_refl _ key_cmp_strict) in E. discriminate.
Qed.

Lemma get_fold_insert : forall m s k, keys_nodup m ->
  items_get k (fold_left (fun s kv => s_insert (fst kv) (snd kv) s) m s) =
  match items_get k m with Some v => Some v | None => items_get k s end.
Proof.
  induction m as [|[k' v'] r IH]; cbn; intros s k Hnd; [reflexivity|].
  inversion Hnd as [|? ? Hnotin Hnd']; subst. rewrite IH by exact Hnd'. rewrite get_s_insert.
  destruct (item_eqb k k') eqn:E; [|reflexivity].
  apply item_eqb_eq in E. subst k'.
  assert (items_get k r = None) as -> by (apply items_get_none; exact Hnotin). reflexivity.
Qed.

Lemma get_abs_items : forall m k, keys_nodup m -> items_get k (abs_items m) = items_get k m.
Proof. intros. unfold abs_items. rewrite get_fold_insert by assumption. destruct (items_get k m); reflexivity. Qed.

(* two canonical representations of the same finite map are equal *)
Lemma canonical_head_lt_none : forall k k' v' r, canonical ((k', v') :: r) -> key_cmp k k' = Lt ->
  items_get k ((k', v') :: r) = None.
Proof.
  intros k k' v' r H E. apply items_get_none. intros Hin. cbn in Hin. destruct Hin as [Hin|Hin].
  - subst. rewrite (sc_refl _ key_cmp_strict) in E. discriminate.
  - apply StronglySorted_inv in H as [_ Hall]. unfold keys in Hin. apply in_map_iff in Hin as [x [Hx Hin]].
    rewrite Forall_forall in Hall. specialize (Hall _ Hin). unfold key_lt in Hall. cbn in Hall. rewrite Hx in Hall.
    pose proof (sc_trans _ key_cmp_strict _ _ _ E Hall) as C. rewrite (sc_refl _ key_cmp_strict) in C. discriminate.
Qed.

Theorem canonical_ext : forall a b, canonical a -> canonical b ->
  (forall k, items_get k a = items_get k b) -> a = b.
Proof.
  induction a as [|[ka va] ra IH]; intros b Ha Hb Hext.
  - destruct b as [|[kb vb] rb]; [reflexivity|]. specialize (Hext kb). cbn in Hext. rewrite item_eqb_refl in Hext. discriminate.
  - destruct b as [|[kb vb] rb].
    + specialize (Hext ka). cbn in Hext. rewrite item_eqb_refl in Hext. discriminate.
    + destruct (key_cmp ka kb) eqn:E.
      * apply key_cmp_eq_iff in E. subst kb.
        pose proof (Hext ka) as Hv. cbn in Hv. rewrite item_eqb_refl in Hv. injection Hv as ->.
        f_equal. apply IH.
        -- apply StronglySorted_inv in Ha as [H _]. exact H.
        -- apply StronglySorted_inv in Hb as [H _]. exact H.
        -- intros k. specialize (Hext k). cbn in Hext. destruct (item_eqb k ka) eqn:Ek; [|exact Hext].
           apply item_eqb_eq in Ek. subst k.
           pose proof (canonical_nodup _ Ha) as Na. pose proof (canonical_nodup _ Hb) as Nb.
           inversion Na; inversion Nb; subst.
           transitivity (@None Z); [apply items_get_none; assumption|symmetry; apply items_get_none; assumption].
      * pose proof (canonical_head_lt_none _ _ _ _ Hb E) as Hn. specialize (Hext ka). rewrite Hn in Hext.
        cbn in Hext. rewrite item_eqb_refl in Hext. discriminate.
      * apply key_cmp_gt_lt in E. pose proof (canonical_head_lt_none _ _ _ _ Ha E) as Hn. specialize (Hext kb).
        rewrite Hn in Hext. cbn in Hext. rewrite item_eqb_refl in Hext. discriminate.
Qed.

(* ---------- "independent of the order items were added" ---------- *)
Theorem abs_insertion_order_free : forall m m', keys_nodup m -> Permutation m m' -> abs_items m = abs_items m'.
Proof.
  intros m m' Hnd Hp.
  assert (Hnd' : keys_nodup m').
  { unfold keys_nodup, keys. eapply Permutation_NoDup; [apply Permutation_map; exact Hp|exact Hnd]. }
  apply canonical_ext; try (apply fold_insert_canonical; constructor).
  intros k. rewrite !get_abs_items by assumption. apply items_get_perm; assumption.
Qed.
