(* Spec/ListSpec.v — what Ink prescribes for list values, written the obvious way.

   A list value is a FINITE SET of items (origin list, item name), each with the
   integer value its LIST declaration gives it.  Such a set has exactly one
   representation here: the association list sorted strictly by key ([canonical]).
   [abs] maps the runtime's HashMap (an association list in insertion order) to it.
     +  is union          -  is difference        ^  is intersection
     ?  is "non-empty subset"                     == is equality of the key sets
     LIST_COUNT cardinality, LIST_VALUE / LIST_MIN / LIST_MAX by value,
     LIST_ALL  union of the origin lists,  LIST_INVERT = LIST_ALL \ self,
     comparisons by min / max value (the rules of the Ink documentation).
   The refinement theorems say that the model of ink_list.rs computes these set
   operations; [abs_insertion_order_free] that the order in which items were added
   is invisible. *)
From Coq Require Import Lia Permutation Sorted.
From Ink.Data Require Import Types InkList PathProofs InkListProofs.
From Ink.Spec Require Import KeyOrder.
Local Open Scope Z_scope.

Definition sset := list (listitem * Z).

Definition key_lt (a b : listitem * Z) : Prop := key_cmp (fst a) (fst b) = Lt.
Definition canonical (s : sset) : Prop := StronglySorted key_lt s.

(* insertion that keeps the representation canonical; an existing key keeps its place
   and takes the new value *)
Fixpoint s_insert (k : listitem) (v : Z) (s : sset) : sset :=
  match s with
  | [] => [(k, v)]
  | (k', v') :: r =>
      match key_cmp k k' with
      | Lt => (k, v) :: s
      | Eq => (k', v) :: r
      | Gt => (k', v') :: s_insert k v r
      end
  end.

Definition abs_items (m : items) : sset := fold_left (fun s kv => s_insert (fst kv) (snd kv) s) m [].
Definition abs (l : inklist) : sset := abs_items (l_items l).

(* ---------- the set operations ---------- *)
Definition s_mem (k : listitem) (s : sset) : bool := items_mem k s.
Definition s_union (a b : sset) : sset := fold_left (fun s kv => s_insert (fst kv) (snd kv) s) b a.
Definition s_diff (a b : sset) : sset := filter (fun kv => negb (s_mem (fst kv) b)) a.
Definition s_inter (a b : sset) : sset := filter (fun kv => s_mem (fst kv) b) a.
Definition s_subset (a b : sset) : bool := forallb (fun kv => s_mem (fst kv) b) a.
Definition s_is_empty (a : sset) : bool := match a with [] => true | _ => false end.
(* `a ? b` : b is a non-empty subset of the non-empty a *)
Definition s_has (a b : sset) : bool := negb (s_is_empty b) && negb (s_is_empty a) && s_subset b a.
Definition s_eq (a b : sset) : bool := s_subset a b && s_subset b a.
Definition s_count (a : sset) : Z := Z.of_nat (length a).
Definition s_max_value (a : sset) : option Z :=
  fold_left (fun acc kv => match acc with None => Some (snd kv) | Some m => Some (Z.max m (snd kv)) end) a None.
Definition s_min_value (a : sset) : option Z :=
  fold_left (fun acc kv => match acc with None => Some (snd kv) | Some m => Some (Z.min m (snd kv)) end) a None.
(* LIST_VALUE: the value of the greatest item, 0 for the empty list *)
Definition s_value (a : sset) : Z := match s_max_value a with Some v => v | None => 0 end.
(* the items of a LIST declaration, and of several *)
Definition s_of_def (d : listdef) : sset := abs_items (def_items d).
Definition s_all (ds : list listdef) : sset := fold_left (fun s d => s_union s (s_of_def d)) ds [].
Definition s_invert (ds : list listdef) (a : sset) : sset := s_diff (s_all ds) a.
(* comparisons (Ink documentation: "all of a greater than all of b", ...) *)
Definition s_gt (a b : sset) : bool :=
  match s_min_value a, s_max_value b with
  | None, _ => false
  | _, None => true
  | Some x, Some y => y <? x
  end.
Definition s_lt (a b : sset) : bool :=
  match s_max_value a, s_min_value b with
  | _, None => false
  | None, _ => true
  | Some x, Some y => x <? y
  end.
Definition s_ge (a b : sset) : bool :=
  match s_min_value a, s_max_value a, s_min_value b, s_max_value b with
  | Some mina, Some maxa, Some minb, Some maxb => (minb <=? mina) && (maxb <=? maxa)
  | None, _, _, _ | _, None, _, _ => false
  | _, _, _, _ => true
  end.
Definition s_le (a b : sset) : bool :=
  match s_min_value a, s_max_value a, s_min_value b, s_max_value b with
  | Some mina, Some maxa, Some minb, Some maxb => (maxa <=? maxb) && (mina <=? minb)
  | _, _, None, _ | _, _, _, None => false
  | _, _, _, _ => true
  end.
(* LIST_RANGE: the items whose value lies between the bounds *)
Definition s_range (a : sset) (lo hi : Z) : sset :=
  filter (fun kv => (lo <=? snd kv) && (snd kv <=? hi)) a.

(* LIST_RANGE(list, lo, hi) where a bound is an int or a list.  A list bound stands for
   a value: the LOWER bound for the smallest value of the bound list, the UPPER bound
   for its greatest value.  An empty bound list leaves that side open (0 below,
   the greatest int above), as the reference runtime's ListWithSubRange does. *)
Inductive sbound := BInt (z : Z) | BList (s : sset).
Definition s_lower (b : sbound) : Z :=
  match b with
  | BInt z => z
  | BList s => match s_min_value s with Some v => v | None => 0 end
  end.
Definition s_upper (b : sbound) : Z :=
  match b with
  | BInt z => z
  | BList s => match s_max_value s with Some v => v | None => i32_max end
  end.
Definition s_range_b (a : sset) (lo hi : sbound) : sset := s_range a (s_lower lo) (s_upper hi).

(* LIST_MIN / LIST_MAX: the one-item list of the item with the smallest / greatest value.
   Several items can share that value (items of different declarations, or a declaration
   that repeats a value); the total order (value, origin name, item name) decides: the
   set is kept sorted by (origin name, item name), so the least such entry is the FIRST
   item with the smallest value and the greatest one the LAST item with the greatest value. *)
Definition s_min_item (a : sset) : option (listitem * Z) :=
  match s_min_value a with
  | Some m => find (fun kv => snd kv =? m) a
  | None => None
  end.
Definition s_max_item (a : sset) : option (listitem * Z) :=
  match s_max_value a with
  | Some m => find (fun kv => snd kv =? m) (rev a)
  | None => None
  end.
Definition s_single (o : option (listitem * Z)) : sset :=
  match o with Some kv => [kv] | None => [] end.
Definition s_min_list (a : sset) : sset := s_single (s_min_item a).
Definition s_max_list (a : sset) : sset := s_single (s_max_item a).

(* the item of a declaration with a given value; when the declaration gives that value
   to several items, the one with the smallest name *)
Definition s_item_with_value (d : listdef) (v : Z) : option listitem :=
  match sort_by text_cmp (map fst (filter (fun nv : text * Z => snd nv =? v) (snd d))) with
  | nm :: _ => Some (mkItem (Some (fst d)) nm)
  | [] => None
  end.
Definition s_find_def (ds : list listdef) (name : text) : option listdef :=
  find (fun d : listdef => text_eqb (fst d) name) ds.

(* list + n / list - n: every item is replaced by the item of the SAME declaration whose
   value is the item's value shifted by [delta] (32-bit integer arithmetic); an item
   without such a neighbour is dropped *)
Definition s_shift_item (ds : list listdef) (delta : Z) (kv : listitem * Z) : option (listitem * Z) :=
  match it_origin (fst kv) with
  | None => None
  | Some o =>
      match s_find_def ds o with
      | None => None
      | Some d =>
          let t := wrap32 (snd kv + delta) in
          match s_item_with_value d t with
          | Some k' => Some (k', t)
          | None => None
          end
      end
  end.
Definition s_shift (ds : list listdef) (a : sset) (delta : Z) : sset :=
  fold_left (fun s kv => match s_shift_item ds delta kv with
                         | Some (k', t) => s_insert k' t s
                         | None => s
                         end) a [].

(* ListName(n): the one-item list of the item of LIST ListName with value n; empty when
   no item has that value; no result at all when there is no such LIST *)
Definition s_from_int (ds : list listdef) (name : text) (n : Z) : option sset :=
  match s_find_def ds name with
  | None => None
  | Some d => Some (match s_item_with_value d n with Some k => [(k, n)] | None => [] end)
  end.

(* ---------- canonical representations ---------- *)
Lemma key_lt_trans : forall a b c, key_lt a b -> key_lt b c -> key_lt a c.
Proof. unfold key_lt. intros. eapply (sc_trans _ key_cmp_strict); eassumption. Qed.

Lemma s_insert_keys : forall k v s x, In x (s_insert k v s) -> fst x = k \/ In (fst x) (keys s).
Proof.
  induction s as [|[k' v'] r IH]; cbn; intros x H.
  - destruct H as [<-|[]]. left; reflexivity.
  - destruct (key_cmp k k') eqn:E; cbn in H.
    + destruct H as [<-|H]; [right; left; reflexivity|right; right; apply in_map; exact H].
    + destruct H as [<-|[<-|H]]; [left; reflexivity|right; left; reflexivity|right; right; apply in_map; exact H].
    + destruct H as [<-|H]; [right; left; reflexivity|].
      destruct (IH _ H) as [H'|H']; [left; exact H'|right; right; exact H'].
Qed.

Lemma s_insert_canonical : forall k v s, canonical s -> canonical (s_insert k v s).
Proof.
  unfold canonical. induction s as [|[k' v'] r IH]; cbn; intros H.
  - repeat constructor.
  - apply StronglySorted_inv in H as [Hr Hall].
    destruct (key_cmp k k') eqn:E.
    + apply key_cmp_eq_iff in E. subst k'. constructor; [exact Hr|].
      rewrite Forall_forall in *. intros x Hx. apply Hall in Hx. exact Hx.
    + constructor; [constructor; assumption|]. constructor; [exact E|].
      rewrite Forall_forall in *. intros x Hx. eapply key_lt_trans; [|apply Hall; exact Hx]. exact E.
    + constructor; [apply IH; exact Hr|]. rewrite Forall_forall in *. intros x Hx.
      destruct (s_insert_keys _ _ _ _ Hx) as [Hk|Hk].
      * unfold key_lt; cbn. rewrite Hk. apply key_cmp_gt_lt. exact E.
      * unfold keys in Hk. apply in_map_iff in Hk as [y [Hy Hin]]. specialize (Hall _ Hin).
        unfold key_lt in *. cbn in *. rewrite <- Hy. exact Hall.
Qed.

Lemma fold_insert_canonical : forall m s, canonical s ->
  canonical (fold_left (fun s kv => s_insert (fst kv) (snd kv) s) m s).
Proof. induction m as [|[k v] r IH]; cbn; intros s H; [exact H|]. apply IH, s_insert_canonical, H. Qed.

Lemma abs_items_canonical : forall m, canonical (abs_items m).
Proof. intros. apply fold_insert_canonical. constructor. Qed.
Lemma abs_canonical : forall l, canonical (abs l).
Proof. intros. apply abs_items_canonical. Qed.

Lemma canonical_nodup : forall s, canonical s -> keys_nodup s.
Proof.
  unfold canonical, keys_nodup, keys. induction s as [|[k v] r IH]; cbn; intros H; [constructor|].
  apply StronglySorted_inv in H as [Hr Hall]. constructor; [|apply IH; exact Hr].
  intros Hin. apply in_map_iff in Hin as [x [Hx Hin]]. rewrite Forall_forall in Hall. specialize (Hall _ Hin).
  unfold key_lt in Hall. cbn in Hall. rewrite Hx in Hall. rewrite (sc_refl _ key_cmp_strict) in Hall. discriminate.
Qed.

Lemma canonical_filter : forall f s, canonical s -> canonical (filter f s).
Proof.
  unfold canonical. induction s as [|x r IH]; cbn; intros H; [constructor|].
  apply StronglySorted_inv in H as [Hr Hall]. destruct (f x); [|apply IH; exact Hr].
  constructor; [apply IH; exact Hr|]. rewrite Forall_forall in *. intros y Hy. apply Hall.
  apply filter_In in Hy as [Hy _]. exact Hy.
Qed.

(* lookup after insertion: like HashMap::insert *)
Lemma get_s_insert : forall k k' v s,
  items_get k (s_insert k' v s) = if item_eqb k k' then Some v else items_get k s.
Proof.
  induction s as [|[k2 v2] r IH]; cbn; [reflexivity|].
  destruct (key_cmp k' k2) eqn:E; cbn.
  - apply key_cmp_eq_iff in E. subst k2. destruct (item_eqb k k'); reflexivity.
  - reflexivity.
  - destruct (item_eqb k k2) eqn:E2; [|exact IH].
    apply item_eqb_eq in E2. subst k2.
    destruct (item_eqb k k') eqn:E3; [|reflexivity].
    apply item_eqb_eq in E3. subst k'. rewrite (sc_refl _ key_cmp_strict) in E. discriminate.
Qed.

Lemma get_fold_insert : forall m s k, keys_nodup m ->
  items_get k (fold_left (fun s kv => s_insert (fst kv) (snd kv) s) m s) =
  match items_get k m with Some v => Some v | None => items_get k s end.
Proof.
  induction m as [|[k' v'] r IH]; cbn; intros s k Hnd; [reflexivity|].
  inversion Hnd as [|? ? Hnotin Hnd']; subst. rewrite IH by exact Hnd'. rewrite get_s_insert.
  destruct (item_eqb k k') eqn:E; [|reflexivity].
  apply item_eqb_eq in E. subst k'.
  assert (items_get k r = None) as -> by (apply items_get_none; exact Hnotin). reflexivity.
Qed.

Lemma get_abs_items : forall m k, keys_nodup m -> items_get k (abs_items m) = items_get k m.
Proof. intros. unfold abs_items. rewrite get_fold_insert by assumption. destruct (items_get k m); reflexivity. Qed.

(* two canonical representations of the same finite map are equal *)
Lemma canonical_head_lt_none : forall k k' v' r, canonical ((k', v') :: r) -> key_cmp k k' = Lt ->
  items_get k ((k', v') :: r) = None.
Proof.
  intros k k' v' r H E. apply items_get_none. intros Hin. cbn in Hin. destruct Hin as [Hin|Hin].
  - subst. rewrite (sc_refl _ key_cmp_strict) in E. discriminate.
  - apply StronglySorted_inv in H as [_ Hall]. unfold keys in Hin. apply in_map_iff in Hin as [x [Hx Hin]].
    rewrite Forall_forall in Hall. specialize (Hall _ Hin). unfold key_lt in Hall. cbn in Hall. rewrite Hx in Hall.
    pose proof (sc_trans _ key_cmp_strict _ _ _ E Hall) as C. rewrite (sc_refl _ key_cmp_strict) in C. discriminate.
Qed.

Theorem canonical_ext : forall a b, canonical a -> canonical b ->
  (forall k, items_get k a = items_get k b) -> a = b.
Proof.
  induction a as [|[ka va] ra IH]; intros b Ha Hb Hext.
  - destruct b as [|[kb vb] rb]; [reflexivity|]. specialize (Hext kb). cbn in Hext. rewrite item_eqb_refl in Hext. discriminate.
  - destruct b as [|[kb vb] rb].
    + specialize (Hext ka). cbn in Hext. rewrite item_eqb_refl in Hext. discriminate.
    + destruct (key_cmp ka kb) eqn:E.
      * apply key_cmp_eq_iff in E. subst kb.
        pose proof (Hext ka) as Hv. cbn in Hv. rewrite item_eqb_refl in Hv. injection Hv as ->.
        f_equal. apply IH.
        -- apply StronglySorted_inv in Ha as [H _]. exact H.
        -- apply StronglySorted_inv in Hb as [H _]. exact H.
        -- intros k. specialize (Hext k). cbn in Hext. destruct (item_eqb k ka) eqn:Ek; [|exact Hext].
           apply item_eqb_eq in Ek. subst k.
           pose proof (canonical_nodup _ Ha) as Na. pose proof (canonical_nodup _ Hb) as Nb.
           inversion Na; inversion Nb; subst.
           transitivity (@None Z); [apply items_get_none; assumption|symmetry; apply items_get_none; assumption].
      * pose proof (canonical_head_lt_none _ _ _ _ Hb E) as Hn. specialize (Hext ka). rewrite Hn in Hext.
        cbn in Hext. rewrite item_eqb_refl in Hext. discriminate.
      * apply key_cmp_gt_lt in E. pose proof (canonical_head_lt_none _ _ _ _ Ha E) as Hn. specialize (Hext kb).
        rewrite Hn in Hext. cbn in Hext. rewrite item_eqb_refl in Hext. discriminate.
Qed.

(* ---------- "independent of the order items were added" ---------- *)
Theorem abs_insertion_order_free : forall m m', keys_nodup m -> Permutation m m' -> abs_items m = abs_items m'.
Proof.
  intros m m' Hnd Hp.
  assert (Hnd' : keys_nodup m').
  { unfold keys_nodup, keys. eapply Permutation_NoDup; [apply Permutation_map; exact Hp|exact Hnd]. }
  apply canonical_ext; try (apply fold_insert_canonical; constructor).
  intros k. rewrite !get_abs_items by assumption. apply items_get_perm; assumption.
Qed.

(* ---------- abs is a rearrangement of the map ---------- *)
Lemma s_insert_perm : forall k v s, ~ In k (keys s) -> Permutation (s_insert k v s) ((k, v) :: s).
Proof.
  induction s as [|[k' v'] r IH]; cbn; intros Hn; [apply Permutation_refl|].
  destruct (key_cmp k k') eqn:E.
  - apply key_cmp_eq_iff in E. subst. exfalso. apply Hn. left; reflexivity.
  - apply Permutation_refl.
  - eapply perm_trans; [apply perm_skip, IH; intros H; apply Hn; right; exact H|apply perm_swap].
Qed.

Lemma fold_insert_perm : forall m s, keys_nodup (m ++ s) ->
  Permutation (fold_left (fun s kv => s_insert (fst kv) (snd kv) s) m s) (m ++ s).
Proof.
  induction m as [|[k v] r IH]; cbn; intros s Hnd; [apply Permutation_refl|].
  unfold keys_nodup, keys in Hnd. cbn in Hnd. inversion Hnd as [|? ? Hnotin Hnd']; subst.
  assert (Hk : ~ In k (keys s)).
  { intros H. apply Hnotin. rewrite map_app. apply in_or_app. right. exact H. }
  eapply perm_trans; [apply IH|].
  - unfold keys_nodup, keys.
    apply (Permutation_NoDup (l := map fst ((k, v) :: r ++ s))); [|cbn; exact Hnd].
    apply Permutation_map.
    eapply perm_trans; [apply Permutation_middle|].
    apply Permutation_app_head, Permutation_sym, s_insert_perm, Hk.
  - eapply perm_trans; [apply Permutation_app_head, s_insert_perm, Hk|].
    apply Permutation_sym, Permutation_middle.
Qed.

Lemma abs_items_perm : forall m, keys_nodup m -> Permutation (abs_items m) m.
Proof.
  intros m H. unfold abs_items. eapply perm_trans; [apply fold_insert_perm; rewrite app_nil_r; exact H|].
  rewrite app_nil_r. apply Permutation_refl.
Qed.

Lemma abs_items_nil : forall m, abs_items m = [] <-> m = [].
Proof.
  intros m. split; [|intros ->; reflexivity].
  destruct m as [|[k v] r]; [reflexivity|]. intros H. exfalso.
  assert (G : items_get k (abs_items ((k, v) :: r)) <> None).
  { unfold abs_items. cbn.
    assert (forall m s, items_get k s <> None ->
              items_get k (fold_left (fun s kv => s_insert (fst kv) (snd kv) s) m s) <> None) as F.
    { induction m as [|[k2 v2] r2 IH]; cbn; intros s Hs; [exact Hs|]. apply IH. rewrite get_s_insert.
      destruct (item_eqb k k2); [discriminate|exact Hs]. }
    apply F. cbn. rewrite item_eqb_refl. discriminate. }
  rewrite H in G. apply G. reflexivity.
Qed.

(* ---------- refinement: the model of ink_list.rs computes the set operations ---------- *)
Definition wf_list (l : inklist) : Prop := keys_nodup (l_items l).

Lemma mem_abs : forall m k, keys_nodup m -> s_mem k (abs_items m) = items_mem k m.
Proof. intros. unfold s_mem, items_mem. rewrite get_abs_items by assumption. reflexivity. Qed.

Theorem union_refines : forall cm a b, wf_list a -> wf_list b ->
  abs (list_union cm a b) = s_union (abs a) (abs b).
Proof.
  intros cm a b Ha Hb. unfold abs, s_union. cbn [l_items list_union].
  apply canonical_ext; [apply abs_items_canonical|apply fold_insert_canonical, abs_items_canonical|].
  intros k. rewrite get_abs_items by (apply nodup_insert_all; exact Ha).
  rewrite items_get_insert_all by exact Hb.
  rewrite get_fold_insert by (apply canonical_nodup, abs_items_canonical).
  rewrite !get_abs_items by assumption. reflexivity.
Qed.

Lemma get_fold_remove : forall (b a : items) k, keys_nodup a ->
  items_get k (fold_left (fun (m : items) (kv : listitem * Z) => items_remove (fst kv) m) b a) =
  if items_mem k b then None else items_get k a.
Proof.
  induction b as [|[k' v'] r IH]; cbn; intros a k Hnd; [reflexivity|].
  rewrite IH by (apply nodup_remove; exact Hnd). unfold items_mem. cbn.
  rewrite items_get_remove by exact Hnd.
  destruct (item_eqb k k'); [destruct (items_get k r); reflexivity|reflexivity].
Qed.

Lemma nodup_fold_remove : forall (b a : items), keys_nodup a ->
  keys_nodup (fold_left (fun (m : items) (kv : listitem * Z) => items_remove (fst kv) m) b a).
Proof. induction b as [|x r IH]; cbn; intros a H; [exact H|]. apply IH, nodup_remove, H. Qed.

Theorem without_refines : forall cm a b, wf_list a -> wf_list b ->
  abs (list_without cm a b) = s_diff (abs a) (abs b).
Proof.
  intros cm a b Ha Hb. unfold abs, s_diff. cbn [l_items list_without].
  apply canonical_ext; [apply abs_items_canonical|apply canonical_filter, abs_items_canonical|].
  intros k. rewrite get_abs_items by (apply nodup_fold_remove; exact Ha).
  rewrite get_fold_remove by exact Ha.
  rewrite (items_get_filter (fun key => negb (s_mem key (abs_items (l_items b))))).
  rewrite mem_abs by exact Hb. rewrite get_abs_items by exact Ha.
  destruct (items_mem k (l_items b)); reflexivity.
Qed.

Theorem intersect_refines : forall a b, wf_list a -> wf_list b ->
  abs (list_intersect a b) = s_inter (abs a) (abs b).
Proof.
  intros a b Ha Hb. unfold abs, s_inter. cbn [l_items list_intersect].
  apply canonical_ext; [apply abs_items_canonical|apply canonical_filter, abs_items_canonical|].
  intros k. rewrite get_abs_items by (apply nodup_filter; exact Ha).
  rewrite (items_get_filter (fun key => items_mem key (l_items b))).
  rewrite (items_get_filter (fun key => s_mem key (abs_items (l_items b)))).
  rewrite mem_abs by exact Hb. rewrite get_abs_items by exact Ha. reflexivity.
Qed.

Lemma forallb_perm : forall A (f : A -> bool) l l', Permutation l l' -> forallb f l = forallb f l'.
Proof.
  intros A f l l' H. induction H; cbn; try congruence.
  destruct (f x), (f y); reflexivity.
Qed.

Lemma subset_abs : forall a b, keys_nodup a -> keys_nodup b ->
  s_subset (abs_items b) (abs_items a) = forallb (fun kv => items_mem (fst kv) a) b.
Proof.
  intros a b Ha Hb. unfold s_subset.
  rewrite (forallb_perm _ _ _ _ (abs_items_perm b Hb)).
  induction b as [|x r IH]; cbn; [reflexivity|].
  inversion Hb; subst. rewrite mem_abs by exact Ha. f_equal. apply IH. assumption.
Qed.

Lemma is_empty_abs : forall m, s_is_empty (abs_items m) = items_is_empty m.
Proof.
  intros m. destruct m as [|x r]; [reflexivity|]. cbn [items_is_empty].
  destruct (abs_items (x :: r)) eqn:E; [apply (proj1 (abs_items_nil _)) in E; discriminate E|reflexivity].
Qed.

Theorem contains_refines : forall a b, wf_list a -> wf_list b ->
  list_contains a b = s_has (abs a) (abs b).
Proof.
  intros a b Ha Hb. unfold list_contains, s_has, abs, list_is_empty.
  rewrite !is_empty_abs. rewrite subset_abs by assumption.
  destruct (items_is_empty (l_items b)), (items_is_empty (l_items a)); reflexivity.
Qed.

Theorem count_refines : forall l, wf_list l -> Z.of_nat (length (l_items l)) = s_count (abs l).
Proof.
  intros l H. unfold s_count, abs. f_equal. symmetry. apply Permutation_length, abs_items_perm, H.
Qed.

(* equality: same number of keys and every key of a in b  <->  mutual inclusion *)
Lemma forallb_mem_incl : forall a b, forallb (fun kv => items_mem (fst kv) b) a = true <-> incl (keys a) (keys b).
Proof.
  intros a b. rewrite forallb_forall. unfold incl, keys. split.
  - intros H k Hk. apply in_map_iff in Hk as [x [<- Hx]]. specialize (H _ Hx).
    unfold items_mem in H. destruct (items_get (fst x) b) eqn:E; [|discriminate].
    apply items_get_in in E. apply (in_map fst) in E. exact E.
  - intros H x Hx. unfold items_mem. destruct (items_get (fst x) b) eqn:E; [reflexivity|].
    apply items_get_none in E. exfalso. apply E. apply H. apply in_map. exact Hx.
Qed.

Theorem eq_refines : forall a b, wf_list a -> wf_list b -> list_eqb a b = s_eq (abs a) (abs b).
Proof.
  intros a b Ha Hb. unfold list_eqb, s_eq, abs. rewrite !subset_abs by assumption.
  destruct (forallb (fun kv => items_mem (fst kv) (l_items b)) (l_items a)) eqn:E1.
  - rewrite andb_true_r. cbn [andb]. apply forallb_mem_incl in E1.
    destruct (forallb (fun kv => items_mem (fst kv) (l_items a)) (l_items b)) eqn:E2.
    + apply forallb_mem_incl in E2. apply Nat.eqb_eq.
      apply Nat.le_antisymm.
      * rewrite <- (map_length fst (l_items b)), <- (map_length fst (l_items a)).
        apply NoDup_incl_length; [exact Hb|exact E2].
      * rewrite <- (map_length fst (l_items b)), <- (map_length fst (l_items a)).
        apply NoDup_incl_length; [exact Ha|exact E1].
    + apply Nat.eqb_neq. intros Hlen.
      assert (incl (keys (l_items b)) (keys (l_items a))) as Hincl.
      { apply NoDup_length_incl; [exact Ha| |exact E1].
        unfold keys. rewrite !map_length. rewrite Hlen. apply Nat.le_refl. }
      apply forallb_mem_incl in Hincl. congruence.
  - rewrite andb_false_r. reflexivity.
Qed.

(* ---------- extreme values, LIST_VALUE, the comparisons ---------- *)
Definition smax_step (acc : option Z) (kv : listitem * Z) : option Z :=
  match acc with None => Some (snd kv) | Some m => Some (Z.max m (snd kv)) end.
Definition smin_step (acc : option Z) (kv : listitem * Z) : option Z :=
  match acc with None => Some (snd kv) | Some m => Some (Z.min m (snd kv)) end.

Lemma max_step_values : forall l acc,
  option_map snd (fold_left max_step l acc) = fold_left smax_step l (option_map snd acc).
Proof.
  induction l as [|x r IH]; intros acc; cbn [fold_left]; [reflexivity|]. rewrite IH. f_equal.
  destruct acc as [[k m]|]; cbn; [|reflexivity].
  destruct (m <? snd x) eqn:E; cbn; f_equal; [apply Z.ltb_lt in E|apply Z.ltb_ge in E]; lia.
Qed.
Lemma min_step_values : forall l acc,
  option_map snd (fold_left min_step l acc) = fold_left smin_step l (option_map snd acc).
Proof.
  induction l as [|x r IH]; intros acc; cbn [fold_left]; [reflexivity|]. rewrite IH. f_equal.
  destruct acc as [[k m]|]; cbn; [|reflexivity].
  destruct (snd x <? m) eqn:E; cbn; f_equal; [apply Z.ltb_lt in E|apply Z.ltb_ge in E]; lia.
Qed.

Theorem max_value_refines : forall oo l, ord_ok oo -> wf_list l -> max_value oo l = s_max_value (abs l).
Proof.
  intros oo l Hoo Hwf.
  unfold max_value.
  rewrite (max_value_order_independent_tb tie_break_now TieIteration oo ord_id l (mkList (abs l) [] []) Hoo ord_id_ok
             (Permutation_sym (abs_items_perm _ Hwf))).
  unfold max_value_tb, get_max_item_tb. cbn. apply max_step_values.
Qed.
Theorem min_value_refines : forall oo l, ord_ok oo -> wf_list l -> min_value oo l = s_min_value (abs l).
Proof.
  intros oo l Hoo Hwf.
  unfold min_value.
  rewrite (min_value_order_independent_tb tie_break_now TieIteration oo ord_id l (mkList (abs l) [] []) Hoo ord_id_ok
             (Permutation_sym (abs_items_perm _ Hwf))).
  unfold min_value_tb, get_min_item_tb. cbn. apply min_step_values.
Qed.

Lemma max_value_unfold : forall oo l, max_value oo l = option_map snd (get_max_item oo l).
Proof. reflexivity. Qed.
Lemma min_value_unfold : forall oo l, min_value oo l = option_map snd (get_min_item oo l).
Proof. reflexivity. Qed.

(* LIST_VALUE *)
Theorem value_of_list_refines : forall oo l, ord_ok oo -> wf_list l ->
  match get_max_item oo l with Some (_, m) => m | None => 0 end = s_value (abs l).
Proof.
  intros oo l Hoo Hwf. unfold s_value. rewrite <- (max_value_refines oo l Hoo Hwf). rewrite max_value_unfold.
  destruct (get_max_item oo l) as [[k m]|]; reflexivity.
Qed.

Lemma max_none_empty : forall oo l, ord_ok oo -> (max_value oo l = None <-> list_is_empty l = true).
Proof.
  intros oo l Hoo. rewrite <- (get_max_item_none oo Hoo l). rewrite max_value_unfold.
  destruct (get_max_item oo l); cbn; split; congruence.
Qed.
Lemma min_none_empty : forall oo l, ord_ok oo -> (min_value oo l = None <-> list_is_empty l = true).
Proof.
  intros oo l Hoo. rewrite <- (get_min_item_none oo Hoo l). rewrite min_value_unfold.
  destruct (get_min_item oo l); cbn; split; congruence.
Qed.

Ltac extremes oo a b Hoo Ha Hb :=
  pose proof (max_value_refines oo a Hoo Ha) as Maxa; pose proof (min_value_refines oo a Hoo Ha) as Mina;
  pose proof (max_value_refines oo b Hoo Hb) as Maxb; pose proof (min_value_refines oo b Hoo Hb) as Minb;
  pose proof (max_none_empty oo a Hoo) as Ea; pose proof (min_none_empty oo a Hoo) as Ea';
  pose proof (max_none_empty oo b Hoo) as Eb; pose proof (min_none_empty oo b Hoo) as Eb';
  rewrite ?max_value_unfold, ?min_value_unfold in *;
  destruct (get_max_item oo a) as [[? ?]|], (get_min_item oo a) as [[? ?]|],
           (get_max_item oo b) as [[? ?]|], (get_min_item oo b) as [[? ?]|];
  cbn in Maxa, Mina, Maxb, Minb, Ea, Ea', Eb, Eb';
  rewrite <- ?Maxa, <- ?Mina, <- ?Maxb, <- ?Minb;
  destruct (list_is_empty a), (list_is_empty b);
  try reflexivity;
  try (exfalso;
       repeat match goal with
              | H : (_ = _ <-> _ = _) |- _ =>
                  first [ discriminate (proj1 H eq_refl) | discriminate (proj2 H eq_refl) | clear H ]
              end; fail).

Theorem greater_than_refines : forall oo a b, ord_ok oo -> wf_list a -> wf_list b ->
  list_greater_than oo a b = s_gt (abs a) (abs b).
Proof. intros oo a b Hoo Ha Hb. unfold list_greater_than, s_gt. extremes oo a b Hoo Ha Hb. Qed.
Theorem less_than_refines : forall oo a b, ord_ok oo -> wf_list a -> wf_list b ->
  list_less_than oo a b = s_lt (abs a) (abs b).
Proof. intros oo a b Hoo Ha Hb. unfold list_less_than, s_lt. extremes oo a b Hoo Ha Hb. Qed.
Theorem greater_than_or_equals_refines : forall oo a b, ord_ok oo -> wf_list a -> wf_list b ->
  list_greater_than_or_equals oo a b = s_ge (abs a) (abs b).
Proof. intros oo a b Hoo Ha Hb. unfold list_greater_than_or_equals, s_ge. extremes oo a b Hoo Ha Hb. Qed.
Theorem less_than_or_equals_refines : forall oo a b, ord_ok oo -> wf_list a -> wf_list b ->
  list_less_than_or_equals oo a b = s_le (abs a) (abs b).
Proof. intros oo a b Hoo Ha Hb. unfold list_less_than_or_equals, s_le. extremes oo a b Hoo Ha Hb. Qed.

(* ---------- LIST_ALL / LIST_INVERT ---------- *)
Definition wf_def (d : listdef) : Prop := NoDup (map fst (snd d)).

Lemma def_items_nodup : forall d, wf_def d -> keys_nodup (def_items d).
Proof.
  intros [n its] H. unfold wf_def in H. cbn in H. unfold keys_nodup, keys, def_items. cbn.
  rewrite map_map. cbn. induction its as [|[nm v] r IH]; cbn; [constructor|].
  inversion H as [|? ? Hn Hr]; subst. constructor; [|apply IH; exact Hr].
  intros Hin. apply in_map_iff in Hin as [[nm' v'] [E Hin]]. cbn in E. injection E as ->.
  apply Hn. apply (in_map fst) in Hin. exact Hin.
Qed.

Definition fold_all (ds : list listdef) (m : items) : items :=
  fold_left (fun m d => items_insert_all (def_items d) m) ds m.
Definition fold_inv (L : items) (ds : list listdef) (m : items) : items :=
  fold_left (fun m d => items_insert_all (filter (fun kv => negb (items_mem (fst kv) L)) (def_items d)) m) ds m.
(* the value the declarations give to a key (the last declaration wins) *)
Definition dget (k : listitem) (ds : list listdef) (acc : option Z) : option Z :=
  fold_left (fun acc d => match items_get k (def_items d) with Some v => Some v | None => acc end) ds acc.

Lemma nodup_fold_all : forall ds m, keys_nodup m -> keys_nodup (fold_all ds m).
Proof. unfold fold_all. induction ds as [|d r IH]; cbn [fold_left]; intros m H; [exact H|]. apply IH, nodup_insert_all, H. Qed.
Lemma nodup_fold_inv : forall L ds m, keys_nodup m -> keys_nodup (fold_inv L ds m).
Proof. unfold fold_inv. induction ds as [|d r IH]; cbn [fold_left]; intros m H; [exact H|]. apply IH, nodup_insert_all, H. Qed.

Lemma get_fold_all : forall ds m k, Forall wf_def ds ->
  items_get k (fold_all ds m) = dget k ds (items_get k m).
Proof.
  unfold fold_all, dget. induction ds as [|d r IH]; cbn [fold_left]; intros m k H; [reflexivity|].
  inversion H; subst. rewrite IH by assumption. f_equal.
  apply items_get_insert_all. apply def_items_nodup. assumption.
Qed.

Lemma get_fold_inv : forall L ds m k, Forall wf_def ds ->
  items_get k (fold_inv L ds m) = if items_mem k L then items_get k m else dget k ds (items_get k m).
Proof.
  unfold fold_inv, dget. induction ds as [|d r IH]; cbn [fold_left]; intros m k H; [destruct (items_mem k L); reflexivity|].
  inversion H; subst. rewrite IH by assumption.
  rewrite items_get_insert_all by (apply nodup_filter, def_items_nodup; assumption).
  rewrite (items_get_filter (fun key => negb (items_mem key L))).
  destruct (items_mem k L); cbn; reflexivity.
Qed.

Lemma abs_fold_all : forall ds m, Forall wf_def ds -> keys_nodup m ->
  abs_items (fold_all ds m) = fold_left (fun s d => s_union s (s_of_def d)) ds (abs_items m).
Proof.
  unfold fold_all. induction ds as [|d r IH]; cbn [fold_left]; intros m H Hm; [reflexivity|].
  inversion H; subst. rewrite IH by (try assumption; apply nodup_insert_all; assumption). f_equal.
  apply (union_refines CopyRaw (mkList m [] []) (mkList (def_items d) [] [])); [exact Hm|apply def_items_nodup; assumption].
Qed.

Lemma s_all_abs : forall ds, Forall wf_def ds -> s_all ds = abs_items (fold_all ds []).
Proof. intros ds H. symmetry. apply (abs_fold_all ds [] H). constructor. Qed.

Theorem all_refines : forall defs l ds, origin_defs defs l = Ok ds -> Forall wf_def ds ->
  exists r, list_all defs l = Ok r /\ abs r = s_all ds.
Proof.
  intros defs l ds Hds Hwf. unfold list_all. rewrite Hds. cbn. eexists. split; [reflexivity|].
  unfold abs, s_all. cbn [l_items]. apply (abs_fold_all ds [] Hwf). constructor.
Qed.

Theorem invert_refines : forall defs l ds, origin_defs defs l = Ok ds -> Forall wf_def ds -> wf_list l ->
  exists r, list_inverse defs l = Ok r /\ abs r = s_invert ds (abs l).
Proof.
  intros defs l ds Hds Hwf Hl. unfold list_inverse. rewrite Hds. cbn. eexists. split; [reflexivity|].
  unfold abs, s_invert, s_diff. cbn [l_items].
  change (fold_left _ ds []) with (fold_inv (l_items l) ds []).
  apply canonical_ext; [apply abs_items_canonical|apply canonical_filter|].
  - rewrite (s_all_abs ds Hwf). apply abs_items_canonical.
  - intros k. rewrite get_abs_items by (apply nodup_fold_inv; constructor).
    rewrite get_fold_inv by exact Hwf.
    rewrite (items_get_filter (fun key => negb (s_mem key (abs_items (l_items l))))).
    rewrite mem_abs by exact Hl.
    rewrite (s_all_abs ds Hwf).
    rewrite get_abs_items by (apply nodup_fold_all; constructor). rewrite get_fold_all by exact Hwf.
    destruct (items_mem k (l_items l)); reflexivity.
Qed.

(* non-vacuity of the hypotheses: a two-origin list over two declarations *)
Example refinement_hypotheses_example :
  let L := (T "L", [(T "a", 1); (T "b", 2)]) in
  let M := (T "M", [(T "x", 1)]) in
  let l := mkList [(mkItem (Some (T "M")) (T "x"), 1); (mkItem (Some (T "L")) (T "a"), 1)] [T "M"; T "L"] [] in
  wf_def L /\ wf_def M /\ wf_list l /\ origin_defs [L; M] l = Ok [M; L] /\
  abs l = [(mkItem (Some (T "L")) (T "a"), 1); (mkItem (Some (T "M")) (T "x"), 1)].
Proof.
  cbn zeta. repeat split.
  - repeat constructor; cbn; intuition discriminate.
  - repeat constructor; cbn; intuition discriminate.
  - repeat constructor; cbn; intuition discriminate.
Qed.
