(* Spec/RcRun.v — entry points of the ownership-graph model for the checker
   (tools/props/c18.py), and the story used as the refutation witness. *)
From Coq Require Import List.
Import ListNotations.
From Ink.Data Require Import Types Path.
From Ink.Json Require Import StdLoad.
From Ink.Spec Require Import RcGraph.

Definition b01 (b : bool) : text := if b then T "1" else T "0".

(* prediction for a compiled story with EVERY statically targeted divert resolved
   (over-approximation of any history): "leak=0" => no history can leak *)
Definition run_leak (strong : bool) (j : json) : text :=
  match load_story j with
  | Ok st =>
      let root := st_root st in
      let R := static_diverts root in
      T "load=ok nodes=" ++ show_N (N.of_nat (length (cont_positions root []))) ++
      T " diverts=" ++ show_N (N.of_nat (length R)) ++
      T " cached=" ++ show_N (N.of_nat (length (cache_edges root R))) ++
      T " wf=" ++ b01 (wf_cacheb root R) ++
      T " leak=" ++ b01 (predicts_leak strong root R)
  | _ => T "load=fail"
  end.

(* the definition itself (rounds of releases on the full graph) — slow, for small stories:
   cross-checks predicts_leak (proved equal in RcGraphProofs.predicts_leak_correct) *)
Definition run_leak_spec (strong : bool) (j : json) : text :=
  match load_story j with
  | Ok st =>
      let root := st_root st in
      T "leak=" ++ b01 (story_leaks strong root (static_diverts root))
  | _ => T "load=fail"
  end.

(* `-> k / === k === / x / + [again] -> k` as compiled by the compiler:
   {"inkVersion":21,"root":[[{"->":"k"},["done",{"#n":"g-0"}],null],"done",
    {"k":["^x","\n","ev","str","^again","/str","/ev",{"*":"k.c-0","flg":4},
          {"c-0":["^ ",{"->":"k"},"\n",{"#f":5}],"#f":1}]}],"listDefs":{}} *)
Definition witness_json : json :=
  (JObj [([105;110;107;86;101;114;115;105;111;110]%N,(JInt (21)%Z));([114;111;111;116]%N,(JArr [(JArr [(JObj [([45;62]%N,(JStr [107]%N))]);(JArr [(JStr [100;111;110;101]%N);(JObj [([35;110]%N,(JStr [103;45;48]%N))])]);JNull]);(JStr [100;111;110;101]%N);(JObj [([107]%N,(JArr [(JStr [94;120]%N);(JStr [10]%N);(JStr [101;118]%N);(JStr [115;116;114]%N);(JStr [94;97;103;97;105;110]%N);(JStr [47;115;116;114]%N);(JStr [47;101;118]%N);(JObj [([42]%N,(JStr [107;46;99;45;48]%N));([102;108;103]%N,(JInt (4)%Z))]);(JObj [([99;45;48]%N,(JArr [(JStr [94;32]%N);(JObj [([45;62]%N,(JStr [107]%N))]);(JStr [10]%N);(JObj [([35;102]%N,(JInt (5)%Z))])]));([35;102]%N,(JInt (1)%Z))])]))])]));([108;105;115;116;68;101;102;115]%N,(JObj []))]).

Definition witness_root : container :=
  match load_story witness_json with
  | Ok st => st_root st
  | _ => Cont None false false false [] []
  end.

(* the divert `-> k` inside the choice's container k.c-0: executed when the player takes "again" *)
Definition witness_loop_divert : pos := [SN [107]%N; SN [99;45;48]%N; SI 1].
