(* Spec/InkAst.v — abstract syntax of the core Ink fragment covered by the reference
   semantics (Spec/RefSem.v).  Produced by tools/gen_ink.py::ast_to_coq from the same JSON AST
   the generator prints as Ink source.  Model file: no proofs.

   Conventions
   * names of knots / stitches / labels in expressions and divert targets are FULL paths
     ("k0", "k0.s1", "k0.l3", "k0.s1.l4"); labels inside the AST (SGather / choice label) are
     the bare label, the interpreter qualifies them with the place they occur in;
   * a `switch` block of the source is desugared by the translator into SIf with equalities;
   * sequences carry a program-unique id (their visit counter), choices too (their once-only
     bookkeeping). *)
From Ink.Base Require Import Text.

Inductive unop := UNot | UNeg.
Inductive binop := BAdd | BSub | BMul | BDiv | BMod | BEq | BNe | BLt | BGt | BLe | BGe | BAnd | BOr.

Inductive expr :=
| EInt (z : Z)
| EBool (b : bool)
| EStr (s : text)
| EVar (x : text)                 (* temp (innermost frame) or global *)
| ECount (p : text)               (* read count of a knot / stitch / label *)
| EUn (o : unop) (a : expr)
| EBin (o : binop) (a b : expr)
| ECall (f : text) (args : list expr)
| ETurnsSince (p : text)
| EChoiceCount
| ETurns.

Inductive seqkind := SeqStopping | SeqCycle | SeqOnce | SeqShuffle.

(* inline content of a line *)
Inductive inl :=
| IText (t : text)
| IExpr (e : expr)                              (* {e} *)
| ICond (c : expr) (a b : list inl)             (* {c: a|b} *)
| ISeq (k : seqkind) (id : nat) (alts : list (list inl))   (* {a|b} {&a|b} {!a|b} *)
| IGlue.                                        (* <> *)

Inductive target := TKnot (path : text) | TEnd | TDone | TTunnelRet.

Inductive stmt :=
| SLine (c : list inl) (tags : list text) (dv : option target)  (* text # tags [-> target]; newline iff no divert *)
| SAssign (x : text) (e : expr)
| STemp (x : text) (e : expr)
| SEval (e : expr)
| SReturn (e : option expr)
| SDivert (t : target)
| STunnel (t : text)
| SThread (t : text)
| SIf (brs : list (expr * list stmt)) (els : list stmt)
| SSeq (k : seqkind) (id : nat) (alts : list (list stmt))
| SChoices (cs : list choice)
| SGather (label : option text)
with choice :=
| mkChoice (id : nat) (sticky : bool) (label : option text) (conds : list expr)
           (start : list inl) (has_bracket : bool) (only inner : list inl) (tags : list text)
           (dv : option target) (fallback : bool) (body : list stmt).

Definition c_id (c : choice) := let 'mkChoice i _ _ _ _ _ _ _ _ _ _ _ := c in i.
Definition c_sticky (c : choice) := let 'mkChoice _ s _ _ _ _ _ _ _ _ _ _ := c in s.
Definition c_label (c : choice) := let 'mkChoice _ _ l _ _ _ _ _ _ _ _ _ := c in l.
Definition c_conds (c : choice) := let 'mkChoice _ _ _ cs _ _ _ _ _ _ _ _ := c in cs.
Definition c_start (c : choice) := let 'mkChoice _ _ _ _ s _ _ _ _ _ _ _ := c in s.
Definition c_bracket (c : choice) := let 'mkChoice _ _ _ _ _ b _ _ _ _ _ _ := c in b.
Definition c_only (c : choice) := let 'mkChoice _ _ _ _ _ _ o _ _ _ _ _ := c in o.
Definition c_inner (c : choice) := let 'mkChoice _ _ _ _ _ _ _ i _ _ _ _ := c in i.
Definition c_tags (c : choice) := let 'mkChoice _ _ _ _ _ _ _ _ t _ _ _ := c in t.
Definition c_dv (c : choice) := let 'mkChoice _ _ _ _ _ _ _ _ _ d _ _ := c in d.
Definition c_fallback (c : choice) := let 'mkChoice _ _ _ _ _ _ _ _ _ _ f _ := c in f.
Definition c_body (c : choice) := let 'mkChoice _ _ _ _ _ _ _ _ _ _ _ b := c in b.

Record knot := mkKnot {
  k_name : text;
  k_params : list text;
  k_fun : bool;
  k_body : list stmt;
  k_stitches : list (text * list stmt)
}.

Record program := mkProgram {
  p_globals : list (text * expr);     (* VAR x = literal *)
  p_top : list stmt;                  (* content before the first knot *)
  p_knots : list knot
}.
