(* Spec/RcGraph.v — C18: the ownership graph of a story and what dropping it
   releases.  Model file: no proofs (Spec/RcGraphProofs.v).

   What is logic here is the graph of STRONG references (Rc); the allocator and
   the Rc implementation are not modelled (C18's allocator-level statement is
   measured by harness/inkleak, not proved).

   Rc semantics on a finite directed multigraph of strong edges, after the host
   has dropped every handle it held (the Story and through it the StoryState):
   the strong count of a node is the number of edges into it from nodes that
   are still alive; a node is released when its count reaches 0, and releasing
   it drops its outgoing edges.  [released g k] is the set released after k
   synchronous rounds, [freed g] the set released in the end (|nodes| rounds
   suffice), [leaked g] the rest.

   The story graph (runtime/src/container.rs, object.rs, divert.rs):
     nodes   the runtime objects, identified by their position in the tree
     strong  container -> each element of `content` and of `named_content`
             (Rc<dyn RTObject> / Rc<Container>); Object.parent is Weak
     cache   Divert.target_pointer: get_target_pointer() stores a
             Pointer{container: Some(Rc<Container>)} inside the divert the first
             time the divert is resolved (divert.rs:82-116): a strong edge
             divert -> container, where the container is the target itself
             (named target) or the parent of the target object (index target).
             Whether that edge is strong is a fact about the code, regenerated
             into Gen/LeakGen.v (cache_strong).                              *)
From Coq Require Import List Bool Arith.
Import ListNotations.
From Ink.Data Require Import Types Path.

(* ---------- generic graphs ---------- *)
Section Graph.
Variable node : Type.
Variable eqb : node -> node -> bool.

Record graph := mkGraph { g_nodes : list node; g_edges : list (node * node) }.

Definition mem (x : node) (l : list node) : bool := existsb (eqb x) l.

(* sources of the strong references into [n] (with multiplicity) *)
Definition preds (g : graph) (n : node) : list node :=
  map fst (filter (fun e => eqb (snd e) n) (g_edges g)).

(* one round: released = every reference into it comes from a released node
   (strong count 0) *)
Definition release_round (g : graph) (F : list node) : list node :=
  filter (fun n => forallb (fun m => mem m F) (preds g n)) (g_nodes g).

Fixpoint released (g : graph) (k : nat) : list node :=
  match k with
  | O => []
  | S k' => release_round g (released g k')
  end.

Definition freed (g : graph) : list node := released g (length (g_nodes g)).
Definition leaked (g : graph) : list node :=
  let F := freed g in filter (fun n => negb (mem n F)) (g_nodes g).
Definition frees_all (g : graph) : bool :=
  let F := freed g in forallb (fun n => mem n F) (g_nodes g).

(* closed form of "released within k rounds" *)
Fixpoint freed_within (g : graph) (k : nat) (n : node) : bool :=
  match k with
  | O => false
  | S k' => forallb (freed_within g k') (preds g n)
  end.

(* the same fixpoint, stopping at the first round that releases nothing new (for evaluation;
   RcGraphProofs.frees_all_fast_correct: equal to [frees_all]) *)
Fixpoint released_until (g : graph) (fuel : nat) (F : list node) : list node :=
  match fuel with
  | O => F
  | S f =>
      let F' := release_round g F in
      if forallb (fun n => mem n F) F' then F else released_until g f F'
  end.
Definition freed_fast (g : graph) : list node := released_until g (length (g_nodes g)) [].
Definition frees_all_fast (g : graph) : bool :=
  let F := freed_fast g in forallb (fun n => mem n F) (g_nodes g).

End Graph.

Arguments mkGraph {node}.
Arguments g_nodes {node}.
Arguments g_edges {node}.

(* ---------- the story graph ---------- *)
Fixpoint cont_positions (c : container) (p : pos) {struct c} : list pos :=
  match c with
  | Cont _ _ _ _ content named =>
      p ::
      (fix go (l : list obj) (i : nat) {struct l} : list pos :=
         match l with
         | [] => []
         | o :: r =>
             (match o with
              | OCont c' => cont_positions c' (p ++ [SI i])
              | _ => [p ++ [SI i]]
              end) ++ go r (S i)
         end) content O
      ++
      (fix gn (l : list (text * container)) {struct l} : list pos :=
         match l with
         | [] => []
         | (n, c') :: r => cont_positions c' (p ++ [SN n]) ++ gn r
         end) named
  end.

(* every prefix of q, shortest first: firstn 0 q .. firstn |q| q *)
Definition prefixes (q : pos) : list pos := map (fun k => firstn k q) (seq 0 (S (length q))).

Definition dedup_pos (l : list pos) : list pos :=
  fold_right (fun x acc => if existsb (pos_eqb x) acc then acc else x :: acc) [] l.

(* the objects of the story (prefix-closed by construction, each position once) *)
Definition story_nodes (root : container) : list pos :=
  dedup_pos (flat_map prefixes (cont_positions root [])).

(* container -> child: (parent q, q) for every non-root object q *)
Definition tree_edges (root : container) : list (pos * pos) :=
  flat_map (fun q => match q with [] => [] | _ => [(removelast q, q)] end) (story_nodes root).

(* the container a resolved divert at position [d] caches (divert.rs::get_target_pointer):
   index target -> parent of the target object; named target -> the container itself
   (`downcast::<Container>().unwrap()`: anything else panics, no edge) *)
Definition cache_target (root : container) (d : pos) : option pos :=
  match obj_at root d with
  | Some (ODivert dv) =>
      match d_target dv with
      | Some p =>
          match resolve_path root d p with
          | Ok sr =>
              match last (map Some (p_comps p)) None with
              | Some (CIdx _) => pos_parent (sr_pos sr)
              | Some (CName _) => if is_cont_at root (sr_pos sr) then Some (sr_pos sr) else None
              | None => None
              end
          | _ => None
          end
      | None => None
      end
  | _ => None
  end.

Definition cache_edges (root : container) (resolved : list pos) : list (pos * pos) :=
  flat_map (fun d => match cache_target root d with Some c => [(d, c)] | None => [] end) resolved.

(* [strong]: is the cached target a strong reference (Gen/LeakGen.cache_strong) *)
Definition story_graph (strong : bool) (root : container) (resolved : list pos) : graph pos :=
  mkGraph (story_nodes root)
          (tree_edges root ++ if strong then cache_edges root resolved else []).

Definition story_leaks (strong : bool) (root : container) (resolved : list pos) : bool :=
  negb (frees_all pos pos_eqb (story_graph strong root resolved)).

(* every divert with a static target: the over-approximation of "resolved" used
   by the checker (predicted acyclic for all diverts => no history can leak) *)
Definition static_diverts (root : container) : list pos :=
  filter (fun p => match obj_at root p with
                   | Some (ODivert dv) => match d_target dv with Some _ => negb (d_external dv) | None => false end
                   | _ => false
                   end) (cont_positions root []).

(* hypothesis of the characterisation, decidable: the resolved diverts and their cached
   containers are objects of the story *)
Definition wf_cache (root : container) (resolved : list pos) : Prop :=
  forall d c, In (d, c) (cache_edges root resolved) ->
              In d (story_nodes root) /\ In c (story_nodes root).
(* decidable and cheap: both ends are among the enumerated positions (which are story nodes) *)
Definition wf_cacheb (root : container) (resolved : list pos) : bool :=
  let ps := cont_positions root [] in
  forallb (fun e => mem pos pos_eqb (fst e) ps && mem pos pos_eqb (snd e) ps) (cache_edges root resolved).

(* ---------- the divert graph: the small graph that decides the same question ---------- *)
Fixpoint is_prefixb (a b : pos) : bool :=
  match a, b with
  | [], _ => true
  | x :: a', y :: b' => pstep_eqb x y && is_prefixb a' b'
  | _ :: _, [] => false
  end.

(* cache edge e1 is followed by e2: the container cached by e1 is an
   ancestor-or-self of the divert of e2 (so e1's edge leads, down the tree, to e2's) *)
Definition followsb (e1 e2 : pos * pos) : bool := is_prefixb (snd e1) (fst e2).

Definition divert_graph (ces : list (pos * pos)) : graph nat :=
  let idx := seq 0 (length ces) in
  mkGraph idx
    (flat_map (fun i => flat_map (fun j =>
        match nth_error ces i, nth_error ces j with
        | Some a, Some b => if followsb a b then [(i, j)] else []
        | _, _ => []
        end) idx) idx).

Definition predicts_leak (strong : bool) (root : container) (resolved : list pos) : bool :=
  strong && negb (frees_all_fast nat Nat.eqb (divert_graph (cache_edges root resolved))).
