(* Spec/RcGraphProofs.v — proofs about Spec/RcGraph.v:
     rc_drop_frees_all_iff_acyclic   dropping the roots releases every node iff the graph of strong
                                     references has no cycle (finite graphs)
     leaked_on_or_from_cycle         the nodes that are not released are on, or reachable from, a cycle
     tree_edges_acyclic              container -> content edges alone never form a cycle
     leak_characterisation           tree + cache edges have a cycle iff the resolved diverts "follow"
                                     each other in a cycle (a divert whose cached container is an
                                     ancestor-or-self of itself is the 1-cycle)                      *)
From Coq Require Import List Bool Arith Lia Relations ListDec.
Import ListNotations.
From Ink.Data Require Import Types Path PathProofs.
From Ink.Spec Require Import RcGraph.
Local Open Scope nat_scope.

Lemma forallb_false_ex {A} (f : A -> bool) (l : list A) :
  forallb f l = false -> exists x, In x l /\ f x = false.
Proof.
  induction l as [|a l IH]; [discriminate|]. cbn [forallb]. intro H.
  destruct (f a) eqn:E.
  - cbn in H. destruct (IH H) as [x [Hx Hf]]. exists x. split; [now right | exact Hf].
  - exists a. split; [now left | exact E].
Qed.

Lemma forallb_pointwise {A} (f h : A -> bool) (l : list A) :
  (forall x, f x = h x) -> forallb f l = forallb h l.
Proof. intro H. induction l as [|a l IH]; [reflexivity|]. cbn. now rewrite H, IH. Qed.

(* ================= generic graphs ================= *)
Section GraphProofs.
Variable node : Type.
Variable eqb : node -> node -> bool.
Hypothesis eqb_eq : forall a b, eqb a b = true <-> a = b.

Notation graph := (graph node).
Notation mem := (mem node eqb).
Notation preds := (preds node eqb).
Notation released := (released node eqb).
Notation freed := (freed node eqb).
Notation leaked := (leaked node eqb).
Notation frees_all := (frees_all node eqb).
Notation freed_within := (freed_within node eqb).

Definition edge (g : graph) (a b : node) : Prop := In (a, b) (g_edges g).
Definition wf_graph (g : graph) : Prop :=
  forall a b, edge g a b -> In a (g_nodes g) /\ In b (g_nodes g).
Definition reach (g : graph) : node -> node -> Prop := clos_trans node (edge g).
Definition acyclic (g : graph) : Prop := forall n, ~ reach g n n.

Lemma node_dec : forall a b : node, {a = b} + {a <> b}.
Proof.
  intros a b. destruct (eqb a b) eqn:E.
  - left. now apply eqb_eq.
  - right. intro H. apply eqb_eq in H. congruence.
Qed.

Lemma mem_In x l : mem x l = true <-> In x l.
Proof.
  unfold RcGraph.mem. rewrite existsb_exists. split.
  - intros [y [Hy He]]. apply eqb_eq in He. now subst.
  - intro H. exists x. split; [exact H | now apply eqb_eq].
Qed.

Lemma preds_In g m n : In m (preds g n) <-> edge g m n.
Proof.
  unfold RcGraph.preds, edge. rewrite in_map_iff. split.
  - intros [[a b] [Ha Hf]]. cbn in Ha. subst a. apply filter_In in Hf. destruct Hf as [Hin He].
    cbn in He. apply eqb_eq in He. now subst.
  - intro H. exists (m, n). split; [reflexivity|]. apply filter_In. split; [exact H|].
    cbn. now apply eqb_eq.
Qed.

(* ---------- rounds = closed form ---------- *)
Lemma released_within g : wf_graph g -> forall k n,
  In n (released g k) <-> (In n (g_nodes g) /\ freed_within g k n = true).
Proof.
  intros Hwf k. induction k as [|k IH]; intro n.
  - cbn. split; [tauto | intros [_ H]; discriminate].
  - cbn [RcGraph.released RcGraph.freed_within]. unfold release_round. rewrite filter_In.
    split; intros [Hn Hf]; (split; [exact Hn|]); rewrite forallb_forall in *; intros m Hm.
    + specialize (Hf m Hm). apply mem_In in Hf. now apply IH in Hf.
    + apply mem_In. apply IH. split; [|now apply Hf].
      apply preds_In in Hm. now apply Hwf in Hm.
Qed.

(* ---------- released => not on a cycle ---------- *)
Lemma ct_last (R : relation node) x y :
  clos_trans node R x y -> exists p, R p y /\ (x = p \/ clos_trans node R x p).
Proof.
  intro H. induction H as [x y H | x z y Hxz [p [Hp Hx]] Hzy [q [Hq Hz]]].
  - exists x. split; [exact H | now left].
  - exists q. split; [exact Hq|]. right. destruct Hz as [->|Hz].
    + exact Hxz.
    + now apply t_trans with z.
Qed.

Lemma ct_first (R : relation node) x y : clos_trans node R x y -> exists z, R x z.
Proof.
  intro H. induction H as [x y H | x z y _ IH _ _]; [now exists y | exact IH].
Qed.

Lemma within_no_cycle g k : forall n, freed_within g k n = true -> ~ reach g n n.
Proof.
  induction k as [|k IH]; intros n Hf Hc; [discriminate|].
  cbn [RcGraph.freed_within] in Hf. rewrite forallb_forall in Hf.
  destruct (ct_last _ _ _ Hc) as [p [Hp Hn]].
  assert (Hpp : reach g p p).
  { destruct Hn as [->|Hn]; [now apply t_step|]. apply t_trans with n; [now apply t_step | exact Hn]. }
  apply (IH p); [|exact Hpp]. apply Hf. now apply preds_In.
Qed.

(* anything that reaches a released node was released earlier (so: is released) *)
Lemma within_mono g k : forall n, freed_within g k n = true -> freed_within g (S k) n = true.
Proof.
  induction k as [|k IH]; intros n H; [discriminate|].
  cbn [RcGraph.freed_within] in *. rewrite forallb_forall in *. intros m Hm. apply IH. now apply H.
Qed.

Lemma within_pred g k n m : freed_within g k n = true -> reach g m n -> freed_within g k m = true.
Proof.
  intros Hn Hr. revert k Hn. apply clos_trans_tn1 in Hr.
  induction Hr as [n He | n z He Hr IH]; intros k Hn.
  - destruct k; [discriminate|]. cbn [RcGraph.freed_within] in Hn. rewrite forallb_forall in Hn.
    apply within_mono. apply Hn. now apply preds_In.
  - destruct k; [discriminate|]. cbn [RcGraph.freed_within] in Hn. rewrite forallb_forall in Hn.
    apply within_mono. apply IH. apply Hn. now apply preds_In.
Qed.

(* ---------- not released => a backwards chain of any length ---------- *)
(* rpath (x0 :: x1 :: .. ) : edge x1 x0, edge x2 x1, ... *)
Fixpoint rpath (g : graph) (l : list node) : Prop :=
  match l with
  | a :: ((b :: _) as r) => edge g b a /\ rpath g r
  | _ => True
  end.

Lemma not_within_chain g k : forall n, freed_within g k n = false ->
  exists l, length l = k /\ rpath g (n :: l).
Proof.
  induction k as [|k IH]; intros n H.
  - exists []. split; [reflexivity | exact I].
  - cbn [RcGraph.freed_within] in H.
    assert (Hex : exists m, In m (preds g n) /\ freed_within g k m = false).
    { clear IH. induction (preds g n) as [|m r IHr]; [discriminate|].
      cbn in H. destruct (freed_within g k m) eqn:E.
      - cbn in H. destruct (IHr H) as [m' [Hin Hm']]. exists m'. split; [now right | exact Hm'].
      - exists m. split; [now left | exact E]. }
    destruct Hex as [m [Hm Hf]]. destruct (IH m Hf) as [l [Hl Hp]].
    exists (m :: l). split; [cbn; now rewrite Hl|]. cbn. split; [now apply preds_In | exact Hp].
Qed.

Lemma rpath_tail g a l : rpath g (a :: l) -> rpath g l.
Proof. destruct l; cbn; tauto. Qed.

Lemma rpath_reach g : forall l a b, rpath g (a :: l) -> In b l -> reach g b a.
Proof.
  induction l as [|m r IH]; intros a b Hp Hb; [destruct Hb|].
  cbn in Hp. destruct Hp as [He Hp]. destruct Hb as [->|Hb].
  - now apply t_step.
  - apply t_trans with m; [now apply (IH m b) | now apply t_step].
Qed.

Lemma rpath_in_nodes g : wf_graph g -> forall l a, rpath g (a :: l) -> incl l (g_nodes g).
Proof.
  intros Hwf. induction l as [|m r IH]; intros a Hp x Hx; [destruct Hx|].
  cbn in Hp. destruct Hp as [He Hp]. destruct Hx as [<-|Hx].
  - now apply Hwf in He.
  - now apply (IH m Hp).
Qed.

(* a chain with a repeated node contains a cycle through that node, which reaches the head *)
Lemma rpath_dup_cycle g : forall l, rpath g l -> ~ NoDup l ->
  exists x, In x l /\ reach g x x.
Proof.
  induction l as [|a l IH]; intros Hp Hnd.
  - exfalso. apply Hnd. constructor.
  - destruct (in_dec node_dec a l) as [Hin|Hnin].
    + exists a. split; [now left|]. now apply (rpath_reach g l a a).
    + destruct (IH (rpath_tail _ _ _ Hp)) as [x [Hx Hc]].
      * intro H. apply Hnd. now constructor.
      * exists x. split; [now right | exact Hc].
Qed.

Lemma not_within_cycle g : wf_graph g -> forall n, In n (g_nodes g) ->
  freed_within g (length (g_nodes g)) n = false ->
  exists c, reach g c c /\ (c = n \/ reach g c n).
Proof.
  intros Hwf n Hn Hf. destruct (not_within_chain _ _ _ Hf) as [l [Hl Hp]].
  assert (Hnd : ~ NoDup (n :: l)).
  { intro Hnd. assert (Hincl : incl (n :: l) (g_nodes g)).
    { intros x [<-|Hx]; [exact Hn | now apply (rpath_in_nodes g Hwf l n Hp)]. }
    pose proof (NoDup_incl_length Hnd Hincl) as Hlen. cbn in Hlen. lia. }
  destruct (rpath_dup_cycle g _ Hp Hnd) as [c [Hc Hcc]].
  exists c. split; [exact Hcc|]. destruct Hc as [->|Hc]; [now left|]. right.
  now apply (rpath_reach g l n c).
Qed.

(* ---------- the theorems ---------- *)
Theorem frees_all_iff_acyclic g : wf_graph g -> (frees_all g = true <-> acyclic g).
Proof.
  intro Hwf. unfold RcGraph.frees_all, RcGraph.freed. cbv zeta. rewrite forallb_forall. split.
  - intros Hall n Hc.
    assert (Hn : In n (g_nodes g)).
    { destruct (ct_first _ _ _ Hc) as [z Hz]. now apply Hwf in Hz. }
    specialize (Hall n Hn). apply mem_In in Hall. apply (released_within g Hwf) in Hall.
    now apply (within_no_cycle g _ n (proj2 Hall)).
  - intros Hac n Hn. apply mem_In. apply (released_within g Hwf). split; [exact Hn|].
    destruct (freed_within g (length (g_nodes g)) n) eqn:E; [reflexivity|].
    destruct (not_within_cycle g Hwf n Hn E) as [c [Hc _]]. now apply Hac in Hc.
Qed.

(* the leaked nodes are exactly the nodes on, or reachable from, a cycle *)
Theorem leaked_iff_cycle g : wf_graph g -> forall n,
  In n (leaked g) <-> (In n (g_nodes g) /\ exists c, reach g c c /\ (c = n \/ reach g c n)).
Proof.
  intros Hwf n. unfold RcGraph.leaked, RcGraph.freed. cbv zeta. rewrite filter_In. split.
  - intros [Hn Hm]. split; [exact Hn|]. apply negb_true_iff in Hm.
    apply (not_within_cycle g Hwf n Hn).
    destruct (freed_within g (length (g_nodes g)) n) eqn:E; [|reflexivity].
    assert (In n (released g (length (g_nodes g)))) as Hr by (apply (released_within g Hwf); tauto).
    apply mem_In in Hr. congruence.
  - intros [Hn [c [Hcc Hcn]]]. split; [exact Hn|]. apply negb_true_iff.
    destruct (mem n (released g (length (g_nodes g)))) eqn:E; [|reflexivity].
    apply mem_In in E. apply (released_within g Hwf) in E. destruct E as [_ E].
    exfalso. destruct Hcn as [->|Hcn].
    + now apply (within_no_cycle g _ n E).
    + apply (within_no_cycle g _ c (within_pred g _ n c E Hcn)). exact Hcc.
Qed.

(* ---------- the early-exit evaluation computes the same set ---------- *)
Definition same_set (F F' : list node) : Prop := forall x, In x F <-> In x F'.

Lemma mem_ext F F' x : same_set F F' -> mem x F = mem x F'.
Proof.
  intro H. destruct (mem x F) eqn:E1, (mem x F') eqn:E2; try reflexivity.
  - apply mem_In in E1. apply H in E1. apply mem_In in E1. congruence.
  - apply mem_In in E2. apply H in E2. apply mem_In in E2. congruence.
Qed.

Lemma round_ext g F F' : same_set F F' -> release_round node eqb g F = release_round node eqb g F'.
Proof.
  intro H. unfold release_round. apply filter_ext. intro n.
  induction (preds g n) as [|m r IH]; [reflexivity|]. cbn. now rewrite IH, (mem_ext F F' m H).
Qed.

Lemma released_mono g : wf_graph g -> forall k n, In n (released g k) -> In n (released g (S k)).
Proof.
  intros Hwf k n H. apply (released_within g Hwf) in H. apply (released_within g Hwf).
  split; [tauto | now apply within_mono].
Qed.

Lemma released_stable g : wf_graph g -> forall k,
  (forall n, In n (released g (S k)) -> In n (released g k)) ->
  forall j, same_set (released g (k + j)) (released g k).
Proof.
  intros Hwf k Hsub. assert (H1 : same_set (released g (S k)) (released g k)).
  { intro x. split; [apply Hsub | apply (released_mono g Hwf)]. }
  induction j as [|j IH].
  - rewrite Nat.add_0_r. intro x. tauto.
  - rewrite Nat.add_succ_r. cbn [RcGraph.released]. rewrite (round_ext g _ _ IH).
    exact H1.
Qed.

Lemma released_until_spec g : wf_graph g -> forall fuel k,
  same_set (released_until node eqb g fuel (released g k)) (released g (k + fuel)).
Proof.
  intros Hwf fuel. induction fuel as [|f IH]; intro k.
  - cbn. rewrite Nat.add_0_r. intro x. tauto.
  - cbn [RcGraph.released_until].
    destruct (forallb (fun n => mem n (released g k)) (release_round node eqb g (released g k))) eqn:E.
    + intro x. symmetry. apply (released_stable g Hwf k).
      intros n Hn. rewrite forallb_forall in E. apply mem_In. apply E. exact Hn.
    + change (release_round node eqb g (released g k)) with (released g (S k)).
      rewrite Nat.add_succ_r. change (S (k + f)) with (S k + f). apply IH.
Qed.

Theorem frees_all_fast_correct g : wf_graph g -> frees_all_fast node eqb g = frees_all g.
Proof.
  intro Hwf. unfold RcGraph.frees_all_fast, RcGraph.frees_all, RcGraph.freed_fast, RcGraph.freed. cbv zeta.
  assert (Hs : same_set (released_until node eqb g (length (g_nodes g)) []) (released g (length (g_nodes g))))
    by exact (released_until_spec g Hwf (length (g_nodes g)) 0).
  apply forallb_pointwise. intro n. now apply mem_ext.
Qed.

Corollary frees_all_false_cycle g : wf_graph g -> frees_all g = false -> exists c, reach g c c.
Proof.
  intros Hwf Hf. unfold RcGraph.frees_all in Hf. cbv zeta in Hf. apply forallb_false_ex in Hf.
  destruct Hf as [n [Hn Hm]].
  assert (Hl : In n (leaked g)).
  { unfold RcGraph.leaked. cbv zeta. apply filter_In. split; [exact Hn | now rewrite Hm]. }
  apply (leaked_iff_cycle g Hwf) in Hl. destruct Hl as [_ [c [Hc _]]]. now exists c.
Qed.

End GraphProofs.

(* ================= the story graph ================= *)
Lemma pstep_eqb_eq a b : pstep_eqb a b = true <-> a = b.
Proof.
  destruct a as [i|n], b as [j|m]; cbn; try (split; [discriminate | intro H; discriminate H]).
  - rewrite Nat.eqb_eq. split; [now intros -> | now intros [= ->]].
  - rewrite text_eqb_eq. split; [now intros -> | now intros [= ->]].
Qed.

Lemma pos_eqb_eq a b : pos_eqb a b = true <-> a = b.
Proof.
  revert b. induction a as [|x a IH]; destruct b as [|y b]; cbn; try (split; [discriminate | intro H; discriminate H]).
  - tauto.
  - rewrite andb_true_iff, pstep_eqb_eq, IH. split; [now intros [-> ->] | now intros [= -> ->]].
Qed.

Definition prefix (a b : pos) : Prop := exists s, b = a ++ s.

Lemma prefix_refl a : prefix a a.
Proof. exists []. now rewrite app_nil_r. Qed.

Lemma prefix_trans a b c : prefix a b -> prefix b c -> prefix a c.
Proof. intros [s ->] [t ->]. exists (s ++ t). now rewrite app_assoc. Qed.

Lemma prefix_length a b : prefix a b -> length a <= length b.
Proof. intros [s ->]. rewrite app_length. lia. Qed.

Lemma is_prefixb_prefix a b : is_prefixb a b = true <-> prefix a b.
Proof.
  revert b. induction a as [|x a IH]; intro b.
  - cbn. split; [intros _; now exists b | reflexivity].
  - destruct b as [|y b]; cbn.
    + split; [discriminate | intros [s H]; discriminate H].
    + rewrite andb_true_iff, pstep_eqb_eq, IH. split.
      * intros [-> [s ->]]. now exists s.
      * intros [s H]. injection H as -> ->. split; [reflexivity | now exists s].
Qed.

(* ---------- nodes are prefix-closed ---------- *)
Lemma in_prefixes q p : In p (prefixes q) <-> exists k, k <= length q /\ p = firstn k q.
Proof.
  unfold prefixes. rewrite in_map_iff. split.
  - intros [k [<- Hk]]. apply in_seq in Hk. exists k. split; [lia | reflexivity].
  - intros [k [Hk ->]]. exists k. split; [reflexivity | apply in_seq; lia].
Qed.

Lemma dedup_pos_In l x : In x (dedup_pos l) <-> In x l.
Proof.
  induction l as [|a l IH]; [reflexivity|].
  unfold dedup_pos. cbn [fold_right]. fold (dedup_pos l).
  destruct (existsb (pos_eqb a) (dedup_pos l)) eqn:E.
  - rewrite IH. split; [now right|]. intros [<-|H]; [|exact H].
    apply existsb_exists in E. destruct E as [y [Hy He]]. apply pos_eqb_eq in He. subst y. now apply IH.
  - cbn. now rewrite IH.
Qed.

Lemma story_nodes_closed root q :
  In q (story_nodes root) -> q <> [] -> In (removelast q) (story_nodes root).
Proof.
  unfold story_nodes. rewrite !dedup_pos_In, !in_flat_map. intros [q0 [Hq0 Hq]] Hne.
  exists q0. split; [exact Hq0|]. apply in_prefixes in Hq. destruct Hq as [k [Hk ->]].
  apply in_prefixes. destruct k as [|k]; [now destruct Hne|].
  exists k. split; [lia|]. apply removelast_firstn. lia.
Qed.

Lemma tree_edge_inv root a b :
  In (a, b) (tree_edges root) -> In b (story_nodes root) /\ b <> [] /\ a = removelast b.
Proof.
  unfold tree_edges. rewrite in_flat_map. intros [q [Hq Hin]].
  destruct q as [|x q]; [destruct Hin|]. destruct Hin as [[= <- <-]|[]].
  split; [exact Hq|]. split; [discriminate | reflexivity].
Qed.

Lemma tree_edge_intro root q :
  In q (story_nodes root) -> q <> [] -> In (removelast q, q) (tree_edges root).
Proof.
  intros Hq Hne. unfold tree_edges. apply in_flat_map. exists q. split; [exact Hq|].
  destruct q; [now destruct Hne | now left].
Qed.

Lemma removelast_snoc (a b : pos) : b <> [] -> a = removelast b -> exists s, b = a ++ [s].
Proof.
  intros Hne ->. destruct (exists_last Hne) as [l [s ->]]. exists s. now rewrite removelast_last.
Qed.

Section Story.
Variable root : container.
Variable C : list (pos * pos).       (* the strong cache edges: (divert, cached container) *)
Hypothesis C_nodes : forall d c, In (d, c) C -> In d (story_nodes root) /\ In c (story_nodes root).

Let T : graph pos := mkGraph (story_nodes root) (tree_edges root).
Let G : graph pos := mkGraph (story_nodes root) (tree_edges root ++ C).

Lemma wf_T : wf_graph pos T.
Proof.
  intros a b H. unfold edge in H. cbn in H. apply tree_edge_inv in H. destruct H as [Hb [Hne ->]].
  split; [now apply story_nodes_closed | exact Hb].
Qed.

Lemma wf_G : wf_graph pos G.
Proof.
  intros a b H. unfold edge in H. cbn in H. apply in_app_or in H. destruct H as [H|H].
  - now apply wf_T.
  - now apply C_nodes.
Qed.

Lemma T_reach_length a b : reach pos T a b -> length a < length b.
Proof.
  intro H. induction H as [a b H | a z b _ IH1 _ IH2]; [|lia].
  unfold edge in H. cbn in H. apply tree_edge_inv in H. destruct H as [_ [Hne Ha]].
  destruct (removelast_snoc a b Hne Ha) as [s ->]. rewrite app_length. cbn. lia.
Qed.

(* container -> content edges alone: no cycle, everything is released *)
Theorem tree_acyclic : acyclic pos T.
Proof. intros n H. apply T_reach_length in H. lia. Qed.

(* ---------- tree paths = prefixes ---------- *)
Lemma tree_path c d : prefix c d -> In d (story_nodes root) -> c = d \/ reach pos G c d.
Proof.
  intros [s ->]. induction s as [|x s IH] using rev_ind; intro Hd.
  - left. now rewrite app_nil_r.
  - right. rewrite app_assoc in Hd |- *.
    assert (Hne : (c ++ s) ++ [x] <> []) by (intro H; now apply app_eq_nil in H as [_ H]).
    pose proof (story_nodes_closed root _ Hd Hne) as Hp. rewrite removelast_last in Hp.
    assert (He : edge pos G (c ++ s) ((c ++ s) ++ [x])).
    { unfold edge. cbn. apply in_or_app. left.
      pose proof (tree_edge_intro root _ Hd Hne) as H. now rewrite removelast_last in H. }
    destruct (IH Hp) as [Heq|Hr].
    + pose proof (t_step _ _ _ _ He) as Hr. revert Hr. generalize ((c ++ s) ++ [x]).
      rewrite <- Heq. intros l Hl. exact Hl.
    + apply t_trans with (c ++ s); [exact Hr | now apply t_step].
Qed.

(* ---------- cache edges following each other ---------- *)
Definition follows (e1 e2 : pos * pos) : Prop := prefix (snd e1) (fst e2).
Definition dfollow (a b : pos * pos) : Prop := In a C /\ In b C /\ follows a b.

Lemma dfollow_reach a b : clos_trans _ dfollow a b -> reach pos G (fst a) (fst b).
Proof.
  intro H. induction H as [a b [Ha [Hb Hf]] | a z b _ IH1 _ IH2]; [|now apply t_trans with (fst z)].
  destruct a as [d c], b as [d' c']. cbn in *.
  assert (He : reach pos G d c) by (apply t_step; unfold edge; cbn; apply in_or_app; now right).
  destruct (tree_path c d' Hf (proj1 (C_nodes _ _ Hb))) as [<-|Hr]; [exact He|].
  now apply t_trans with c.
Qed.

(* decomposition of a path of G: pure tree path, or tree* . cache . (tree* . cache)* . tree* *)
Definition decomposed (x y : pos) : Prop :=
  (prefix x y /\ length x < length y) \/
  (exists e1 ek, In e1 C /\ In ek C /\ prefix x (fst e1) /\
                 (e1 = ek \/ clos_trans _ dfollow e1 ek) /\ prefix (snd ek) y).

Lemma G_edge_cases a b : edge pos G a b ->
  (exists s, b = a ++ [s]) \/ In (a, b) C.
Proof.
  unfold edge. cbn. intro H. apply in_app_or in H. destruct H as [H|H]; [left | now right].
  apply tree_edge_inv in H. destruct H as [_ [Hne Ha]]. now apply removelast_snoc.
Qed.

Lemma reach_decomposed x y : reach pos G x y -> decomposed x y.
Proof.
  intro H. apply clos_trans_tn1 in H. induction H as [y H | y z H _ IH].
  - destruct (G_edge_cases _ _ H) as [[s ->]|Hc].
    + left. split; [now exists [s] | rewrite app_length; cbn; lia].
    + right. exists (x, y), (x, y). cbn. repeat split; try exact Hc; try apply prefix_refl. now left.
  - destruct (G_edge_cases _ _ H) as [[s ->]|Hc].
    + destruct IH as [[Hp Hl]|[e1 [ek [H1 [Hk [Hx [Hch Hy]]]]]]].
      * left. split; [apply prefix_trans with y; [exact Hp | now exists [s]] | rewrite app_length; cbn; lia].
      * right. exists e1, ek. repeat split; try assumption.
        apply prefix_trans with y; [exact Hy | now exists [s]].
    + destruct IH as [[Hp Hl]|[e1 [ek [H1 [Hk [Hx [Hch Hy]]]]]]].
      * right. exists (y, z), (y, z). cbn. repeat split; try exact Hc; try exact Hp; try apply prefix_refl. now left.
      * right. exists e1, (y, z). cbn. repeat split; try assumption; try apply prefix_refl.
        right. assert (Hs : dfollow ek (y, z)) by (repeat split; assumption).
        destruct Hch as [->|Hch]; [now apply t_step | apply t_trans with ek; [exact Hch | now apply t_step]].
Qed.

(* tree + cache edges have a cycle iff the cache edges follow each other in a cycle *)
Theorem cycle_iff_dfollow_cycle :
  (exists n, reach pos G n n) <-> (exists e, clos_trans _ dfollow e e).
Proof.
  split.
  - intros [n H]. destruct (reach_decomposed _ _ H) as [[_ Hl]|[e1 [ek [H1 [Hk [Hx [Hch Hy]]]]]]]; [lia|].
    assert (Hs : dfollow ek e1) by (repeat split; try assumption; now apply prefix_trans with n).
    exists ek. destruct Hch as [->|Hch]; [now apply t_step | apply t_trans with e1; [now apply t_step | exact Hch]].
  - intros [e H]. exists (fst e). now apply dfollow_reach.
Qed.

End Story.

(* ================= story-level statements ================= *)
Lemma app_nil_edges (root : container) :
  story_graph false root = fun _ => mkGraph (story_nodes root) (tree_edges root ++ []).
Proof. reflexivity. Qed.

(* with a weak (or no) cache the only strong edges are the tree's: nothing can leak *)
Theorem no_leak_weak root resolved : story_leaks false root resolved = false.
Proof.
  unfold story_leaks, story_graph. rewrite app_nil_r. apply negb_false_iff.
  apply (frees_all_iff_acyclic pos pos_eqb pos_eqb_eq _ (wf_T root)). apply tree_acyclic.
Qed.

Lemma cont_positions_nodes root p : In p (cont_positions root []) -> In p (story_nodes root).
Proof.
  intro H. unfold story_nodes. apply dedup_pos_In. apply in_flat_map. exists p. split; [exact H|].
  apply in_prefixes. exists (length p). split; [lia | now rewrite firstn_all].
Qed.

Lemma wf_cacheb_sound root resolved : wf_cacheb root resolved = true -> wf_cache root resolved.
Proof.
  unfold wf_cacheb, wf_cache. rewrite forallb_forall. intros H d c Hin.
  specialize (H _ Hin). cbn in H. apply andb_true_iff in H. destruct H as [H1 H2].
  split; apply cont_positions_nodes; now apply (mem_In pos pos_eqb pos_eqb_eq).
Qed.

(* a story leaks iff its resolved diverts follow each other in a cycle:
   follows (d1,c1) (d2,c2) = the container c1 cached by d1 is an ancestor-or-self of d2;
   the 1-cycle is a divert whose cached target contains the divert itself
   (a knot or weave point that loops back to itself or to an enclosing container) *)
Theorem leak_characterisation root resolved : wf_cache root resolved ->
  (story_leaks true root resolved = true <->
   exists e, clos_trans _ (dfollow (cache_edges root resolved)) e e).
Proof.
  intro Hwf. set (C := cache_edges root resolved).
  rewrite <- (cycle_iff_dfollow_cycle root C Hwf).
  unfold story_leaks, story_graph. fold C.
  set (G := mkGraph (story_nodes root) (tree_edges root ++ C)).
  pose proof (wf_G root C Hwf) as HwfG. fold G in HwfG.
  rewrite negb_true_iff. split.
  - intro Hf. exact (frees_all_false_cycle pos pos_eqb pos_eqb_eq G HwfG Hf).
  - intros [n Hc]. destruct (RcGraph.frees_all pos pos_eqb G) eqn:E; [|reflexivity].
    apply (frees_all_iff_acyclic pos pos_eqb pos_eqb_eq G HwfG) in E. now apply E in Hc.
Qed.

(* ---------- the small divert graph decides the same question ---------- *)
Section DivertGraph.
Variable C : list (pos * pos).
Let DG := divert_graph C.

Lemma nat_eqb_eq a b : Nat.eqb a b = true <-> a = b.
Proof. apply Nat.eqb_eq. Qed.

Lemma dg_edge i j : edge nat DG i j <->
  exists a b, nth_error C i = Some a /\ nth_error C j = Some b /\ followsb a b = true.
Proof.
  unfold edge, DG, divert_graph. cbn. rewrite in_flat_map. split.
  - intros [i' [Hi H]]. apply in_flat_map in H. destruct H as [j' [Hj H]].
    destruct (nth_error C i') as [a|] eqn:Ea; [|destruct H].
    destruct (nth_error C j') as [b|] eqn:Eb; [|destruct H].
    destruct (followsb a b) eqn:Ef; [|destruct H].
    destruct H as [[= <- <-]|[]]. now exists a, b.
  - intros [a [b [Ha [Hb Hf]]]]. exists i. split.
    + apply in_seq. split; [lia|]. cbn. apply nth_error_Some. congruence.
    + apply in_flat_map. exists j. split.
      * apply in_seq. split; [lia|]. cbn. apply nth_error_Some. congruence.
      * rewrite Ha, Hb, Hf. now left.
Qed.

Lemma wf_DG : wf_graph nat DG.
Proof.
  intros i j H. apply dg_edge in H. destruct H as [a [b [Ha [Hb _]]]].
  unfold DG, divert_graph. cbn. split; apply in_seq; (split; [lia|]); cbn; apply nth_error_Some; congruence.
Qed.

Lemma dg_reach_elems i j : reach nat DG i j ->
  exists a b, nth_error C i = Some a /\ nth_error C j = Some b /\ clos_trans _ (dfollow C) a b.
Proof.
  intro H. induction H as [i j H | i k j _ [a [b [Ha [Hb Hab]]]] _ [b' [c [Hb' [Hc Hbc]]]]].
  - apply dg_edge in H. destruct H as [a [b [Ha [Hb Hf]]]]. exists a, b. repeat split; try assumption.
    apply t_step. repeat split; try (eapply nth_error_In; eassumption).
    now apply is_prefixb_prefix.
  - rewrite Hb in Hb'. injection Hb' as <-. exists a, c. repeat split; try assumption.
    now apply t_trans with b.
Qed.

Lemma elems_dg_reach a b : clos_trans _ (dfollow C) a b ->
  forall i, nth_error C i = Some a -> exists j, nth_error C j = Some b /\ reach nat DG i j.
Proof.
  intro H. induction H as [a b [Ha [Hb Hf]] | a z b _ IH1 _ IH2]; intros i Hi.
  - destruct (In_nth_error _ _ Hb) as [j Hj]. exists j. split; [exact Hj|].
    apply t_step. apply dg_edge. exists a, b. repeat split; try assumption.
    now apply is_prefixb_prefix.
  - destruct (IH1 i Hi) as [k [Hk Hik]]. destruct (IH2 k Hk) as [j [Hj Hkj]].
    exists j. split; [exact Hj | now apply t_trans with k].
Qed.

Lemma dg_cyclic_iff : (exists i, reach nat DG i i) <-> (exists e, clos_trans _ (dfollow C) e e).
Proof.
  split.
  - intros [i H]. destruct (dg_reach_elems i i H) as [a [b [Ha [Hb Hab]]]].
    rewrite Ha in Hb. injection Hb as <-. now exists a.
  - intros [e H].
    assert (He : In e C).
    { destruct (ct_first _ _ _ _ H) as [z [He _]]. exact He. }
    destruct (In_nth_error _ _ He) as [i Hi]. destruct (elems_dg_reach e e H i Hi) as [j [Hj Hr]].
    exists i.
    (* e may occur twice in C (at i and at j): an edge into j is also an edge into i *)
    destruct (ct_last nat _ _ _ Hr) as [p [Hpj Hip]].
    assert (Hpi : edge nat DG p i).
    { apply dg_edge in Hpj. apply dg_edge. destruct Hpj as [a [b [Ha [Hb Hf]]]].
      rewrite Hj in Hb. injection Hb as <-. exists a, e. repeat split; assumption. }
    destruct Hip as [->|Hip]; [now apply t_step | apply t_trans with p; [exact Hip | now apply t_step]].
Qed.

End DivertGraph.

(* the prediction evaluated by the checker agrees with the definition *)
Theorem predicts_leak_correct root resolved : wf_cache root resolved ->
  predicts_leak true root resolved = story_leaks true root resolved.
Proof.
  intro Hwf. set (C := cache_edges root resolved).
  destruct (story_leaks true root resolved) eqn:Es.
  - apply (leak_characterisation root resolved Hwf) in Es. fold C in Es.
    apply (dg_cyclic_iff C) in Es. destruct Es as [i Hc].
    unfold predicts_leak. fold C. cbn [andb]. apply negb_true_iff.
    rewrite (frees_all_fast_correct nat Nat.eqb nat_eqb_eq _ (wf_DG C)).
    destruct (RcGraph.frees_all nat Nat.eqb (divert_graph C)) eqn:E; [|reflexivity].
    apply (frees_all_iff_acyclic nat Nat.eqb nat_eqb_eq _ (wf_DG C)) in E. now apply E in Hc.
  - unfold predicts_leak. fold C. cbn [andb]. apply negb_false_iff.
    rewrite (frees_all_fast_correct nat Nat.eqb nat_eqb_eq _ (wf_DG C)).
    apply (frees_all_iff_acyclic nat Nat.eqb nat_eqb_eq _ (wf_DG C)).
    intros i Hc.
    assert (Hex : exists i, reach nat (divert_graph C) i i) by now exists i.
    apply (dg_cyclic_iff C) in Hex. fold C in Es.
    apply (leak_characterisation root resolved Hwf) in Hex. congruence.
Qed.

(* ================= the property as stated, and its refutation today ================= *)
From Ink.Spec Require Import RcRun.

(* `no_leak strong` : no story, whatever set of diverts its history resolved, leaks *)
Definition no_leak (strong : bool) : Prop :=
  forall root resolved, story_leaks strong root resolved = false.

Theorem no_leak_when_weak : no_leak false.
Proof. intros root resolved. apply no_leak_weak. Qed.

(* with the strong cache (runtime/src/divert.rs:82-116 as it stands): the knot that loops to
   itself, once the player has taken "again", is never released *)
Theorem no_leak_strong_refuted :
  exists root resolved, wf_cache root resolved /\ story_leaks true root resolved = true.
Proof.
  exists witness_root, [witness_loop_divert]. split.
  - apply wf_cacheb_sound. vm_compute. reflexivity.
  - vm_compute. reflexivity.
Qed.

(* ... and what is leaked is the knot `k` with everything below it *)
Lemma witness_leaks_knot :
  In [SN [107]%N] (leaked pos pos_eqb (story_graph true witness_root [witness_loop_divert])).
Proof. vm_compute. tauto. Qed.

(* the same story with the cache weak: everything is released *)
Lemma witness_weak_ok : story_leaks false witness_root [witness_loop_divert] = false.
Proof. apply no_leak_weak. Qed.
