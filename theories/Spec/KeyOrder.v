(* Spec/KeyOrder.v — the total order on list items (origin, name) used to give every
   finite map of items ONE canonical representation (strictly sorted association
   list), and the lemmas about it. *)
From Coq Require Import Lia.
From Ink.Data Require Import Types InkList PathProofs.
Local Open Scope N_scope.

(* ---------- text_cmp is a strict total order ---------- *)
Lemma text_cmp_refl : forall a, text_cmp a a = Eq.
Proof. induction a as [|x a IH]; cbn; [reflexivity|]. rewrite N.compare_refl. exact IH. Qed.

Lemma text_cmp_eq : forall a b, text_cmp a b = Eq -> a = b.
Proof.
  induction a as [|x a IH]; destruct b as [|y b]; cbn; intros H; try discriminate; [reflexivity|].
  destruct (N.compare x y) eqn:E; try discriminate.
  apply N.compare_eq_iff in E. subst. f_equal. apply IH. exact H.
Qed.

Lemma text_cmp_antisym : forall a b, text_cmp b a = CompOpp (text_cmp a b).
Proof.
  induction a as [|x a IH]; destruct b as [|y b]; cbn; try reflexivity.
  rewrite (N.compare_antisym x y). destruct (N.compare x y); cbn; [apply IH|reflexivity|reflexivity].
Qed.

Lemma text_cmp_trans : forall a b c, text_cmp a b = Lt -> text_cmp b c = Lt -> text_cmp a c = Lt.
Proof.
  induction a as [|x a IH]; destruct b as [|y b]; destruct c as [|z c]; cbn; intros H1 H2;
    try discriminate; try reflexivity.
  destruct (N.compare x y) eqn:E1; try discriminate.
  - apply N.compare_eq_iff in E1; subst y.
    destruct (N.compare x z) eqn:E2; try discriminate; [|reflexivity]. eapply IH; eassumption.
  - destruct (N.compare y z) eqn:E2; try discriminate.
    + apply N.compare_eq_iff in E2; subst z. rewrite E1. reflexivity.
    + apply N.compare_lt_iff in E1. apply N.compare_lt_iff in E2.
      assert (x < z) as H by (eapply N.lt_trans; eassumption).
      apply N.compare_lt_iff in H. rewrite H. reflexivity.
Qed.

(* ---------- abstract strict total order given by a comparison ---------- *)
Record strict_cmp {A} (cmp : A -> A -> comparison) : Prop := {
  sc_refl : forall a, cmp a a = Eq;
  sc_eq : forall a b, cmp a b = Eq -> a = b;
  sc_antisym : forall a b, cmp b a = CompOpp (cmp a b);
  sc_trans : forall a b c, cmp a b = Lt -> cmp b c = Lt -> cmp a c = Lt
}.

Lemma text_cmp_strict : strict_cmp text_cmp.
Proof. constructor; [apply text_cmp_refl|apply text_cmp_eq|apply text_cmp_antisym|apply text_cmp_trans]. Qed.

Lemma opt_text_cmp_strict : strict_cmp opt_text_cmp.
Proof.
  constructor.
  - intros [a|]; cbn; [apply text_cmp_refl|reflexivity].
  - intros [a|] [b|]; cbn; intros H; try discriminate; [f_equal; apply text_cmp_eq; exact H|reflexivity].
  - intros [a|] [b|]; cbn; try reflexivity. apply text_cmp_antisym.
  - intros [a|] [b|] [c|]; cbn; intros H1 H2; try discriminate; try reflexivity.
    eapply text_cmp_trans; eassumption.
Qed.

Definition lex_cmp {A B} (ca : A -> A -> comparison) (cb : B -> B -> comparison) (x y : A * B) : comparison :=
  match ca (fst x) (fst y) with Eq => cb (snd x) (snd y) | c => c end.

Lemma lex_cmp_strict : forall A B (ca : A -> A -> comparison) (cb : B -> B -> comparison),
  strict_cmp ca -> strict_cmp cb -> strict_cmp (lex_cmp ca cb).
Proof.
  intros A B ca cb Ha Hb. constructor; unfold lex_cmp.
  - intros [a b]; cbn. rewrite (sc_refl _ Ha). apply (sc_refl _ Hb).
  - intros [a b] [a' b']; cbn. destruct (ca a a') eqn:E; try discriminate.
    intros H. apply (sc_eq _ Ha) in E. apply (sc_eq _ Hb) in H. subst. reflexivity.
  - intros [a b] [a' b']; cbn. rewrite (sc_antisym _ Ha a a').
    destruct (ca a a'); cbn; [apply (sc_antisym _ Hb)|reflexivity|reflexivity].
  - intros [a b] [a' b'] [a'' b'']; cbn.
    destruct (ca a a') eqn:E1; try discriminate.
    + apply (sc_eq _ Ha) in E1; subst a'. destruct (ca a a'') eqn:E2; try discriminate; [|reflexivity].
      intros; eapply (sc_trans _ Hb); eassumption.
    + intros _. destruct (ca a' a'') eqn:E2; try discriminate.
      * apply (sc_eq _ Ha) in E2; subst a''. rewrite E1. reflexivity.
      * intros _. rewrite (sc_trans _ Ha _ _ _ E1 E2). reflexivity.
Qed.

(* the key order: origin first (no origin before any origin), then item name *)
Definition key_cmp (a b : listitem) : comparison :=
  lex_cmp opt_text_cmp text_cmp (it_origin a, it_name a) (it_origin b, it_name b).

Lemma key_cmp_strict : strict_cmp key_cmp.
Proof.
  pose proof (lex_cmp_strict _ _ _ _ opt_text_cmp_strict text_cmp_strict) as H.
  constructor; unfold key_cmp.
  - intros a. apply (sc_refl _ H).
  - intros [oa na] [ob nb] E. apply (sc_eq _ H) in E. cbn in E. injection E as -> ->. reflexivity.
  - intros a b. apply (sc_antisym _ H).
  - intros a b c. apply (sc_trans _ H).
Qed.

Lemma opt_text_eqb_eq : forall a b, opt_text_eqb a b = true <-> a = b.
Proof.
  intros [a|] [b|]; cbn; split; intros H; try discriminate; try reflexivity.
  - f_equal. apply text_eqb_eq. exact H.
  - injection H as ->. apply text_eqb_refl.
Qed.

Lemma item_eqb_eq : forall a b, item_eqb a b = true <-> a = b.
Proof.
  intros [oa na] [ob nb]. unfold item_eqb; cbn. rewrite andb_true_iff, opt_text_eqb_eq, text_eqb_eq.
  split; [intros [-> ->]; reflexivity|intros H; injection H as -> ->; split; reflexivity].
Qed.

Lemma item_eqb_refl : forall a, item_eqb a a = true.
Proof. intros; apply item_eqb_eq; reflexivity. Qed.

Lemma item_eqb_neq : forall a b, item_eqb a b = false <-> a <> b.
Proof.
  intros a b. split.
  - intros H E. apply item_eqb_eq in E. congruence.
  - intros H. destruct (item_eqb a b) eqn:E; [apply item_eqb_eq in E; contradiction|reflexivity].
Qed.

Lemma key_cmp_eq_iff : forall a b, key_cmp a b = Eq <-> a = b.
Proof.
  intros a b; split; [apply (sc_eq _ key_cmp_strict)|intros ->; apply (sc_refl _ key_cmp_strict)].
Qed.

Lemma key_cmp_gt_lt : forall a b, key_cmp a b = Gt <-> key_cmp b a = Lt.
Proof.
  intros a b. rewrite (sc_antisym _ key_cmp_strict a b). destruct (key_cmp a b); cbn; split; congruence.
Qed.
