(* Spec/ExprSpec.v — what Ink prescribes for the operators on numbers, strings and
   lists, written the obvious way, and the theorems that the model of
   NativeFunctionCall::call (Data/Native.v) refines it.

   Scalars: the two operands are first brought to their JOIN type
   (bool -> int -> float -> string; a bool takes part in arithmetic as the int 0/1),
   then the mathematical operation of that type is applied: 32-bit wrapping integer
   arithmetic with truncating division (zero divisor = error), IEEE-754 binary32
   arithmetic (Flocq), string concatenation / equality / containment.
   Lists: the set algebra of Spec/ListSpec.v. *)
From Coq Require Import Lia Permutation.
From Ink.Data Require Import Types Path InkList IntSem Value Native InkListProofs NativeProofs.
From Ink.Gen Require Import NativeGen.
From Ink.Spec Require Import KeyOrder ListSpec ListSpecProofs.
Local Open Scope Z_scope.

Inductive sval :=
| SBool (b : bool) | SInt (z : Z) | SFloat (bits : Z) | SStr (s : text) | SList (s : sset).
(* a specification never panics: there is no third outcome *)
Inductive sres := ROk (v : sval) | RErr.

Inductive rank := RInt | RFloat | RStr.
Definition rank_of (v : sval) : rank :=
  match v with SBool _ | SInt _ => RInt | SFloat _ => RFloat | _ => RStr end.
Definition join (a b : rank) : rank :=
  match a, b with
  | RStr, _ | _, RStr => RStr
  | RFloat, _ | _, RFloat => RFloat
  | _, _ => RInt
  end.

Section Spec.
Variable fo : float_oracle.

Definition to_int (v : sval) : Z :=
  match v with SBool b => if b then 1 else 0 | SInt z => z | _ => 0 end.
Definition to_float (v : sval) : Z :=
  match v with
  | SBool b => if b then f32_one else f32_zero
  | SInt z => f32_of_i32 z
  | SFloat f => f
  | _ => f32_zero
  end.
Definition to_str (v : sval) : text :=
  match v with
  | SBool b => if b then T "true" else T "false"
  | SInt z => show_Z z
  | SFloat f => f32_show fo f
  | SStr s => s
  | SList _ => []
  end.

Definition nz (z : Z) : bool := negb (z =? 0).
Definition fnz (f : Z) : bool := negb (f32_is_zero f).

Definition int_binop (op : nop) (x y : Z) : sres :=
  match op with
  | NAdd => ROk (SInt (wrap32 (x + y)))
  | NSubtract => ROk (SInt (wrap32 (x - y)))
  | NMultiply => ROk (SInt (wrap32 (x * y)))
  | NDivide => if y =? 0 then RErr else ROk (SInt (wrap32 (Z.quot x y)))
  | NMod => if y =? 0 then RErr else ROk (SInt (wrap32 (Z.rem x y)))
  | NEqual => ROk (SBool (x =? y))
  | NNotEquals => ROk (SBool (negb (x =? y)))
  | NGreater => ROk (SBool (y <? x))
  | NLess => ROk (SBool (x <? y))
  | NGreaterEq => ROk (SBool (y <=? x))
  | NLessEq => ROk (SBool (x <=? y))
  | NAnd => ROk (SBool (nz x && nz y))
  | NOr => ROk (SBool (nz x || nz y))
  | NMin => ROk (SInt (Z.min x y))
  | NMax => ROk (SInt (Z.max x y))
  | NPow => ROk (SFloat (f32_pow fo (f32_of_i32 x) (f32_of_i32 y)))
  | _ => RErr
  end.

Definition float_binop (op : nop) (x y : Z) : sres :=
  match op with
  | NAdd => ROk (SFloat (f32_add x y))
  | NSubtract => ROk (SFloat (f32_sub x y))
  | NMultiply => ROk (SFloat (f32_mul x y))
  | NDivide => ROk (SFloat (f32_div x y))
  | NMod => ROk (SFloat (f32_rem fo x y))
  | NEqual => ROk (SBool (f32_eqb x y))
  | NNotEquals => ROk (SBool (negb (f32_eqb x y)))
  | NGreater => ROk (SBool (f32_gtb x y))
  | NLess => ROk (SBool (f32_ltb x y))
  | NGreaterEq => ROk (SBool (f32_geb x y))
  | NLessEq => ROk (SBool (f32_leb x y))
  | NAnd => ROk (SBool (fnz x && fnz y))
  | NOr => ROk (SBool (fnz x || fnz y))
  | NMin => ROk (SFloat (f32_min x y))
  | NMax => ROk (SFloat (f32_max x y))
  | NPow => ROk (SFloat (f32_pow fo x y))
  | _ => RErr
  end.

Definition str_binop (op : nop) (x y : text) : sres :=
  match op with
  | NAdd => ROk (SStr (x ++ y))
  | NEqual => ROk (SBool (text_eqb x y))
  | NNotEquals => ROk (SBool (negb (text_eqb x y)))
  | NHas => ROk (SBool (contains_text x y))
  | NHasnt => ROk (SBool (negb (contains_text x y)))
  | _ => RErr
  end.

Definition spec_binary (op : nop) (a b : sval) : sres :=
  match join (rank_of a) (rank_of b) with
  | RInt => int_binop op (to_int a) (to_int b)
  | RFloat => float_binop op (to_float a) (to_float b)
  | RStr => str_binop op (to_str a) (to_str b)
  end.

Definition spec_unary (op : nop) (a : sval) : sres :=
  match rank_of a with
  | RInt =>
      let x := to_int a in
      match op with
      | NNegate => ROk (SInt (wrap32 (- x)))
      | NNot => ROk (SBool (x =? 0))
      | NFloor | NCeiling | NInt => ROk (SInt x)
      | NFloat => ROk (SFloat (f32_of_i32 x))
      | _ => RErr
      end
  | RFloat =>
      let x := to_float a in
      match op with
      | NNegate => ROk (SFloat (f32_neg x))
      | NNot => ROk (SBool (f32_is_zero x))
      | NFloor => ROk (SFloat (f32_floor x))
      | NCeiling => ROk (SFloat (f32_ceil x))
      | NInt => ROk (SInt (f32_to_i32 x))
      | NFloat => ROk (SFloat x)
      | _ => RErr
      end
  | RStr => RErr
  end.

Definition is_binary (op : nop) : bool :=
  match op with
  | NNegate | NNot | NFloor | NCeiling | NInt | NFloat
  | NListMin | NListMax | NAll | NCount | NValueOfList | NInvert => false
  | _ => true
  end.

(* operators applied to scalars (bool, int, float, string) *)
Definition spec_scalar_op (op : nop) (args : list sval) : sres :=
  match args with
  | [a] => if is_binary op then RErr else spec_unary op a
  | [a; b] => if is_binary op then spec_binary op a b else RErr
  | _ => RErr
  end.

(* operators applied to two lists / one list *)
Definition spec_list_binary (op : nop) (a b : sset) : sres :=
  match op with
  | NAdd => ROk (SList (s_union a b))
  | NSubtract => ROk (SList (s_diff a b))
  | NIntersect => ROk (SList (s_inter a b))
  | NHas => ROk (SBool (s_has a b))
  | NHasnt => ROk (SBool (negb (s_has a b)))
  | NEqual => ROk (SBool (s_eq a b))
  | NNotEquals => ROk (SBool (negb (s_eq a b)))
  | NGreater => ROk (SBool (s_gt a b))
  | NLess => ROk (SBool (s_lt a b))
  | NGreaterEq => ROk (SBool (s_ge a b))
  | NLessEq => ROk (SBool (s_le a b))
  | NAnd => ROk (SBool (negb (s_is_empty a) && negb (s_is_empty b)))
  | NOr => ROk (SBool (negb (s_is_empty a) || negb (s_is_empty b)))
  | _ => RErr
  end.
(* [ds]: the declarations of the list's origins *)
Definition spec_list_unary (ds : list listdef) (op : nop) (a : sset) : sres :=
  match op with
  | NCount => ROk (SInt (s_count a))
  | NValueOfList => ROk (SInt (s_value a))
  | NNot => ROk (SInt (if s_is_empty a then 1 else 0))
  | NAll => ROk (SList (s_all ds))
  | NInvert => ROk (SList (s_invert ds a))
  | NListMin => ROk (SList (s_min_list a))
  | NListMax => ROk (SList (s_max_list a))
  | _ => RErr
  end.
(* list + int / list - int ([ds]: the declarations of the list's origins) *)
Definition spec_list_increment (ds : list listdef) (op : nop) (a : sset) (n : Z) : sres :=
  match op with
  | NAdd => ROk (SList (s_shift ds a n))
  | NSubtract => ROk (SList (s_shift ds a (- n)))
  | _ => RErr
  end.
(* the commands LIST_RANGE(list, lo, hi) and ListName(n) *)
Definition spec_list_range (a : sset) (lo hi : sbound) : sres := ROk (SList (s_range_b a lo hi)).
Definition spec_list_from_int (ds : list listdef) (name : text) (n : Z) : sres :=
  match s_from_int ds name n with Some s => ROk (SList s) | None => RErr end.
End Spec.

(* ---------- abstraction of model values and outcomes ---------- *)
Definition scalar (v : value) : Prop :=
  match v with VBool _ | VInt _ | VFloat _ | VString _ => True | _ => False end.
Definition abs_value (v : value) : option sval :=
  match v with
  | VBool b => Some (SBool b) | VInt z => Some (SInt z) | VFloat f => Some (SFloat f)
  | VString s => Some (SStr s) | VList l => Some (SList (abs l))
  | _ => None
  end.
Definition abs_scalar (v : value) : sval :=
  match v with
  | VBool b => SBool b | VInt z => SInt z | VFloat f => SFloat f | VString s => SStr s
  | _ => SStr []
  end.
Definition abs_res (r : Res obj) : option sres :=
  match r with
  | Ok (OVal v) => option_map ROk (abs_value v)
  | Ok _ => None
  | Err _ _ => Some RErr
  | Panic _ => None
  end.

(* ---------- scalars: all 31 operators, every operand type combination ---------- *)
Theorem native_refines_spec_wrapping : forall oo ovf fo defs op args, Forall scalar args ->
  abs_res (call_native_g oo sem_wrapping ovf fo defs op (map OVal args)) =
  Some (spec_scalar_op fo op (map abs_scalar args)).
Proof.
  intros oo ovf fo defs op args Hs.
  destruct args as [|a [|b [|c r]]].
  - destruct op; reflexivity.
  - inversion Hs as [|? ? Ha _]; subst. destruct a; try contradiction; destruct op; try reflexivity.
  - inversion Hs as [|? ? Ha Hs']; subst. inversion Hs' as [|? ? Hb _]; subst.
    destruct a; try contradiction; destruct b; try contradiction; destruct op; try reflexivity;
      cbn; unfold i32_div, i32_rem; cbn;
      match goal with |- context [?z =? 0] => destruct (z =? 0); reflexivity end.
  - destruct op; reflexivity.
Qed.

Theorem native_refines_spec_lemma : forall oo ovf fo defs op args, Forall scalar args ->
  abs_res (call_native_g oo int_sem_now ovf fo defs op (map OVal args)) =
  Some (spec_scalar_op fo op (map abs_scalar args)).
Proof. intros. rewrite sem_now_wrapping. apply native_refines_spec_wrapping. assumption. Qed.

Example native_refines_spec_example :
  Forall scalar [VString (T "a"); VInt 12] /\
  spec_scalar_op {| f32_show := fun _ => []; f32_pow := fun _ _ => 0; f32_rem := fun _ _ => 0; f32_parse := fun _ => None |}
                 NAdd [SStr (T "a"); SInt 12] = ROk (SStr (T "a12")).
Proof. split; [repeat constructor|reflexivity]. Qed.

(* ---------- lists: list (op) list ---------- *)
Lemma is_empty_abs_list : forall l, s_is_empty (abs l) = list_is_empty l.
Proof. intros. apply is_empty_abs. Qed.

Theorem native_list_binary_refines_wrapping : forall oo ovf fo defs op a b,
  ord_ok oo -> wf_list a -> wf_list b -> is_binary op = true ->
  abs_res (call_native_g oo sem_wrapping ovf fo defs op [OVal (VList a); OVal (VList b)]) =
  Some (spec_list_binary op (abs a) (abs b)).
Proof.
  intros oo ovf fo defs op a b Hoo Ha Hb Hbin.
  assert (Hct : call_native_g oo sem_wrapping ovf fo defs op [OVal (VList a); OVal (VList b)] =
                call_type oo sem_wrapping ovf fo defs op [VList a; VList b]).
  { destruct op; try discriminate Hbin; reflexivity. }
  rewrite Hct. clear Hct.
  destruct op; try discriminate Hbin; cbn [call_type bin]; try reflexivity;
    unfold add_op, subtract_op, equal_op, not_equals_op, greater_op, less_op, greater_eq_op, less_eq_op,
           and_op, or_op, has_op, hasnt_op, intersect_op, equal_core, ok_val;
    cbn [bind abs_res abs_value option_map spec_list_binary].
  - rewrite union_refines by assumption. reflexivity.
  - rewrite without_refines by assumption. reflexivity.
  - rewrite eq_refines by assumption. reflexivity.
  - rewrite greater_than_refines by assumption. reflexivity.
  - rewrite less_than_refines by assumption. reflexivity.
  - rewrite greater_than_or_equals_refines by assumption. reflexivity.
  - rewrite less_than_or_equals_refines by assumption. reflexivity.
  - rewrite eq_refines by assumption. reflexivity.
  - rewrite !is_empty_abs_list. reflexivity.
  - rewrite !is_empty_abs_list. reflexivity.
  - rewrite contains_refines by assumption. reflexivity.
  - rewrite contains_refines by assumption. reflexivity.
  - rewrite intersect_refines by assumption. reflexivity.
Qed.

Theorem native_list_binary_refines_lemma : forall oo ovf fo defs op a b,
  ord_ok oo -> wf_list a -> wf_list b -> is_binary op = true ->
  abs_res (call_native_g oo int_sem_now ovf fo defs op [OVal (VList a); OVal (VList b)]) =
  Some (spec_list_binary op (abs a) (abs b)).
Proof. intros. rewrite sem_now_wrapping. apply native_list_binary_refines_wrapping; assumption. Qed.

(* ---------- lists: unary operators ---------- *)
Definition list_unary_covered (op : nop) : bool :=
  match op with NCount | NValueOfList | NNot | NAll | NInvert | NListMin | NListMax => true | _ => false end.

Theorem native_list_unary_refines_lemma : forall oo sem ovf fo defs op a ds,
  ord_ok oo -> wf_list a -> origin_defs defs a = Ok ds -> Forall wf_def ds ->
  list_unary_covered op = true ->
  abs_res (call_native_g oo sem ovf fo defs op [OVal (VList a)]) =
  Some (spec_list_unary ds op (abs a)).
Proof.
  intros oo sem ovf fo defs op a ds Hoo Ha Hds Hwf Hop.
  assert (Hct : call_native_g oo sem ovf fo defs op [OVal (VList a)] =
                call_type oo sem ovf fo defs op [VList a]).
  { destruct op; try discriminate Hop; reflexivity. }
  rewrite Hct. clear Hct.
  destruct op; try discriminate Hop; cbn [call_type un list_unary not_op]; unfold ok_val;
    cbn [abs_res abs_value option_map spec_list_unary].
  - rewrite is_empty_abs_list. reflexivity.
  - rewrite (min_as_list_refines oo a Hoo Ha). reflexivity.
  - rewrite (max_as_list_refines oo a Hoo Ha). reflexivity.
  - destruct (all_refines defs a ds Hds Hwf) as [r [Hr Habs]]. rewrite Hr.
    cbn [bind abs_res abs_value option_map]. rewrite Habs. reflexivity.
  - rewrite count_refines by assumption. reflexivity.
  - rewrite (value_of_list_refines oo a Hoo Ha). reflexivity.
  - destruct (invert_refines defs a ds Hds Hwf Ha) as [r [Hr Habs]]. rewrite Hr.
    cbn [bind abs_res abs_value option_map]. rewrite Habs. reflexivity.
Qed.

(* ---------- "independent of the order items were added" ---------- *)
Theorem list_ops_insertion_order_free_lemma : forall l l',
  wf_list l -> Permutation (l_items l) (l_items l') -> abs l = abs l'.
Proof. intros l l' H Hp. apply abs_insertion_order_free; assumption. Qed.

(* ... hence every covered list operator gives equal results on rearranged operands *)
Corollary native_list_binary_order_free : forall oo1 oo2 ovf fo defs op a a' b b',
  ord_ok oo1 -> ord_ok oo2 -> wf_list a -> wf_list b -> is_binary op = true ->
  Permutation (l_items a) (l_items a') -> Permutation (l_items b) (l_items b') ->
  abs_res (call_native_g oo1 int_sem_now ovf fo defs op [OVal (VList a); OVal (VList b)]) =
  abs_res (call_native_g oo2 int_sem_now ovf fo defs op [OVal (VList a'); OVal (VList b')]).
Proof.
  intros oo1 oo2 ovf fo defs op a a' b b' H1 H2 Ha Hb Hop Pa Pb.
  assert (Ha' : wf_list a').
  { unfold wf_list, keys_nodup, keys. eapply Permutation_NoDup; [apply Permutation_map; exact Pa|exact Ha]. }
  assert (Hb' : wf_list b').
  { unfold wf_list, keys_nodup, keys. eapply Permutation_NoDup; [apply Permutation_map; exact Pb|exact Hb]. }
  rewrite !native_list_binary_refines_lemma by assumption.
  rewrite (list_ops_insertion_order_free_lemma a a' Ha Pa), (list_ops_insertion_order_free_lemma b b' Hb Pb).
  reflexivity.
Qed.
