(* Spec/ListSpecProofs.v — the model of ink_list.rs / the list arms of control_logic.rs /
   call_list_increment_operation refines the set-theoretic specification of
   LIST_RANGE (int and list bounds), LIST_MIN / LIST_MAX (as one-item lists),
   list + int / list - int and ListName(n)   (Spec/ListSpec.v).
   Statements about [get_min_item] / [def_item_with_value] are about the code AS IT IS
   WRITTEN NOW: they use NativeGen.tie_break_now = TieTotal (regenerated from the Rust
   source on every check) and stop compiling when the code loses that fact. *)
From Coq Require Import Lia Permutation Sorted.
From Ink.Data Require Import Types InkList IntSem Value Native PathProofs InkListProofs NativeProofs.
From Ink.Spec Require Import KeyOrder ListSpec.
Local Open Scope Z_scope.

(* ---------- small facts about maps ---------- *)
Lemma nodup_perm : forall m m' : items, Permutation m m' -> keys_nodup m -> keys_nodup m'.
Proof.
  intros m m' Hp H. unfold keys_nodup, keys. eapply Permutation_NoDup; [apply Permutation_map; exact Hp|exact H].
Qed.

Lemma sort_by_perm_gen : forall A (cmp : A -> A -> comparison) l, Permutation (sort_by cmp l) l.
Proof.
  intros A cmp. assert (Hins : forall x l, Permutation (insert_by cmp x l) (x :: l)).
  { induction l as [|y r IH]; cbn; [apply Permutation_refl|].
    destruct (cmp x y); try apply Permutation_refl.
    eapply perm_trans; [apply perm_skip, IH|apply perm_swap]. }
  induction l as [|x r IH]; cbn; [apply Permutation_refl|].
  eapply perm_trans; [apply Hins|apply perm_skip, IH].
Qed.

Lemma ordered_items_perm : forall oo l, ord_ok oo -> Permutation (get_ordered_items oo l) (l_items l).
Proof.
  intros oo l [H _]. unfold get_ordered_items, get_ordered_items_tb.
  eapply perm_trans; [apply sort_by_perm_gen|apply H].
Qed.

(* filter on entries (key and value) of a duplicate-free map *)
Lemma items_get_filter_val : forall (f : listitem * Z -> bool) k m, keys_nodup m ->
  items_get k (filter f m) =
  match items_get k m with Some v => if f (k, v) then Some v else None | None => None end.
Proof.
  induction m as [|[k2 v2] r IH]; intros Hnd; [reflexivity|].
  inversion Hnd as [|? ? Hnotin Hnd']; subst. specialize (IH Hnd').
  cbn [filter items_get]. destruct (item_eqb k k2) eqn:E.
  - apply item_eqb_eq in E. subst k2.
    assert (Hn : items_get k r = None) by (apply items_get_none; exact Hnotin).
    destruct (f (k, v2)) eqn:F.
    + cbn [items_get]. rewrite item_eqb_refl. reflexivity.
    + rewrite IH, Hn. reflexivity.
  - destruct (f (k2, v2)); [cbn [items_get]; rewrite E|]; exact IH.
Qed.

Lemma abs_items_canonical_id : forall a, canonical a -> abs_items a = a.
Proof.
  intros a Ha. apply canonical_ext; [apply abs_items_canonical|exact Ha|].
  intros k. apply get_abs_items, canonical_nodup, Ha.
Qed.

Lemma abs_single : forall k v, abs (list_single k v) = [(k, v)].
Proof. reflexivity. Qed.
Lemma abs_new : abs list_new = [].
Proof. reflexivity. Qed.

Lemma abs_empty : forall l, list_is_empty l = true -> abs l = [].
Proof. intros l H. unfold abs. unfold list_is_empty in H. destruct (l_items l); [reflexivity|discriminate]. Qed.

(* ---------- LIST_RANGE ---------- *)
Lemma range_items_refines : forall oo l lo hi, ord_ok oo -> wf_list l ->
  abs_items (items_insert_all
               (filter (fun kv : listitem * Z => (lo <=? snd kv) && (snd kv <=? hi)) (get_ordered_items oo l)) []) =
  ListSpec.s_range (abs l) lo hi.
Proof.
  intros oo l lo hi Hoo Hwf. unfold ListSpec.s_range, abs.
  set (f := fun kv : listitem * Z => (lo <=? snd kv) && (snd kv <=? hi)).
  pose proof (ordered_items_perm oo l Hoo) as Hp.
  assert (Hnd : keys_nodup (get_ordered_items oo l)).
  { eapply nodup_perm; [apply Permutation_sym; exact Hp|exact Hwf]. }
  apply canonical_ext; [apply abs_items_canonical|apply canonical_filter, abs_items_canonical|].
  intros k.
  rewrite get_abs_items by (apply nodup_insert_all; constructor).
  rewrite items_get_insert_all by (apply nodup_filter; exact Hnd).
  rewrite (items_get_filter_val f k _ Hnd).
  rewrite (items_get_filter_val f k _ (canonical_nodup _ (abs_items_canonical _))).
  rewrite get_abs_items by exact Hwf.
  rewrite (items_get_perm _ _ k Hnd Hp).
  destruct (items_get k (l_items l)) as [v|]; [|reflexivity].
  destruct (f (k, v)); reflexivity.
Qed.

(* a bound of LIST_RANGE: an int or a list *)
Definition abs_bound (v : value) : option sbound :=
  match v with
  | VInt z => Some (BInt z)
  | VList l => Some (BList (abs l))
  | _ => None
  end.
Definition wf_bound (v : value) : Prop := match v with VList l => wf_list l | _ => True end.

Lemma range_min_bound_refines : forall oo v b, ord_ok oo -> wf_bound v -> abs_bound v = Some b ->
  range_min_bound oo v = s_lower b.
Proof.
  intros oo v b Hoo Hwf Hb. destruct v; try discriminate Hb; injection Hb as <-; [reflexivity|].
  cbn [range_min_bound s_lower]. rewrite <- (min_value_refines oo l Hoo Hwf), min_value_unfold.
  pose proof (get_min_item_none oo Hoo l) as Hn.
  destruct (list_is_empty l) eqn:E.
  - rewrite (proj2 Hn eq_refl). reflexivity.
  - destruct (get_min_item oo l) as [[k v]|]; reflexivity.
Qed.

Lemma range_max_bound_refines : forall oo v b, ord_ok oo -> wf_bound v -> abs_bound v = Some b ->
  range_max_bound oo v = s_upper b.
Proof.
  intros oo v b Hoo Hwf Hb. destruct v; try discriminate Hb; injection Hb as <-; [reflexivity|].
  cbn [range_max_bound s_upper]. rewrite <- (max_value_refines oo l Hoo Hwf), max_value_unfold.
  pose proof (get_max_item_none oo Hoo l) as Hn.
  destruct (list_is_empty l) eqn:E.
  - rewrite (proj2 Hn eq_refl). reflexivity.
  - destruct (get_max_item oo l) as [[k v]|]; reflexivity.
Qed.

Theorem list_range_refines : forall oo cm l vlo vhi lo hi,
  ord_ok oo -> wf_list l -> wf_bound vlo -> wf_bound vhi ->
  abs_bound vlo = Some lo -> abs_bound vhi = Some hi ->
  abs (list_with_sub_range oo cm l vlo vhi) = s_range_b (abs l) lo hi.
Proof.
  intros oo cm l vlo vhi lo hi Hoo Hwf Hwlo Hwhi Hlo Hhi. unfold list_with_sub_range, s_range_b.
  destruct (list_is_empty l) eqn:E.
  - rewrite (abs_empty l E). reflexivity.
  - rewrite (range_min_bound_refines oo vlo lo Hoo Hwlo Hlo), (range_max_bound_refines oo vhi hi Hoo Hwhi Hhi).
    unfold abs at 1. cbn [l_items]. apply range_items_refines; assumption.
Qed.

(* non-vacuity, and the point of the lower bound: LIST_RANGE((a, b, c), (b, z), MAX) keeps b and c *)
Example list_range_example :
  let l := mkList [(mkItem (Some (T "L")) (T "c"), 3); (mkItem (Some (T "L")) (T "a"), 1);
                   (mkItem (Some (T "L")) (T "b"), 2)] [] [] in
  let lo := mkList [(mkItem (Some (T "M")) (T "z"), 5); (mkItem (Some (T "L")) (T "b"), 2)] [] [] in
  wf_list l /\ wf_bound (VList lo) /\
  s_range_b (abs l) (BList (abs lo)) (BInt i32_max) =
  [(mkItem (Some (T "L")) (T "b"), 2); (mkItem (Some (T "L")) (T "c"), 3)].
Proof.
  cbn zeta. split; [|split]; [| |reflexivity]; repeat constructor; cbn; intuition discriminate.
Qed.

(* ---------- LIST_MIN / LIST_MAX ---------- *)
Lemma tie_now_total : tie_break_now = TieTotal.
Proof. reflexivity. Qed.

Lemma find_first_sorted : forall (A : Type) (R : A -> A -> Prop) (p : A -> bool) (a : list A) (r : A),
  (forall x y, R x y -> R y x -> False) ->
  StronglySorted R a -> In r a -> p r = true ->
  (forall x, In x a -> p x = true -> x = r \/ R r x) -> find p a = Some r.
Proof.
  intros A R p a r Hasym. induction a as [|y t IH]; intros Hs Hin Hp Hall; [contradiction|].
  apply StronglySorted_inv in Hs as [Hs Hy]. rewrite Forall_forall in Hy. cbn [find].
  destruct (p y) eqn:Py.
  - destruct (Hall y (or_introl eq_refl) Py) as [->|Hry]; [reflexivity|].
    destruct Hin as [->|Hin]; [reflexivity|]. exfalso. apply (Hasym r y Hry). apply Hy. exact Hin.
  - destruct Hin as [->|Hin]; [congruence|].
    apply IH; try assumption. intros x Hx. apply Hall. right. exact Hx.
Qed.

Lemma sorted_snoc : forall (A : Type) (R : A -> A -> Prop) l x,
  StronglySorted R l -> Forall (fun y => R y x) l -> StronglySorted R (l ++ [x]).
Proof.
  induction l as [|y t IH]; cbn; intros x Hs Hall; [repeat constructor|].
  apply StronglySorted_inv in Hs as [Hs Hy]. inversion Hall as [|? ? Hyx Hall']; subst.
  constructor; [apply IH; assumption|]. apply Forall_app. split; [exact Hy|repeat constructor; exact Hyx].
Qed.

Lemma sorted_rev : forall (A : Type) (R : A -> A -> Prop) l,
  StronglySorted R l -> StronglySorted (fun x y => R y x) (rev l).
Proof.
  induction l as [|y t IH]; cbn; intros Hs; [constructor|].
  apply StronglySorted_inv in Hs as [Hs Hy]. apply sorted_snoc; [apply IH; exact Hs|].
  rewrite Forall_forall in *. intros x Hx. apply Hy. apply in_rev. exact Hx.
Qed.

Lemma key_lt_asym : forall x y, key_lt x y -> key_lt y x -> False.
Proof.
  unfold key_lt. intros x y H1 H2. rewrite (sc_antisym _ key_cmp_strict), H1 in H2. discriminate.
Qed.

(* entries with the same value are ordered by their keys *)
Lemma entry_cmp_same_value : forall r x, snd x = snd r -> entry_cmp r x = key_cmp (fst r) (fst x).
Proof.
  intros r x E. unfold entry_cmp, key_cmp, lex_cmp. rewrite E, Z.compare_refl. reflexivity.
Qed.

Lemma same_value_le : forall r x, snd x = snd r -> entry_cmp r x <> Gt -> x = r \/ key_lt r x.
Proof.
  intros r x E H. rewrite (entry_cmp_same_value r x E) in H. unfold key_lt.
  destruct (key_cmp (fst r) (fst x)) eqn:C; [left|right; reflexivity|congruence].
  apply key_cmp_eq_iff in C. destruct r, x; cbn in *; subst; reflexivity.
Qed.

Lemma s_min_value_of_least : forall a r, canonical a -> is_least a r -> s_min_value a = Some (snd r).
Proof.
  intros a r Ha [Hin Hall].
  pose proof (min_value_refines ord_id (mkList a [] []) ord_id_ok (canonical_nodup _ Ha)) as H.
  unfold abs in H. cbn [l_items] in H. rewrite (abs_items_canonical_id a Ha) in H. rewrite <- H.
  rewrite min_value_unfold. pose proof (get_min_item_spec ord_id ord_id_ok (mkList a [] [])) as S.
  cbn [l_items] in S. destruct (get_min_item ord_id (mkList a [] [])) as [r'|].
  - cbn. f_equal. eapply is_min_value_unique; [exact S|].
    split; [exact Hin|]. intros x Hx. apply entry_le_value, Hall, Hx.
  - rewrite S in Hin. contradiction.
Qed.

Lemma s_max_value_of_greatest : forall a r, canonical a -> is_greatest a r -> s_max_value a = Some (snd r).
Proof.
  intros a r Ha [Hin Hall].
  pose proof (max_value_refines ord_id (mkList a [] []) ord_id_ok (canonical_nodup _ Ha)) as H.
  unfold abs in H. cbn [l_items] in H. rewrite (abs_items_canonical_id a Ha) in H. rewrite <- H.
  rewrite max_value_unfold. pose proof (get_max_item_spec ord_id ord_id_ok (mkList a [] [])) as S.
  cbn [l_items] in S. destruct (get_max_item ord_id (mkList a [] [])) as [r'|].
  - cbn. f_equal. eapply is_max_value_unique; [exact S|].
    split; [exact Hin|]. intros x Hx. apply entry_le_value, Hall, Hx.
  - rewrite S in Hin. contradiction.
Qed.

Lemma s_min_item_of_least : forall a r, canonical a -> is_least a r -> s_min_item a = Some r.
Proof.
  intros a r Ha Hl. unfold s_min_item. rewrite (s_min_value_of_least a r Ha Hl). destruct Hl as [Hin Hall].
  apply (find_first_sorted _ key_lt); [exact key_lt_asym|exact Ha|exact Hin|apply Z.eqb_refl|].
  intros x Hx Px. apply Z.eqb_eq in Px. apply same_value_le; [exact Px|apply Hall; exact Hx].
Qed.

Lemma s_max_item_of_greatest : forall a r, canonical a -> is_greatest a r -> s_max_item a = Some r.
Proof.
  intros a r Ha Hg. unfold s_max_item. rewrite (s_max_value_of_greatest a r Ha Hg). destruct Hg as [Hin Hall].
  apply (find_first_sorted _ (fun x y => key_lt y x)).
  - intros x y H1 H2. exact (key_lt_asym _ _ H1 H2).
  - apply sorted_rev. exact Ha.
  - apply in_rev in Hin. exact Hin.
  - apply Z.eqb_refl.
  - intros x Hx Px. apply in_rev in Hx. apply Z.eqb_eq in Px.
    destruct (same_value_le x r (eq_sym Px) (Hall x Hx)) as [->|H]; [left; reflexivity|right; exact H].
Qed.

Lemma is_least_perm : forall m m' r, Permutation m m' -> is_least m r -> is_least m' r.
Proof.
  intros m m' r Hp [Hin Hall]. split; [eapply Permutation_in; eassumption|].
  intros x Hx. apply Hall. eapply Permutation_in; [apply Permutation_sym; exact Hp|exact Hx].
Qed.
Lemma is_greatest_perm : forall m m' r, Permutation m m' -> is_greatest m r -> is_greatest m' r.
Proof.
  intros m m' r Hp [Hin Hall]. split; [eapply Permutation_in; eassumption|].
  intros x Hx. apply Hall. eapply Permutation_in; [apply Permutation_sym; exact Hp|exact Hx].
Qed.

Theorem min_as_list_refines : forall oo l, ord_ok oo -> wf_list l ->
  abs (list_min_as_list oo l) = s_min_list (abs l).
Proof.
  intros oo l Hoo Hwf. unfold list_min_as_list, s_min_list, get_min_item. rewrite tie_now_total.
  pose proof (get_min_item_total_spec oo Hoo l) as S.
  destruct (get_min_item_tb oo TieTotal l) as [[k v]|].
  - rewrite abs_single.
    rewrite (s_min_item_of_least (abs l) (k, v) (abs_canonical l)); [reflexivity|].
    eapply is_least_perm; [apply Permutation_sym, abs_items_perm; exact Hwf|exact S].
  - unfold abs. rewrite S. reflexivity.
Qed.

Theorem max_as_list_refines : forall oo l, ord_ok oo -> wf_list l ->
  abs (list_max_as_list oo l) = s_max_list (abs l).
Proof.
  intros oo l Hoo Hwf. unfold list_max_as_list, s_max_list, get_max_item. rewrite tie_now_total.
  pose proof (get_max_item_total_spec oo Hoo l) as S.
  destruct (get_max_item_tb oo TieTotal l) as [[k v]|].
  - rewrite abs_single.
    rewrite (s_max_item_of_greatest (abs l) (k, v) (abs_canonical l)); [reflexivity|].
    eapply is_greatest_perm; [apply Permutation_sym, abs_items_perm; exact Hwf|exact S].
  - unfold abs. rewrite S. reflexivity.
Qed.

(* the tie: L.a = M.x = 1 — LIST_MIN picks (1, "L", "a"), LIST_MAX picks (1, "M", "x") *)
Example min_max_tie_example :
  wf_list tie_list /\
  s_min_list (abs tie_list) = [(mkItem (Some (T "L")) (T "a"), 1)] /\
  s_max_list (abs tie_list) = [(mkItem (Some (T "M")) (T "x"), 1)].
Proof. split; [|split; reflexivity]. repeat constructor; cbn; intuition discriminate. Qed.

(* ---------- ListDefinition::get_item_with_value ---------- *)
Lemma text_le_antisym : forall a b : text, text_cmp a b <> Gt -> text_cmp b a <> Gt -> a = b.
Proof.
  intros a b H1 H2. rewrite text_cmp_antisym in H2. apply text_cmp_eq.
  destruct (text_cmp a b); cbn in H2; congruence.
Qed.

Lemma item_with_value_refines : forall oo d v, ord_ok oo ->
  def_item_with_value oo d v = s_item_with_value d v.
Proof.
  intros oo d v [_ Ho]. unfold def_item_with_value. rewrite tie_now_total.
  unfold def_item_with_value_tb, s_item_with_value.
  set (f := fun nv : text * Z => snd nv =? v).
  assert (Hp : Permutation (filter f (ord_def oo (snd d))) (filter f (snd d))) by (apply filter_perm, Ho).
  pose proof (min_name_fold_spec (filter f (ord_def oo (snd d))) None) as A.
  pose proof (sort_by_perm_gen _ text_cmp (map fst (filter f (snd d)))) as Sp.
  pose proof (sort_by_sorted text text (fun x => x) text_cmp text_cmp_strict (map fst (filter f (snd d)))) as Ss.
  cbv beta in Ss.
  change (sort_by (fun a b : text => text_cmp a b)) with (sort_by text_cmp) in Ss.
  destruct (fold_left min_name_step (filter f (ord_def oo (snd d))) None) as [r|].
  - destruct A as [[Hr|Hr] [Hall _]]; [|discriminate].
    assert (Hrs : In (fst r) (sort_by text_cmp (map fst (filter f (snd d))))).
    { eapply Permutation_in; [apply Permutation_sym; exact Sp|]. apply in_map. eapply Permutation_in; eassumption. }
    destruct (sort_by text_cmp (map fst (filter f (snd d)))) as [|nm S']; [contradiction|].
    f_equal. f_equal. apply text_le_antisym.
    + assert (Hnm : In nm (map fst (filter f (snd d)))) by (eapply Permutation_in; [exact Sp|left; reflexivity]).
      apply in_map_iff in Hnm as [x [<- Hx]]. apply Hall. eapply Permutation_in; [apply Permutation_sym; exact Hp|exact Hx].
    + apply StronglySorted_inv in Ss as [_ Hhd]. rewrite Forall_forall in Hhd.
      destruct Hrs as [->|Hrs]; [rewrite text_cmp_refl; discriminate|apply Hhd; exact Hrs].
  - destruct A as [_ A]. rewrite A in Hp. apply Permutation_nil in Hp. rewrite Hp. reflexivity.
Qed.

(* what the chosen item is: an item of the declaration with that value *)
Lemma s_item_with_value_in : forall d v k, s_item_with_value d v = Some k ->
  exists nm, k = mkItem (Some (fst d)) nm /\ In (nm, v) (snd d).
Proof.
  intros d v k H. unfold s_item_with_value in H.
  pose proof (sort_by_perm_gen _ text_cmp (map fst (filter (fun nv : text * Z => snd nv =? v) (snd d)))) as Sp.
  destruct (sort_by text_cmp (map fst (filter (fun nv : text * Z => snd nv =? v) (snd d)))) as [|nm S']; [discriminate|].
  injection H as <-. exists nm. split; [reflexivity|].
  assert (Hnm : In nm (map fst (filter (fun nv : text * Z => snd nv =? v) (snd d))))
    by (eapply Permutation_in; [exact Sp|left; reflexivity]).
  apply in_map_iff in Hnm as [[nm' v'] [E Hx]]. cbn in E. subst nm'.
  apply filter_In in Hx as [Hx Hv]. cbn in Hv. apply Z.eqb_eq in Hv. subst v'. exact Hx.
Qed.

(* ---------- list + int / list - int ---------- *)
Definition has_origins (l : inklist) : Prop :=
  forall kv, In kv (l_items l) -> it_origin (fst kv) <> None.

Definition shift_ins (ins : listitem -> Z -> items -> items) (g : listitem * Z -> option (listitem * Z))
                     (acc : items) (kv : listitem * Z) : items :=
  match g kv with Some (k', t) => ins k' t acc | None => acc end.
Definition hit (g : listitem * Z -> option (listitem * Z)) (k : listitem) (kv : listitem * Z) : bool :=
  match g kv with Some (k', _) => item_eqb k k' | None => false end.
(* the value a key receives does not depend on which source item produced it *)
Definition consistent (g : listitem * Z -> option (listitem * Z)) (src : items) : Prop :=
  forall kv1 kv2 k t1 t2, In kv1 src -> In kv2 src -> g kv1 = Some (k, t1) -> g kv2 = Some (k, t2) -> t1 = t2.

Lemma hit_true : forall g k kv, hit g k kv = true -> exists t, g kv = Some (k, t).
Proof.
  unfold hit. intros g k kv H. destruct (g kv) as [[k' t]|]; [|discriminate].
  apply item_eqb_eq in H. subst. eexists; reflexivity.
Qed.

Section ShiftFold.
Variable ins : listitem -> Z -> items -> items.
Hypothesis get_ins : forall k k' v m, items_get k (ins k' v m) = if item_eqb k k' then Some v else items_get k m.
Variable g : listitem * Z -> option (listitem * Z).

Lemma get_shift_fold : forall src acc k, consistent g src ->
  items_get k (fold_left (shift_ins ins g) src acc) =
  match find (hit g k) src with
  | Some kv => option_map snd (g kv)
  | None => items_get k acc
  end.
Proof.
  induction src as [|x r IH]; intros acc k Hc; [reflexivity|]. cbn [fold_left find].
  rewrite IH by (intros kv1 kv2 k0 t1 t2 H1 H2; apply Hc; right; assumption).
  assert (Hx : hit g k x = match g x with Some (k', _) => item_eqb k k' | None => false end) by reflexivity.
  rewrite Hx. clear Hx. unfold shift_ins.
  destruct (g x) as [[k' t]|] eqn:Gx.
  - rewrite get_ins. destruct (item_eqb k k') eqn:E.
    + apply item_eqb_eq in E. subst k'. rewrite Gx. cbn [option_map snd].
      destruct (find (hit g k) r) as [kv2|] eqn:F; [|reflexivity].
      apply find_some in F as [Hin Hh]. apply hit_true in Hh as [t2 G2]. rewrite G2. cbn. f_equal.
      eapply Hc; [right; exact Hin|left; reflexivity|exact G2|exact Gx].
    + reflexivity.
  - reflexivity.
Qed.
End ShiftFold.

Lemma find_hit_perm : forall g k src src' (d : option Z), Permutation src src' -> consistent g src ->
  match find (hit g k) src with Some kv => option_map snd (g kv) | None => d end =
  match find (hit g k) src' with Some kv => option_map snd (g kv) | None => d end.
Proof.
  intros g k src src' d Hp Hc.
  destruct (find (hit g k) src) as [kv1|] eqn:F1; destruct (find (hit g k) src') as [kv2|] eqn:F2.
  - apply find_some in F1 as [I1 H1]. apply find_some in F2 as [I2 H2].
    apply hit_true in H1 as [t1 G1]. apply hit_true in H2 as [t2 G2]. rewrite G1, G2. cbn. f_equal.
    eapply Hc; [exact I1|eapply Permutation_in; [apply Permutation_sym; exact Hp|exact I2]|exact G1|exact G2].
  - apply find_some in F1 as [I1 H1].
    pose proof (find_none _ _ F2 kv1 (Permutation_in _ Hp I1)) as C. congruence.
  - apply find_some in F2 as [I2 H2].
    pose proof (find_none _ _ F1 kv2 (Permutation_in _ (Permutation_sym Hp) I2)) as C. congruence.
  - reflexivity.
Qed.

Lemma consistent_perm : forall g src src', Permutation src src' -> consistent g src -> consistent g src'.
Proof.
  intros g src src' Hp Hc kv1 kv2 k t1 t2 H1 H2. apply Hc; eapply Permutation_in; try (apply Permutation_sym; exact Hp); assumption.
Qed.

Lemma shift_fold_nodup : forall g src acc, keys_nodup acc -> keys_nodup (fold_left (shift_ins items_insert g) src acc).
Proof.
  induction src as [|x r IH]; intros acc H; [exact H|]. cbn [fold_left]. apply IH.
  unfold shift_ins. destruct (g x) as [[k' t]|]; [apply nodup_insert|]; exact H.
Qed.
Lemma shift_fold_canonical : forall g src acc, canonical acc -> canonical (fold_left (shift_ins s_insert g) src acc).
Proof.
  induction src as [|x r IH]; intros acc H; [exact H|]. cbn [fold_left]. apply IH.
  unfold shift_ins. destruct (g x) as [[k' t]|]; [apply s_insert_canonical|]; exact H.
Qed.

Lemma fold_left_ext_in : forall (A B : Type) (f f' : B -> A -> B) l b,
  (forall b x, In x l -> f b x = f' b x) -> fold_left f l b = fold_left f' l b.
Proof.
  induction l as [|x r IH]; intros b H; [reflexivity|]. cbn [fold_left].
  rewrite H by (left; reflexivity). apply IH. intros; apply H; right; assumption.
Qed.

Lemma s_find_def_some : forall ds o d, s_find_def ds o = Some d -> In d ds /\ fst d = o.
Proof.
  unfold s_find_def. intros ds o d H. apply find_some in H as [Hin E]. apply text_eqb_eq in E. split; assumption.
Qed.

(* with duplicate-free declarations the shifted value is determined by the shifted item *)
Lemma s_shift_consistent : forall ds delta src, Forall wf_def ds -> consistent (s_shift_item ds delta) src.
Proof.
  intros ds delta src Hwf kv1 kv2 k t1 t2 _ _ G1 G2. unfold s_shift_item in G1, G2.
  destruct (it_origin (fst kv1)) as [o1|]; [|discriminate].
  destruct (it_origin (fst kv2)) as [o2|]; [|discriminate].
  destruct (s_find_def ds o1) as [d1|] eqn:D1; [|discriminate].
  destruct (s_find_def ds o2) as [d2|] eqn:D2; [|discriminate].
  destruct (s_item_with_value d1 (wrap32 (snd kv1 + delta))) as [k1|] eqn:I1; [|discriminate].
  destruct (s_item_with_value d2 (wrap32 (snd kv2 + delta))) as [k2|] eqn:I2; [|discriminate].
  injection G1 as <- <-. injection G2 as E2 <-.
  apply s_item_with_value_in in I1 as [n1 [-> In1]]. apply s_item_with_value_in in I2 as [n2 [K2 In2]].
  rewrite K2 in E2. injection E2 as Ed En. subst n2.
  pose proof (s_find_def_some _ _ _ D1) as [Hd1 N1]. pose proof (s_find_def_some _ _ _ D2) as [Hd2 N2].
  assert (o1 = o2) by congruence. subst o2.
  assert (d1 = d2) by congruence.
  subst d2. rewrite Forall_forall in Hwf. specialize (Hwf _ Hd1). unfold wf_def in Hwf.
  pose proof (nodup_map_inj _ _ fst _ _ _ Hwf In1 In2 eq_refl) as E. injection E as ->. reflexivity.
Qed.

(* call_list_increment_operation, as a pure fold (the code as written now wraps) *)
Definition inc_delta (op : nop) (n : Z) : Z := match op with NAdd => n | _ => - n end.
Definition m_shift_item (oo : order_oracle) (ds : list listdef) (delta : Z) (kv : listitem * Z)
  : option (listitem * Z) :=
  let t := wrap32 (snd kv + delta) in
  let oname := match it_origin (fst kv) with Some o => o | None => [] end in
  match find (fun d : listdef => text_eqb (fst d) oname) ds with
  | Some d => match def_item_with_value oo d t with Some k' => Some (k', t) | None => None end
  | None => None
  end.

Lemma list_increment_unfold : forall oo ovf defs op l n ds, origin_defs defs l = Ok ds ->
  list_increment oo sem_wrapping ovf defs op l n =
  Ok (mkList (fold_left (shift_ins items_insert (m_shift_item oo ds (inc_delta op n)))
                        (ord_items oo (l_items l)) []) [] []).
Proof.
  intros oo ovf defs op l n ds Hds. unfold list_increment. rewrite Hds. cbn [bind].
  match goal with
  | |- bind (foldM ?f ?src ?acc) _ = _ =>
      assert (F : forall s a, foldM f s a =
                Ok (fold_left (shift_ins items_insert (m_shift_item oo ds (inc_delta op n))) s a))
  end.
  { induction s as [|x r IH]; intros a; [reflexivity|]. cbn [foldM fold_left].
    change (s_inc sem_wrapping) with Wrapping. rewrite !i32_arith_wrapping.
    assert (Ht : match op with
                 | NAdd => Ok (wrap32 (snd x + n))
                 | _ => Ok (wrap32 (snd x - n))
                 end = (Ok (wrap32 (snd x + inc_delta op n)) : Res Z)).
    { destruct op; cbn [inc_delta]; rewrite ?Z.add_opp_r; reflexivity. }
    rewrite Ht. clear Ht. cbn [bind]. cbv zeta.
    assert (Hx : shift_ins items_insert (m_shift_item oo ds (inc_delta op n)) a x =
                 match find (fun d : listdef => text_eqb (fst d) match it_origin (fst x) with Some o => o | None => [] end) ds with
                 | Some d => match def_item_with_value oo d (wrap32 (snd x + inc_delta op n)) with
                             | Some k' => items_insert k' (wrap32 (snd x + inc_delta op n)) a
                             | None => a
                             end
                 | None => a
                 end).
    { unfold shift_ins, m_shift_item. cbv zeta. destruct (find _ ds) as [d|]; [|reflexivity].
      destruct (def_item_with_value oo d _); reflexivity. }
    rewrite Hx. clear Hx.
    destruct (find _ ds) as [d|]; [|cbn [bind]; apply IH].
    destruct (def_item_with_value oo d _); cbn [bind]; apply IH. }
  rewrite F. reflexivity.
Qed.

Lemma m_shift_item_spec : forall oo ds delta kv, ord_ok oo -> it_origin (fst kv) <> None ->
  m_shift_item oo ds delta kv = s_shift_item ds delta kv.
Proof.
  intros oo ds delta kv Hoo Ho. unfold m_shift_item, s_shift_item, s_find_def. cbv zeta.
  destruct (it_origin (fst kv)) as [o|]; [|contradiction].
  destruct (find _ ds) as [d|]; [|reflexivity].
  rewrite (item_with_value_refines oo d _ Hoo). reflexivity.
Qed.

Theorem increment_refines : forall oo ovf defs op l n ds,
  ord_ok oo -> wf_list l -> has_origins l -> origin_defs defs l = Ok ds -> Forall wf_def ds ->
  exists r, list_increment oo sem_wrapping ovf defs op l n = Ok r /\
            abs r = s_shift ds (abs l) (inc_delta op n).
Proof.
  intros oo ovf defs op l n ds Hoo Hwf Ho Hds Hwd.
  rewrite (list_increment_unfold oo ovf defs op l n ds Hds). eexists. split; [reflexivity|].
  unfold abs at 1. cbn [l_items]. set (delta := inc_delta op n). set (g := s_shift_item ds delta).
  rewrite (fold_left_ext_in _ _ (shift_ins items_insert (m_shift_item oo ds delta)) (shift_ins items_insert g)).
  2:{ intros b x Hx. unfold shift_ins. rewrite (m_shift_item_spec oo ds delta x Hoo); [reflexivity|].
      apply Ho. apply (ord_items_in oo _ _ Hoo). exact Hx. }
  change (s_shift ds (abs l) delta) with (fold_left (shift_ins s_insert g) (abs l) []).
  assert (Hp : Permutation (ord_items oo (l_items l)) (abs l)).
  { eapply perm_trans; [apply Hoo|apply Permutation_sym, abs_items_perm; exact Hwf]. }
  apply canonical_ext; [apply abs_items_canonical|apply shift_fold_canonical; constructor|].
  intros k. rewrite get_abs_items by (apply shift_fold_nodup; constructor).
  rewrite (get_shift_fold items_insert items_get_insert g) by (apply s_shift_consistent; exact Hwd).
  rewrite (get_shift_fold s_insert get_s_insert g) by (apply s_shift_consistent; exact Hwd).
  apply find_hit_perm; [exact Hp|apply s_shift_consistent; exact Hwd].
Qed.

Corollary increment_refines_now : forall oo ovf defs op l n ds,
  ord_ok oo -> wf_list l -> has_origins l -> origin_defs defs l = Ok ds -> Forall wf_def ds ->
  exists r, list_increment oo int_sem_now ovf defs op l n = Ok r /\
            abs r = s_shift ds (abs l) (inc_delta op n).
Proof. intros. rewrite sem_now_wrapping. apply increment_refines; assumption. Qed.

(* the declarations the story knows and those the list carries agree on the items' origins
   => the shift can be read against the story's declarations *)
Lemma s_shift_ext : forall ds ds' a delta,
  (forall kv, In kv a -> s_shift_item ds delta kv = s_shift_item ds' delta kv) ->
  s_shift ds a delta = s_shift ds' a delta.
Proof.
  intros ds ds' a delta H. unfold s_shift. apply fold_left_ext_in. intros b x Hx. rewrite (H x Hx). reflexivity.
Qed.

Example increment_example :
  let L := (T "L", [(T "a", 1); (T "b", 2); (T "c", 3)]) in
  let l := mkList [(mkItem (Some (T "L")) (T "c"), 3); (mkItem (Some (T "L")) (T "a"), 1)] [T "L"] [] in
  wf_list l /\ has_origins l /\ origin_defs [L] l = Ok [L] /\ Forall wf_def [L] /\
  s_shift [L] (abs l) 1 = [(mkItem (Some (T "L")) (T "b"), 2)].
Proof.
  cbn zeta. repeat split.
  - repeat constructor; cbn; intuition discriminate.
  - intros kv [<-|[<-|[]]]; discriminate.
  - repeat constructor; cbn; intuition discriminate.
Qed.

(* ---------- ListName(n) ---------- *)
Lemma find_def_notin : forall ds name, ~ In name (map fst ds) -> s_find_def ds name = None.
Proof.
  unfold s_find_def. induction ds as [|d r IH]; intros name H; [reflexivity|]. cbn [find].
  destruct (text_eqb (fst d) name) eqn:E.
  - apply text_eqb_eq in E. exfalso. apply H. left. exact E.
  - apply IH. intros Hin. apply H. right. exact Hin.
Qed.

Lemma get_list_definition_find : forall defs name, NoDup (map fst defs) ->
  get_list_definition defs name = s_find_def defs name.
Proof.
  induction defs as [|d r IH]; intros name Hnd; [reflexivity|].
  cbn in Hnd. inversion Hnd as [|? ? Hnotin Hnd']; subst.
  cbn [get_list_definition]. rewrite (IH name Hnd'). unfold s_find_def. cbn [find].
  destruct (text_eqb (fst d) name) eqn:E.
  - apply text_eqb_eq in E. subst name. fold (s_find_def r (fst d)). rewrite (find_def_notin r (fst d) Hnotin). reflexivity.
  - destruct (find (fun d0 : listdef => text_eqb (fst d0) name) r); reflexivity.
Qed.

Theorem from_int_refines : forall oo defs name n, ord_ok oo -> NoDup (map fst defs) ->
  match s_from_int defs name n with
  | Some s => exists r, list_from_int_o oo defs n name = Ok (VList r) /\ abs r = s
  | None => exists msg, list_from_int_o oo defs n name = Err InvalidState msg
  end.
Proof.
  intros oo defs name n Hoo Hnd. unfold s_from_int, list_from_int_o.
  rewrite (get_list_definition_find defs name Hnd).
  destruct (s_find_def defs name) as [d|]; [|eexists; reflexivity].
  rewrite (item_with_value_refines oo d n Hoo).
  destruct (s_item_with_value d n); eexists; split; reflexivity.
Qed.

(* a declaration that gives the value 1 to two items: K(1) is the one with the smaller name *)
Example from_int_example :
  let defs := [(T "L", [(T "a", 1); (T "b", 2)]); (T "K", [(T "q", 1); (T "p", 1)])] in
  NoDup (map fst defs) /\
  s_from_int defs (T "K") 1 = Some [(mkItem (Some (T "K")) (T "p"), 1)] /\
  s_from_int defs (T "L") 7 = Some [] /\ s_from_int defs (T "Q") 1 = None.
Proof. cbn zeta. repeat split. repeat constructor; cbn; intuition discriminate. Qed.

Theorem min_max_as_list_refine : forall oo l, ord_ok oo -> wf_list l ->
  abs (list_min_as_list oo l) = s_min_list (abs l) /\ abs (list_max_as_list oo l) = s_max_list (abs l).
Proof. intros oo l Hoo Hwf. split; [apply min_as_list_refines|apply max_as_list_refines]; assumption. Qed.
