(* Spec/SpecRun.v — executable entry points of the SPECIFICATION (Spec/ExprSpec.v),
   rendered like the inkdrive transcript, so that the implementation can be compared
   with what Ink prescribes directly (property-direct oracle of C07). *)
From Ink.Data Require Import Types InkList Value Native NativeRun.
From Ink.Spec Require Import KeyOrder ListSpec ExprSpec.
Local Open Scope Z_scope.

(* printing a list: by value, then origin, then item name *)
Definition spec_item_cmp (a b : listitem * Z) : comparison :=
  match Z.compare (snd a) (snd b) with
  | Eq => key_cmp (fst a) (fst b)
  | c => c
  end.
Definition spec_display (fo : float_oracle) (v : sval) : text :=
  match v with
  | SBool b => if b then T "true" else T "false"
  | SInt z => show_Z z
  | SFloat f => f32_show fo f
  | SStr s => s
  | SList s => join_with (T ", ") (map (fun kv : listitem * Z => it_name (fst kv)) (sort_by spec_item_cmp s))
  end.
Definition render_sres (fo : float_oracle) (r : sres) : text :=
  match r with
  | ROk v => T "ok(" ++ quote_text (T "<" ++ spec_display fo v ++ T ">" ++ [10%N]) ++ T ")"
  | RErr => T "err(InvalidState)"
  end.

Definition val_of (o : obj) : value := match o with OVal v => v | _ => VString [] end.
Definition list_of (o : obj) : inklist := match o with OVal (VList l) => l | _ => list_new end.

Definition run_spec_scalar (fo : float_oracle) (op : nop) (args : list obj) : text :=
  render_sres fo (spec_scalar_op fo op (map (fun o => abs_scalar (val_of o)) args)).

Definition run_spec_list_binary (fo : float_oracle) (op : nop) (a b : obj) : text :=
  render_sres fo (spec_list_binary op (abs (list_of a)) (abs (list_of b))).

(* the declarations named by the list's origins: those of its items, or the remembered
   ones when it is empty *)
Definition run_spec_list_unary (fo : float_oracle) (defs : listdefs) (op : nop) (a : obj) : text :=
  match push_origins defs (list_of a) with
  | Ok l => match origin_defs defs l with
            | Ok ds => render_sres fo (spec_list_unary ds op (abs l))
            | _ => T "no-spec"
            end
  | _ => T "no-spec"
  end.

(* list + int / list - int: the declarations are those of the story *)
Definition run_spec_list_increment (fo : float_oracle) (defs : listdefs) (op : nop) (a n : obj) : text :=
  match a, n with
  | OVal (VList l), OVal (VInt z) => render_sres fo (spec_list_increment defs op (abs l) z)
  | _, _ => T "no-spec"
  end.

(* LIST_RANGE(list, lo, hi) with int or list bounds *)
Definition bound_of (o : obj) : option sbound :=
  match o with
  | OVal (VInt z) => Some (BInt z)
  | OVal (VList l) => Some (BList (abs l))
  | _ => None
  end.
Definition run_spec_list_range (fo : float_oracle) (t lo hi : obj) : text :=
  match t, bound_of lo, bound_of hi with
  | OVal (VList l), Some a, Some b => render_sres fo (spec_list_range (abs l) a b)
  | _, _, _ => T "no-spec"
  end.

(* ListName(n) *)
Definition run_spec_list_from_int (fo : float_oracle) (defs : listdefs) (name n : obj) : text :=
  match name, n with
  | OVal (VString s), OVal (VInt z) => render_sres fo (spec_list_from_int defs s z)
  | _, _ => T "no-spec"
  end.

(* ---------- source-level expressions (the compile + play stream) ---------- *)
Inductive expr :=
| ELit (v : sval)
| EUn (op : nop) (e : expr)
| EBin (op : nop) (a b : expr).

Fixpoint spec_eval (fo : float_oracle) (e : expr) : sres :=
  match e with
  | ELit v => ROk v
  | EUn op a =>
      match spec_eval fo a with
      | ROk v => spec_scalar_op fo op [v]
      | RErr => RErr
      end
  | EBin op a b =>
      match spec_eval fo a with
      | ROk va =>
          match spec_eval fo b with
          | ROk vb => spec_scalar_op fo op [va; vb]
          | RErr => RErr
          end
      | RErr => RErr
      end
  end.

(* the line  A{expr}B  *)
Definition run_spec_expr (fo : float_oracle) (e : expr) : text :=
  match spec_eval fo e with
  | ROk v => T "ok(" ++ quote_text (T "A" ++ spec_display fo v ++ T "B" ++ [10%N]) ++ T ")"
  | RErr => T "err(InvalidState)"
  end.
