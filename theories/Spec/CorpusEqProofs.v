(* Spec/CorpusEqProofs.v — from the sixteen per-shard computations
   (Gen/CorpusCheck_<n>.v, each `vm_compute`) to the statement about every
   pair of the corpus. *)
From Coq Require Import List Bool.
From Ink.Spec Require Import CorpusEq CorpusAll.
From Ink.Gen Require Import CorpusIndex.
From Ink.Gen Require Import CorpusCheck_0 CorpusCheck_1 CorpusCheck_2 CorpusCheck_3 CorpusCheck_4
     CorpusCheck_5 CorpusCheck_6 CorpusCheck_7 CorpusCheck_8 CorpusCheck_9 CorpusCheck_10
     CorpusCheck_11 CorpusCheck_12 CorpusCheck_13 CorpusCheck_14 CorpusCheck_15.
From Ink.Gen Require Import Corpus_0 Corpus_1 Corpus_2 Corpus_3 Corpus_4 Corpus_5 Corpus_6 Corpus_7
     Corpus_8 Corpus_9 Corpus_10 Corpus_11 Corpus_12 Corpus_13 Corpus_14 Corpus_15.

Definition pair_equal (p : cpair) : bool :=
  transcripts_equal_upto gen_switches corpus_depth corpus_budget (snd (fst p)) (snd p).

Lemma pair_verdict_unlisted known p :
  pair_verdict known p = true -> mem_text (cp_name p) known = false -> pair_equal p = true.
Proof.
  unfold pair_verdict, pair_equal. intros Hv Hm. rewrite Hm in Hv. exact Hv.
Qed.

Lemma pair_verdict_listed known p :
  pair_verdict known p = true -> mem_text (cp_name p) known = true -> pair_equal p = false.
Proof.
  unfold pair_verdict, pair_equal. intros Hv Hm. rewrite Hm in Hv.
  apply negb_true_iff in Hv. exact Hv.
Qed.

Lemma forallb_app_intro {A} (f : A -> bool) (l1 l2 : list A) :
  forallb f l1 = true -> forallb f l2 = true -> forallb f (l1 ++ l2) = true.
Proof. intros H1 H2. rewrite forallb_app, H1, H2. reflexivity. Qed.

Lemma corpus_check_all : forallb (pair_verdict known_divergent) all_pairs = true.
Proof.
  unfold all_pairs.
  apply forallb_app_intro; [exact corpus_check_0|].
  apply forallb_app_intro; [exact corpus_check_1|].
  apply forallb_app_intro; [exact corpus_check_2|].
  apply forallb_app_intro; [exact corpus_check_3|].
  apply forallb_app_intro; [exact corpus_check_4|].
  apply forallb_app_intro; [exact corpus_check_5|].
  apply forallb_app_intro; [exact corpus_check_6|].
  apply forallb_app_intro; [exact corpus_check_7|].
  apply forallb_app_intro; [exact corpus_check_8|].
  apply forallb_app_intro; [exact corpus_check_9|].
  apply forallb_app_intro; [exact corpus_check_10|].
  apply forallb_app_intro; [exact corpus_check_11|].
  apply forallb_app_intro; [exact corpus_check_12|].
  apply forallb_app_intro; [exact corpus_check_13|].
  apply forallb_app_intro; [exact corpus_check_14|].
  exact corpus_check_15.
Qed.

(* C05 for the translated corpus, at the bound (corpus_depth, corpus_budget) *)
Lemma corpus_equiv_all :
  forall p, In p all_pairs -> mem_text (cp_name p) known_divergent = false ->
  transcripts_equal_upto gen_switches corpus_depth corpus_budget (snd (fst p)) (snd p) = true.
Proof.
  intros p Hin Hm.
  pose proof (proj1 (forallb_forall _ _) corpus_check_all p Hin) as Hv.
  exact (pair_verdict_unlisted _ _ Hv Hm).
Qed.

(* every pair listed as a known finding does diverge (witness for the exclusion) *)
Lemma corpus_known_divergent_refuted :
  forall p, In p all_pairs -> mem_text (cp_name p) known_divergent = true ->
  transcripts_equal_upto gen_switches corpus_depth corpus_budget (snd (fst p)) (snd p) = false.
Proof.
  intros p Hin Hm.
  pose proof (proj1 (forallb_forall _ _) corpus_check_all p Hin) as Hv.
  exact (pair_verdict_listed _ _ Hv Hm).
Qed.

(* the hypotheses are satisfiable: some translated pair is not listed *)
Lemma corpus_has_unlisted_pair :
  exists p, In p all_pairs /\ mem_text (cp_name p) known_divergent = false.
Proof.
  assert (H : existsb (fun p => negb (mem_text (cp_name p) known_divergent)) all_pairs = true)
    by (vm_compute; reflexivity).
  apply existsb_exists in H. destruct H as [p [Hin Hn]].
  exists p. split; [exact Hin | now apply negb_true_iff in Hn].
Qed.
