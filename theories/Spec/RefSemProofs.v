(* Spec/RefSemProofs.v — sanity theorems about the reference semantics itself.

   1. whitespace normalisation of a finished line is idempotent;
   2. a generic preservation principle: an invariant that survives the primitive state updates
      survives evaluation, a whole segment ([run]) and a whole play along any path;
   3. instances: a once-only choice is never on offer once it has been chosen (along any path);
      what has been chosen stays recorded; read counts equal the number of entries in the ghost
      trace of entries. *)
From Ink.Base Require Import Text I32.
From Ink.Spec Require Import InkAst RefSem.
From Coq Require Import Lia.

Ltac dis := solve [discriminate | cbn in *; discriminate | cbn in *; congruence].

(* ------------------------------------------------------------------ 1. clean_ws *)
Definition cws_norm (s : cws) : cws := match s with CPend => CMid | x => x end.

Lemma clean_go_idem : forall t s, clean_go (cws_norm s) (clean_go s t) = clean_go s t.
Proof.
  induction t as [|c r IH]; intros s; cbn [clean_go]; [reflexivity|].
  destruct (is_inline_ws c) eqn:W.
  - destruct s; cbn [cws_norm]; [apply (IH CSol) | apply (IH CPend) | apply (IH CPend)].
  - destruct (N.eqb c c_nl) eqn:E.
    + destruct s; cbn [cws_norm clean_go]; rewrite W, E; f_equal; apply (IH CSol).
    + destruct s; cbn [cws_norm clean_go].
      * rewrite W, E. f_equal. apply (IH CMid).
      * rewrite W, E. f_equal. apply (IH CMid).
      * change (is_inline_ws c_space) with true. cbn iota. cbn [clean_go]. rewrite W, E.
        do 2 f_equal. apply (IH CMid).
Qed.

Lemma clean_ws_idempotent : forall t, clean_ws (clean_ws t) = clean_ws t.
Proof. intros t. unfold clean_ws. apply (clean_go_idem t CSol). Qed.

(* ------------------------------------------------------------------ 2. preservation principle *)
Definition offer_ok (st : state) (pc : pchoice) : Prop :=
  c_sticky (pc_choice pc) = true \/ ~ In (c_id (pc_choice pc)) (st_chosen st).

Record stable (I : state -> Prop) : Prop := mkStable {
  sb_out : forall st o, I st -> I (set_out st o);
  sb_globals : forall st g, I st -> I (set_globals st g);
  sb_seqs : forall st s, I st -> I (set_seqs st s);
  sb_threads : forall st t, I st -> I (set_threads st t);
  sb_status : forall st s, I st -> I (set_status st s);
  sb_safe : forall st b, I st -> I (set_safe st b);
  sb_visit : forall st n, I st -> I (visit n st);
  sb_clear : forall st, I st -> I (set_choices st []);
  sb_offer : forall st pc, I st -> offer_ok st pc -> I (set_choices st (st_choices st ++ [pc]));
  sb_take : forall st pc b, I st -> In pc (st_choices st) -> I (take_choice st pc b)
}.

Section Stable.
Variable I : state -> Prop.
Hypothesis HI : stable I.
Variable p : program.

Let s_out := sb_out I HI.
Let s_globals := sb_globals I HI.
Let s_seqs := sb_seqs I HI.
Let s_threads := sb_threads I HI.
Let s_status := sb_status I HI.
Let s_safe := sb_safe I HI.
Let s_visit := sb_visit I HI.
Let s_clear := sb_clear I HI.
Let s_offer := sb_offer I HI.
Let s_take := sb_take I HI.

Lemma st_emit : forall k st, I st -> I (emit k st).
Proof. intros. unfold emit. now apply s_out. Qed.

Lemma st_emit_tags : forall tags st, I st -> I (emit_tags tags st).
Proof.
  intros tags st H. unfold emit_tags. destruct tags as [|t r]; [assumption|].
  assert (G : forall l s, I s -> I (fold_left (fun s t => emit (OTag t) s) l s)).
  { induction l; intros; cbn [fold_left]; [assumption|]. apply IHl. now apply st_emit. }
  apply G. now apply st_emit.
Qed.

Lemma pres_visits : forall names st, I st -> I (fold_left (fun s n => visit n s) names st).
Proof. induction names; intros; cbn [fold_left]; [assumption|]. apply IHnames. now apply s_visit. Qed.

Lemma st_fail : forall st k, I st -> I (fail st k).
Proof. intros. unfold fail. apply s_status. now apply s_out. Qed.

Lemma st_lift : forall st r, I st -> (forall s, r = ROk s -> I s) -> I (lift st r).
Proof. intros st r H G. unfold lift. destruct r; [now apply G | now apply st_fail]. Qed.

(* evaluation: expressions, arguments, inline content, function bodies, branch selection *)
Lemma st_eval_all : forall fuel,
  (forall tmps st e v st', I st -> eval p fuel tmps st e = ROk (v, st') -> I st') /\
  (forall tmps st es vs st', I st -> eval_args p fuel tmps st es = ROk (vs, st') -> I st') /\
  (forall tmps st c st', I st -> do_inl p fuel tmps st c = ROk st' -> I st') /\
  (forall tmps st b v t st', I st -> exec_fun p fuel tmps st b = ROk (v, t, st') -> I st') /\
  (forall tmps st brs els b st', I st -> pick_branch p fuel tmps st brs els = ROk (b, st') -> I st').
Proof.
  induction fuel as [|f IH].
  { repeat split; intros; cbn in *; discriminate. }
  destruct IH as (IHe & IHa & IHi & IHf & IHb).
  repeat split.
  - (* eval *)
    intros tmps st e v st' H E. simpl eval in E.
    destruct e as [z|b|s|x|path|o e|o e1 e2|fn args|path| | ].
    + inversion E; subst; assumption.
    + inversion E; subst; assumption.
    + inversion E; subst; assumption.
    + destruct (lookup x tmps); [inversion E; subst; assumption|].
      destruct (lookup x (st_globals st)); [inversion E; subst; assumption | dis].
    + inversion E; subst; assumption.
    + unfold rbind in E. destruct (eval p f tmps st e) as [[v1 s1]|] eqn:E1; [|dis].
      cbn [fst snd] in E. destruct (unop_val o v1); [|dis]. inversion E; subst. eauto.
    + unfold rbind in E. destruct (eval p f tmps st e1) as [[v1 s1]|] eqn:E1; [|dis].
      cbn [fst snd] in E. destruct (eval p f tmps s1 e2) as [[v2 s2]|] eqn:E2; [|dis].
      cbn [fst snd] in E. destruct (binop_val o v1 v2); [|dis]. inversion E; subst. eauto.
    + unfold rbind in E. destruct (eval_args p f tmps st args) as [[vs s1]|] eqn:E1; [|dis].
      cbn [fst snd] in E. destruct (find_knot (p_knots p) fn) as [k|]; [|dis].
      destruct (k_fun k); [|dis].
      destruct (exec_fun p f (combine (k_params k) vs) _ (k_body k)) as [[[rv rt] s3]|] eqn:E3; [|dis].
      inversion E; subst. apply s_out.
      eapply IHf; [|exact E3]. apply s_out. apply s_visit. eauto.
    + inversion E; subst; assumption.
    + inversion E; subst; assumption.
    + inversion E; subst; assumption.
  - (* eval_args *)
    intros tmps st es vs st' H E. simpl eval_args in E. destruct es as [|e r].
    + inversion E; subst; assumption.
    + unfold rbind in E. destruct (eval p f tmps st e) as [[v1 s1]|] eqn:E1; [|dis].
      cbn [fst snd] in E. destruct (eval_args p f tmps s1 r) as [[v2 s2]|] eqn:E2; [|dis].
      inversion E; subst. eauto.
  - (* do_inl *)
    intros tmps st c st' H E. simpl do_inl in E. destruct c as [|x r].
    + inversion E; subst; assumption.
    + unfold rbind in E at 1.
      match type of E with (match ?m with ROk _ => _ | RErr _ => _ end = _) => destruct m as [s1|] eqn:E1 end; [|dis].
      assert (H1 : I s1).
      { destruct x.
        - inversion E1; subst. now apply st_emit.
        - unfold rbind in E1. destruct (eval p f tmps st e) as [[v1 s0]|] eqn:E0; [|dis].
          inversion E1; subst. apply st_emit. eauto.
        - unfold rbind in E1. destruct (eval p f tmps st c) as [[v1 s0]|] eqn:E0; [|dis].
          cbn [fst snd] in E1. destruct (truthy v1) as [[|]|]; [eauto | eauto | dis].
        - destruct (seq_pick k _ _).
          + eapply IHi; [|exact E1]. now apply s_seqs.
          + destruct k; inversion E1; subst; now apply s_seqs.
        - inversion E1; subst. now apply st_emit. }
      eauto.
  - (* exec_fun *)
    intros tmps st b v t st' H E. simpl exec_fun in E. destruct b as [|s rest].
    + inversion E; subst; assumption.
    + destruct s; try discriminate.
      * destruct dv; [discriminate|]. unfold rbind in E.
        destruct (do_inl p f tmps st c) as [s1|] eqn:E1; [|dis].
        eapply IHf; [|exact E]. apply st_emit. apply st_emit_tags. eauto.
      * unfold rbind in E. destruct (eval p f tmps st e) as [[v1 s1]|] eqn:E1; [|dis].
        cbn [fst snd] in E.
        assert (H1 : I (if has_call e then emit ONl s1 else s1)).
        { destruct (has_call e); [apply st_emit|]; eauto. }
        destruct (lookup x tmps).
        -- eapply IHf; [|exact E]. assumption.
        -- eapply IHf; [|exact E]. now apply s_globals.
      * unfold rbind in E. destruct (eval p f tmps st e) as [[v1 s1]|] eqn:E1; [|dis].
        cbn [fst snd] in E. eapply IHf; [|exact E]. destruct (has_call e); [apply st_emit|]; eauto.
      * unfold rbind in E. destruct (eval p f tmps st e) as [[v1 s1]|] eqn:E1; [|dis].
        cbn [fst snd] in E. eapply IHf; [|exact E]. destruct (has_call e); [apply st_emit|]; eauto.
      * destruct e as [e|].
        -- unfold rbind in E. destruct (eval p f tmps st e) as [[v1 s1]|] eqn:E1; [|dis].
           inversion E; subst. eauto.
        -- inversion E; subst; assumption.
      * unfold rbind in E. destruct (pick_branch p f tmps st brs els) as [[b1 s1]|] eqn:E1; [|dis].
        cbn [fst snd] in E. eapply IHf; [|exact E]. eauto.
      * destruct (seq_pick k _ _).
        -- eapply IHf; [|exact E]. now apply s_seqs.
        -- destruct k; try discriminate; (eapply IHf; [|exact E]; now apply s_seqs).
  - (* pick_branch *)
    intros tmps st brs els b st' H E. simpl pick_branch in E. destruct brs as [|[c b0] r].
    + inversion E; subst; assumption.
    + unfold rbind in E. destruct (eval p f tmps st c) as [[v1 s1]|] eqn:E1; [|dis].
      cbn [fst snd] in E. destruct (truthy v1) as [[|]|]; [|eauto|discriminate].
      inversion E; subst. eauto.
Qed.

Lemma st_eval : forall fuel tmps st e v st', I st -> eval p fuel tmps st e = ROk (v, st') -> I st'.
Proof. intros fuel. apply (st_eval_all fuel). Qed.
Lemma st_do_inl : forall fuel tmps st c st', I st -> do_inl p fuel tmps st c = ROk st' -> I st'.
Proof. intros fuel. apply (st_eval_all fuel). Qed.
Lemma st_pick : forall fuel tmps st brs els b st', I st -> pick_branch p fuel tmps st brs els = ROk (b, st') -> I st'.
Proof. intros fuel. apply (st_eval_all fuel). Qed.

Lemma st_eval_conds : forall fuel tmps cs st b st', I st -> eval_conds p fuel tmps st cs = ROk (b, st') -> I st'.
Proof.
  induction cs as [|c r IH]; intros st b st' H E; cbn [eval_conds] in E.
  - inversion E; subst; assumption.
  - unfold rbind in E. destruct (eval p fuel tmps st c) as [[v1 s1]|] eqn:E1; [|dis].
    cbn [fst snd] in E. destruct (truthy v1); [|dis].
    destruct (eval_conds p fuel tmps s1 r) as [[b2 s2]|] eqn:E2; [|dis].
    inversion E; subst. eapply IH; [|exact E2]. eapply st_eval; eauto.
Qed.

Lemma st_eval_string : forall fuel tmps st c t st', I st -> eval_string p fuel tmps st c = ROk (t, st') -> I st'.
Proof.
  intros fuel tmps st c t st' H E. unfold eval_string, rbind in E.
  destruct (do_inl p fuel tmps (set_out st out_string) c) as [s1|] eqn:E1; [|dis].
  inversion E; subst. apply s_out. eapply st_do_inl; [|exact E1]. now apply s_out.
Qed.

Lemma st_gen_choice : forall fuel st stack tmps c st', I st -> gen_choice p fuel st stack tmps c = ROk st' -> I st'.
Proof.
  intros fuel st stack tmps c st' H E. unfold gen_choice, rbind in E.
  match type of E with (match ?m with ROk _ => _ | RErr _ => _ end = _) => destruct m as [[t1 s1]|] eqn:E1 end; [|dis].
  cbn [fst snd] in E.
  match type of E with (match ?m with ROk _ => _ | RErr _ => _ end = _) => destruct m as [[t2 s2]|] eqn:E2 end; [|dis].
  cbn [fst snd] in E.
  destruct (eval_conds p fuel tmps s2 (c_conds c)) as [[b s3]|] eqn:E3; [|dis].
  cbn [fst snd] in E.
  assert (H1 : I s1). { destruct (c_fallback c); [inversion E1; subst; assumption | eapply st_eval_string; eauto]. }
  assert (H2 : I s2). { destruct (c_fallback c); [inversion E2; subst; assumption | eapply st_eval_string; eauto]. }
  assert (H3 : I s3) by (eapply st_eval_conds; eauto).
  destruct b; cbn [andb] in E; [|inversion E; subst; assumption].
  destruct (negb (c_sticky c) && existsb (Nat.eqb (c_id c)) (st_chosen s3)) eqn:SP; cbn [negb] in E;
    [inversion E; subst; assumption|].
  inversion E; subst. apply s_offer; [assumption|]. unfold offer_ok. cbn [pc_choice].
  destruct (c_sticky c) eqn:ST; [now left|]. right. cbn [negb andb] in SP.
  intros HIn. assert (existsb (Nat.eqb (c_id c)) (st_chosen s3) = true); [|congruence].
  apply existsb_exists. exists (c_id c). split; [assumption | apply Nat.eqb_refl].
Qed.

Lemma st_gen_choices : forall fuel stack tmps cs st st', I st -> gen_choices p fuel st stack tmps cs = ROk st' -> I st'.
Proof.
  induction cs as [|c r IH]; intros st st' H E; cbn [gen_choices] in E.
  - inversion E; subst; assumption.
  - unfold rbind in E. destruct (gen_choice p fuel st stack tmps c) as [s1|] eqn:E1; [|dis].
    eapply IH; [|exact E]. eapply st_gen_choice; eauto.
Qed.

Lemma st_goto : forall st fr below others path, I st -> I (goto p st fr below others path).
Proof.
  intros. unfold goto. destruct (resolve p (f_place fr) path) as [[[pl b] names]|]; [|now apply st_fail].
  apply s_threads. now apply pres_visits.
Qed.

Lemma st_do_target : forall st fr below others t, I st -> I (do_target p st fr below others t).
Proof.
  intros st fr below others t H. destruct t; cbn [do_target].
  - now apply st_goto.
  - apply s_status. apply s_clear. now apply s_threads.
  - destruct others; [apply s_safe |]; now apply s_threads.
  - destruct (f_kind fr); [now apply st_fail|]. destruct below; [now apply st_fail | now apply s_threads].
Qed.

Lemma st_out_of_content : forall st cs, I st -> I (out_of_content st cs).
Proof.
  intros st cs H. unfold out_of_content.
  destruct (filter _ (st_choices st)); [|now apply s_status].
  destruct (st_choices st) as [|pc r] eqn:C.
  - destruct (st_safe st); [now apply s_status | now apply st_fail].
  - apply s_take; [assumption|]. rewrite C. now left.
Qed.

Theorem st_run : forall fuel st, I st -> I (run p fuel st).
Proof.
  induction fuel as [|f IH]; intros st H; cbn [run]; [now apply st_fail|].
  destruct (st_status st); try assumption.
  destruct (st_threads st) as [|cs others]; [now apply st_fail|].
  destruct cs as [|fr below]; [now apply st_fail|].
  destruct (f_cont fr) as [|s rest].
  { destruct others.
    - pose proof (st_out_of_content st (fr :: below) H) as G.
      destruct (st_status (out_of_content st (fr :: below))); try assumption. now apply IH.
    - apply IH. now apply s_threads. }
  set (here := set_threads st _).
  assert (Hh : I here) by (now apply s_threads).
  destruct s.
  - (* SLine *)
    destruct (do_inl p f (f_temps fr) here c) as [s1|] eqn:E1; [|now apply st_lift].
    assert (H1 : I s1) by (eapply st_do_inl; eauto).
    destruct dv; apply IH; [apply st_do_target | apply st_emit]; now apply st_emit_tags.
  - (* SAssign *)
    destruct (eval p f (f_temps fr) here e) as [[v s1]|] eqn:E1; [|now apply st_lift].
    assert (H1 : I s1) by (eapply st_eval; eauto).
    assert (H2 : I (if has_call e then emit ONl s1 else s1)) by (destruct (has_call e); [apply st_emit|]; assumption).
    destruct (lookup x (f_temps fr)); apply IH; [now apply s_threads | now apply s_globals].
  - (* STemp *)
    destruct (eval p f (f_temps fr) here e) as [[v s1]|] eqn:E1; [|now apply st_lift].
    assert (H1 : I s1) by (eapply st_eval; eauto).
    apply IH. apply s_threads. destruct (has_call e); [apply st_emit|]; assumption.
  - (* SEval *)
    destruct (eval p f (f_temps fr) here e) as [[v s1]|] eqn:E1; [|now apply st_lift].
    assert (H1 : I s1) by (eapply st_eval; eauto).
    apply IH. destruct (has_call e); [apply st_emit|]; assumption.
  - now apply st_fail.
  - apply IH. now apply st_do_target.
  - (* STunnel *)
    destruct (resolve p (f_place fr) t) as [[[pl b] names]|]; [|now apply st_fail].
    apply IH. apply s_threads. now apply pres_visits.
  - (* SThread *)
    destruct (resolve p (f_place fr) t) as [[[pl b] names]|]; [|now apply st_fail].
    apply IH. apply s_threads. now apply pres_visits.
  - (* SIf *)
    destruct (pick_branch p f (f_temps fr) here brs els) as [[b s1]|] eqn:E1; [|now apply st_lift].
    apply IH. apply s_threads. eapply st_pick; eauto.
  - (* SSeq *)
    destruct (seq_pick k _ _).
    + apply IH. apply s_threads. now apply s_seqs.
    + destruct k; try (now apply st_fail); apply IH; apply s_threads; now apply s_seqs.
  - (* SChoices *)
    destruct (gen_choices p f here _ (f_temps fr) cs) as [s1|] eqn:E1; [|now apply st_lift].
    apply IH. apply s_threads. eapply st_gen_choices; eauto.
  - (* SGather *)
    destruct label; apply IH; [now apply s_visit | assumption].
Qed.

Lemma st_play_segment : forall fuel st, I st -> I (play_segment fuel p st).
Proof.
  intros fuel st H. unfold play_segment, settle. pose proof (st_run fuel st H) as G.
  destruct (st_status (run p fuel st)); try assumption; now apply s_out.
Qed.

Lemma st_choose : forall st i st', I st -> choose st i = Some st' -> I st'.
Proof.
  intros st i st' H E. unfold choose in E. destruct (st_status st); try discriminate.
  destruct (nth_error (visible_choices st) i) as [pc|] eqn:N; [|dis]. inversion E; subst.
  apply s_take; [now apply s_out|]. apply nth_error_In in N. unfold visible_choices in N.
  apply filter_In in N. destruct N as [N _]. exact N.
Qed.

Theorem st_play : forall fuel path st st', I st -> play fuel p st path = Some st' -> I st'.
Proof.
  induction path as [|i r IH]; intros st st' H E; cbn [play] in E.
  - inversion E; subst. now apply st_play_segment.
  - destruct (choose (play_segment fuel p st) i) as [s2|] eqn:C; [|dis].
    eapply IH; [|exact E]. eapply st_choose; [|exact C]. now apply st_play_segment.
Qed.

End Stable.

(* ------------------------------------------------------------------ 3. instances *)
(* (a) no once-only choice on offer has been chosen before *)
Definition once_inv (st : state) : Prop :=
  forall pc, In pc (st_choices st) -> c_sticky (pc_choice pc) = false ->
             ~ In (c_id (pc_choice pc)) (st_chosen st).

Lemma take_choice_choices : forall st pc b,
  st_choices (take_choice st pc b) = [] \/ (st_choices (take_choice st pc b) = st_choices st /\
                                            st_chosen (take_choice st pc b) = st_chosen st).
Proof.
  intros st pc b. unfold take_choice. destruct (pc_stack pc) as [|fr below].
  - right. split; reflexivity.
  - left. destruct (c_label (pc_choice pc)); reflexivity.
Qed.

Lemma once_inv_stable : stable once_inv.
Proof.
  constructor; unfold once_inv.
  - intros st o H pc Hin Hs. exact (H pc Hin Hs).
  - intros st o H pc Hin Hs. exact (H pc Hin Hs).
  - intros st o H pc Hin Hs. exact (H pc Hin Hs).
  - intros st o H pc Hin Hs. exact (H pc Hin Hs).
  - intros st o H pc Hin Hs. exact (H pc Hin Hs).
  - intros st o H pc Hin Hs. exact (H pc Hin Hs).
  - intros st o H pc Hin Hs. exact (H pc Hin Hs).
  - intros st H pc Hin Hs. cbn in Hin. contradiction.
  - intros st pc0 H Hok pc Hin Hs. cbn [set_choices st_choices st_chosen] in *.
    apply in_app_or in Hin. destruct Hin as [Hin|[Hin|[]]]; [exact (H pc Hin Hs)|]. subst pc0.
    destruct Hok as [Hok|Hok]; [congruence | exact Hok].
  - intros st pc0 b H Hin0 pc Hin Hs.
    destruct (take_choice_choices st pc0 b) as [E|[E1 E2]].
    + rewrite E in Hin. contradiction.
    + rewrite E1 in Hin. rewrite E2. exact (H pc Hin Hs).
Qed.

Lemma initial_once_inv : forall p, once_inv (initial p).
Proof. intros p pc H. cbn in H. contradiction. Qed.

Theorem once_only_never_twice_lemma : forall p fuel path st pc,
  play fuel p (initial p) path = Some st ->
  In pc (st_choices st) -> c_sticky (pc_choice pc) = false ->
  ~ In (c_id (pc_choice pc)) (st_chosen st).
Proof.
  intros p fuel path st pc E. revert pc.
  change (once_inv st). eapply st_play; [apply once_inv_stable | apply initial_once_inv | exact E].
Qed.

(* (b) what has been chosen stays recorded *)
Lemma take_choice_chosen : forall st pc b i, In i (st_chosen st) -> In i (st_chosen (take_choice st pc b)).
Proof.
  intros st pc b i H. unfold take_choice. destruct (pc_stack pc) as [|fr below]; [exact H|].
  destruct (c_label (pc_choice pc)); cbn; now right.
Qed.

Lemma chosen_stable : forall i, stable (fun st => In i (st_chosen st)).
Proof. intros i. constructor; intros; cbn in *; try assumption. now apply take_choice_chosen. Qed.

Theorem chosen_stays_recorded_lemma : forall p fuel path st st' i,
  In i (st_chosen st) -> play fuel p st path = Some st' -> In i (st_chosen st').
Proof. intros p fuel path st st' i H E. eapply (st_play _ (chosen_stable i)); eauto. Qed.

Theorem choosing_records_lemma : forall st i st',
  choose st i = Some st' ->
  exists pc, nth_error (visible_choices st) i = Some pc /\
             (pc_stack pc <> [] -> In (c_id (pc_choice pc)) (st_chosen st')).
Proof.
  intros st i st' E. unfold choose in E. destruct (st_status st); try discriminate.
  destruct (nth_error (visible_choices st) i) as [pc|]; [|dis]. inversion E; subst.
  exists pc. split; [reflexivity|]. intros NE. unfold take_choice.
  destruct (pc_stack pc) as [|fr below]; [congruence|].
  destruct (c_label (pc_choice pc)); cbn; now left.
Qed.

(* (c) read counts = number of entries in the ghost trace *)
Fixpoint occ (n : text) (l : list text) : Z :=
  match l with [] => 0%Z | x :: r => ((if text_eqb n x then 1 else 0) + occ n r)%Z end.

Definition count_inv (st : state) : Prop := forall n, zcount n (st_visits st) = occ n (st_trace st).

Lemma text_eqb_refl : forall t, text_eqb t t = true.
Proof. induction t; cbn; [reflexivity|]. rewrite N.eqb_refl. exact IHt. Qed.
Lemma text_eqb_eq : forall a b, text_eqb a b = true -> a = b.
Proof.
  induction a; destruct b; cbn; intros H; try discriminate; [reflexivity|].
  apply andb_prop in H. destruct H as [H1 H2]. apply N.eqb_eq in H1. subst. f_equal. now apply IHa.
Qed.

Lemma lookup_upsert : forall (V : Type) k (v : V) l n,
  lookup n (upsert k v l) = if text_eqb n k then Some v else lookup n l.
Proof.
  induction l as [|[k' v'] r IH]; intros n; cbn [upsert lookup].
  - reflexivity.
  - destruct (text_eqb k k') eqn:E.
    + apply text_eqb_eq in E. subst k'. cbn [lookup]. destruct (text_eqb n k); reflexivity.
    + cbn [lookup]. destruct (text_eqb n k') eqn:E2.
      * destruct (text_eqb n k) eqn:E3; [|reflexivity].
        apply text_eqb_eq in E2. apply text_eqb_eq in E3. subst. rewrite text_eqb_refl in E. discriminate.
      * apply IH.
Qed.

Lemma visit_count : forall st name, count_inv st -> count_inv (visit name st).
Proof.
  intros st name H n. unfold visit. cbn [st_visits st_trace]. unfold zcount at 1.
  rewrite lookup_upsert. cbn [occ]. destruct (text_eqb n name) eqn:E.
  - apply text_eqb_eq in E. subst n. rewrite <- (H name). lia.
  - rewrite <- (H n). unfold zcount. destruct (lookup n (st_visits st)); lia.
Qed.

Lemma take_choice_count : forall st pc b, count_inv st -> count_inv (take_choice st pc b).
Proof.
  intros st pc b H. unfold take_choice. destruct (pc_stack pc) as [|fr below].
  - intros n. cbn. apply H.
  - destruct (c_label (pc_choice pc)); [apply visit_count|]; intros n; cbn; apply H.
Qed.

Lemma count_stable : stable count_inv.
Proof.
  constructor.
  - intros st o H n. exact (H n).
  - intros st o H n. exact (H n).
  - intros st o H n. exact (H n).
  - intros st o H n. exact (H n).
  - intros st o H n. exact (H n).
  - intros st o H n. exact (H n).
  - intros st n H. now apply visit_count.
  - intros st H n. exact (H n).
  - intros st pc H _ n. exact (H n).
  - intros st pc b H _. now apply take_choice_count.
Qed.

Theorem visits_equal_entries_lemma : forall p fuel path st n,
  play fuel p (initial p) path = Some st -> zcount n (st_visits st) = occ n (st_trace st).
Proof.
  intros p fuel path st n E. revert n. change (count_inv st).
  eapply st_play; [apply count_stable | | exact E]. intros n. reflexivity.
Qed.

(* ------------------------------------------------------------------ the hypotheses are satisfiable *)
Definition ex_prog : program :=
  mkProgram [] [SDivert (TKnot (T "k0"))]
    [mkKnot (T "k0") [] false
       [SLine [IText (T "hello")] [] None;
        SChoices [mkChoice 1 false None [] [IText (T "a")] false [] [] [] None false [SDivert (TKnot (T "k0"))];
                  mkChoice 2 false None [] [IText (T "b")] false [] [] [] None false [SDivert TEnd]]] []].

(* after choosing the once-only "a" the knot is played again and only "b" is on offer *)
Example ex_once_only :
  exists st, play 200 ex_prog (initial ex_prog) [0%nat] = Some st /\
             st_chosen st = [1%nat] /\ map pc_text (st_choices st) = [T "b"] /\
             zcount (T "k0") (st_visits st) = 1%Z /\ occ (T "k0") (st_trace st) = 1%Z.
Proof. eexists. split; [vm_compute; reflexivity|]. repeat split. Qed.

Example ex_clean_ws : clean_ws (T "  a   b  ") = T "a b".
Proof. reflexivity. Qed.
