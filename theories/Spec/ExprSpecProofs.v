(* Spec/ExprSpecProofs.v — list + int / list - int at the level of NativeFunctionCall::call,
   and the commands LIST_RANGE and ListName(n) at the level of the control_logic.rs arms,
   against Spec/ExprSpec.v (which reads them off Spec/ListSpec.v). *)
From Coq Require Import Lia Permutation.
From Ink.Data Require Import Types Path InkList IntSem Value Native InkListProofs NativeProofs.
From Ink.Gen Require Import NativeGen.
From Ink.Spec Require Import KeyOrder ListSpec ListSpecProofs ExprSpec.
Local Open Scope Z_scope.

(* ---------- list + int, list - int ---------- *)
Definition is_increment (op : nop) : bool := match op with NAdd | NSubtract => true | _ => false end.

Theorem native_list_increment_refines_lemma : forall oo ovf fo defs op a n ds,
  ord_ok oo -> wf_list a -> has_origins a -> origin_defs defs a = Ok ds -> Forall wf_def ds ->
  is_increment op = true ->
  abs_res (call_native_g oo int_sem_now ovf fo defs op [OVal (VList a); OVal (VInt n)]) =
  Some (spec_list_increment ds op (abs a) n).
Proof.
  intros oo ovf fo defs op a n ds Hoo Ha Ho Hds Hwd Hop.
  destruct (increment_refines_now oo ovf defs op a n ds Hoo Ha Ho Hds Hwd) as [r [Hr Habs]].
  destruct op; try discriminate Hop; unfold call_native_g, call_native_d;
    cbn [native_nparams length Nat.eqb negb existsb is_void_obj is_list_obj orb call_binary_list_operation];
    rewrite Hr; unfold ok_val; cbn [bind abs_res abs_value option_map spec_list_increment];
    rewrite Habs; reflexivity.
Qed.

(* ---------- the commands ---------- *)
Definition abs_vres (r : Res value) : option sres :=
  match r with
  | Ok v => option_map ROk (abs_value v)
  | Err _ _ => Some RErr
  | Panic _ => None
  end.

Theorem list_range_cmd_refines_lemma : forall oo l vlo vhi lo hi,
  ord_ok oo -> wf_list l -> wf_bound vlo -> wf_bound vhi ->
  abs_bound vlo = Some lo -> abs_bound vhi = Some hi ->
  abs_vres (list_range_cmd oo (OVal vhi) (OVal vlo) (OVal (VList l))) = Some (spec_list_range (abs l) lo hi).
Proof.
  intros oo l vlo vhi lo hi Hoo Hl Hwlo Hwhi Hlo Hhi. unfold list_range_cmd, spec_list_range.
  cbn [obj_list abs_vres abs_value option_map].
  rewrite (list_range_refines oo origin_copy_now l vlo vhi lo hi Hoo Hl Hwlo Hwhi Hlo Hhi). reflexivity.
Qed.

Theorem list_from_int_cmd_refines_lemma : forall oo defs name n, ord_ok oo -> NoDup (map fst defs) ->
  abs_vres (list_from_int_cmd oo defs (OVal (VInt n)) (OVal (VString name))) =
  Some (spec_list_from_int defs name n).
Proof.
  intros oo defs name n Hoo Hnd. unfold list_from_int_cmd, spec_list_from_int. cbn [obj_int obj_str].
  pose proof (from_int_refines oo defs name n Hoo Hnd) as H.
  destruct (s_from_int defs name n) as [s|].
  - destruct H as [r [-> <-]]. reflexivity.
  - destruct H as [msg ->]. reflexivity.
Qed.

(* the hypotheses are satisfiable: LIST L = a, b, c; LIST M = x, (y = 2), (z = 5) *)
Example list_cmd_hypotheses_example :
  let defs := [(T "L", [(T "a", 1); (T "b", 2); (T "c", 3)]); (T "M", [(T "x", 1); (T "y", 2); (T "z", 5)])] in
  let l := mkList [(mkItem (Some (T "L")) (T "c"), 3); (mkItem (Some (T "L")) (T "a"), 1)] [T "L"] [] in
  NoDup (map fst defs) /\ wf_list l /\ has_origins l /\ origin_defs defs l = Ok [(T "L", [(T "a", 1); (T "b", 2); (T "c", 3)])] /\
  spec_list_increment [(T "L", [(T "a", 1); (T "b", 2); (T "c", 3)])] NSubtract (abs l) 1 =
    ROk (SList [(mkItem (Some (T "L")) (T "b"), 2)]) /\
  spec_list_from_int defs (T "M") 5 = ROk (SList [(mkItem (Some (T "M")) (T "z"), 5)]).
Proof.
  cbn zeta. repeat split.
  - repeat constructor; cbn; intuition discriminate.
  - repeat constructor; cbn; intuition discriminate.
  - intros kv [<-|[<-|[]]]; discriminate.
Qed.
