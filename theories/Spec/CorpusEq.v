(* Spec/CorpusEq.v — C05: "the story our compiler produces behaves like the
   reference-compiled story along every choice path", as a decidable
   statement about two JSON documents.  Model file: no proofs.

   Both documents are loaded with the model loader (Json/StdLoad.load_story)
   and played by the engine model (Engine/Run.v) from the same seed and with
   the SAME library-RNG oracle: the constant-0 draw table [mkOracles [] [] []].
   A shuffle seeds its generator with (sum of the characters of the sequence
   container's path + loop count + story seed) (story/mod.rs:
   next_sequence_shuffle_index), i.e. with a compiler-internal name, so the two
   stories would draw from different streams; giving both the same stream is
   what "compared modulo the shuffle" means here.  RANDOM / LIST_RANDOM draw
   from the same constant stream.

   Compared at every node of the choice tree (depth-first, children in choice
   order, at most [budget] nodes, depth <= [depth]):
     - every line with its tags and the state summary after it (text, tags,
       choices with their tags, can_continue, #errors, #warnings) — these are
       exactly the transcript lines of Engine/Run.explore, i.e. of
       harness/inkdrive's explore();
     - the END summary (choices offered, status);
     - the value of every global variable (divert-target values only as "is a
       divert target": container paths are compiler-internal names). *)
From Ink.Engine Require Import Run.
From Ink.Data Require Import Types.
From Ink.Json Require Import StdLoad.
From Ink.Engine Require Tie.

(* the code-dependent switches, regenerated from /repo on every run (Gen/EngineGen.v via Engine/Tie.v) *)
Definition gen_switches : switches := Tie.sw_now.

Definition zero_oracle : oracles := mkOracles [] [] [].
Definition corpus_seed : Z := 42%Z.
Definition corpus_fuel : N := 100000.

Fixpoint list_text_eqb (a b : list text) : bool :=
  match a, b with
  | [], [] => true
  | x :: a', y :: b' => text_eqb x y && list_text_eqb a' b'
  | _, _ => false
  end.

(* ---------- global variables at a node ---------- *)
Definition show_gvalue (v : value) : text :=
  match v with
  | VDivert _ => T "d:*"
  | _ => show_value v
  end.

Definition globals_line (d : drv) : text :=
  match dr_world d with
  | None => T "  VARS => nostory"
  | Some w =>
      let names := sort_texts (map fst (vs_globals (ss_vars (w_state w)))) in
      T "  VARS => " ++
      join_with [59] (map (fun n => n ++ [61] ++
                             match vs_host_get (w_state w) n with
                             | Some v => show_gvalue v
                             | None => T "none"
                             end) names)
  end.

(* ---------- exploration with globals (Run.explore + one VARS line per node) ---------- *)
Section Explore.
Variable sw : switches.
Variable orc : oracles.

Fixpoint explore_g (depth : nat) (d : drv) (path : list nat) (budget : nat) (acc : list text)
  : nat * list text :=
  match budget with
  | O => (O, (T "PATH " ++ show_path path ++ T ": budget") :: acc)
  | S b =>
      let acc1 := (T "PATH " ++ show_path path ++ T ":") :: acc in
      let '(ok, d1, acc2) := run_to_choice sw orc (S (N.to_nat (dr_fuel d))) d acc1 true in
      let n := if ok && negb (dr_poisoned d1) then visible_choice_count d1 else O in
      let '(r, d2) := run_op sw orc HStatus d1 in
      let '(s, d3) := summary d2 in
      let acc3 := globals_line d3 :: (T "  END => " ++ r ++ T " | " ++ s) :: acc2 in
      match depth with
      | O => (b, acc3)
      | S dep =>
          (fix children (i : nat) (k : nat) (budget : nat) (acc : list text) {struct k} : nat * list text :=
             match k with
             | O => (budget, acc)
             | S k' =>
                 let '(rc, dc) := run_op sw orc (HChoose (Z.of_nat i)) d3 in
                 let '(_, dc') := summary dc in
                 let '(budget', acc') :=
                   match budget with
                   | O => (O, (T "PATH " ++ show_path (path ++ [i]) ++ T ": budget") :: acc)
                   | S x =>
                       if text_eqb rc (T "ok") then explore_g dep dc' (path ++ [i]) budget acc
                       else (x, (T "PATH " ++ show_path (path ++ [i]) ++ T ": dead") :: acc)
                   end in
                 children (S i) k' budget' acc'
             end) O n b acc3
      end
  end.

End Explore.

(* the transcript of one story: NEW line, then the exploration *)
Definition corpus_transcript (sw : switches) (depth budget : nat) (j : json) : list text :=
  match load_story j with
  | Ok st =>
      let d0 := mkDrv (Some st) None false corpus_seed corpus_fuel in
      let '(r0, d1) := new_story sw zero_oracle d0 in
      let '(s0, d2) := summary d1 in
      (r0 ++ T " | " ++ s0) :: rev (snd (explore_g sw zero_oracle depth d2 [] budget []))
  | Err k _ => [T "load err"]
  | Panic _ => [T "load panic"]
  end.

Definition loads (j : json) : bool :=
  match load_story j with Ok _ => true | _ => false end.

(* the decidable statement of C05 for one pair *)
Definition transcripts_equal_upto (sw : switches) (depth budget : nat) (ref ours : json) : bool :=
  loads ref && loads ours &&
  list_text_eqb (corpus_transcript sw depth budget ref) (corpus_transcript sw depth budget ours).

(* a pair of the corpus: (relative file name, reference JSON, JSON produced by the current compiler) *)
Definition cpair := (text * json * json)%type.
Definition cp_name (p : cpair) : text := fst (fst p).

Definition mem_text (x : text) (l : list text) : bool := existsb (text_eqb x) l.

(* bound used by the theorems of Props/C05.v *)
Definition corpus_depth : nat := 3.
Definition corpus_budget : nat := 60.

(* [known]: names of the pairs listed as known findings (Gen/CorpusIndex.v, from known_findings.json) *)
Definition pair_ok (known : list text) (p : cpair) : bool :=
  mem_text (cp_name p) known ||
  transcripts_equal_upto gen_switches corpus_depth corpus_budget (snd (fst p)) (snd p).

(* every pair listed as known really diverges (so the exclusion list cannot silently grow stale) *)
Definition pair_known_diverges (known : list text) (p : cpair) : bool :=
  negb (mem_text (cp_name p) known) ||
  negb (transcripts_equal_upto gen_switches corpus_depth corpus_budget (snd (fst p)) (snd p)).

(* both at once (one computation per pair): a pair not listed agrees, a listed pair diverges *)
Definition pair_verdict (known : list text) (p : cpair) : bool :=
  let eq := transcripts_equal_upto gen_switches corpus_depth corpus_budget (snd (fst p)) (snd p) in
  if mem_text (cp_name p) known then negb eq else eq.

(* first differing line, for the checker's report *)
Fixpoint first_diff (i : nat) (a b : list text) : option (nat * text * text) :=
  match a, b with
  | [], [] => None
  | x :: a', y :: b' => if text_eqb x y then first_diff (S i) a' b' else Some (i, x, y)
  | x :: _, [] => Some (i, x, T "<no more lines>")
  | [], y :: _ => Some (i, T "<no more lines>", y)
  end.

Definition pair_report (p : cpair) : text :=
  let ta := corpus_transcript gen_switches corpus_depth corpus_budget (snd (fst p)) in
  let tb := corpus_transcript gen_switches corpus_depth corpus_budget (snd p) in
  cp_name p ++ T " " ++
  match first_diff 0 ta tb with
  | None => T "equal " ++ show_N (N.of_nat (length ta))
  | Some (i, x, y) => T "diverge@" ++ show_N (N.of_nat i) ++ [10] ++ x ++ [10] ++ y
  end.
