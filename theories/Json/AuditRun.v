(* Json/AuditRun.v — the model's version of Story::verif_content_audit()
   (runtime/src/verif.rs): one line per runtime object, in tree order (content
   first, then named-only content sorted by name), with the object's own path,
   its kind, whether the path resolves back to the object, the text round trip
   of the path, and for objects holding a reference how the runtime would
   resolve it.  Entry point for tools/props/c19_tree.py (lines are compared with
   the implementation's after re-quoting Rust's {:?} strings).  Run file:
   no proofs; recursion on fuel (nesting depth), never used in theorems. *)
From Ink.Data Require Import Types Path Tree.
From Ink.Gen Require Import PathGen LoadGen.
From Ink.Json Require Import StdLoad.

Definition pparse_s (s : text) : path := path_parse (Some s).

(* ---------- small printers ---------- *)
Definition show_bool (b : bool) : text := if b then T "true" else T "false".
Definition show_opt_q (o : option text) : text :=
  match o with Some s => T "Some(" ++ quote_text s ++ T ")" | None => T "None" end.
Definition show_vec_q (l : list text) : text :=
  T "[" ++ join_with (T ", ") (map quote_text l) ++ T "]".

Fixpoint hex8_aux (n : nat) (z : Z) (acc : text) : text :=
  match n with
  | O => acc
  | S k => hex8_aux k (z / 16)%Z (hex_digit (Z.to_N (z mod 16)%Z) :: acc)
  end.
Definition hex8 (z : Z) : text := hex8_aux 8 z [].

(* insertion sort of texts (Rust `sort()` on Strings: byte order = scalar order) *)
Fixpoint insert_text (x : text) (l : list text) : list text :=
  match l with
  | [] => [x]
  | y :: r => if text_ltb y x then y :: insert_text x r else x :: l
  end.
Definition sort_texts (l : list text) : list text := fold_right insert_text [] l.
Fixpoint dedup_sorted (l : list text) : list text :=
  match l with
  | x :: ((y :: _) as r) => if text_eqb x y then dedup_sorted r else x :: dedup_sorted r
  | _ => l
  end.

Fixpoint insert_named {V} (x : text * V) (l : list (text * V)) : list (text * V) :=
  match l with
  | [] => [x]
  | y :: r => if text_ltb (fst y) (fst x) then y :: insert_named x r else x :: l
  end.
Definition sort_named {V} (l : list (text * V)) : list (text * V) := fold_right insert_named [] l.

Fixpoint rev_lookup {A} (eqb : A -> A -> bool) (tbl : list (string * A)) (a : A) : text :=
  match tbl with
  | [] => T "?"
  | (n, b) :: r => if eqb a b then T n else rev_lookup eqb r a
  end.
Scheme Equality for cmd.
Scheme Equality for nop.

(* ---------- names registered by Container::new ---------- *)
Definition valid_name_of (o : obj) : option text :=
  match o with OCont c => if has_valid_name c then c_name c else None | _ => None end.
Fixpoint valid_names (l : list obj) : list text :=
  match l with
  | [] => []
  | o :: r => match valid_name_of o with Some n => n :: valid_names r | None => valid_names r end
  end.
(* Container::get_named_only_content *)
Definition named_only_of (c : container) : list (text * container) :=
  filter (fun kc => negb (existsb (text_eqb (fst kc)) (valid_names (c_content c)))) (c_named_only c).

(* ---------- kinds ---------- *)
Definition count_flags (c : container) : Z :=
  let f := ((if c_visits c then 1 else 0) + (if c_turns c then 2 else 0) + (if c_start_only c then 4 else 0))%Z in
  if (f =? 4)%Z then 0%Z else f.

Definition item_full_name (it : listitem) : text :=
  (match it_origin it with Some o => o | None => T "?" end) ++ [c_dot] ++ it_name it.

(* InkList::get_origin_names: `k.get_origin_name().unwrap()` panics on an origin-less item *)
Definition list_origin_names (l : inklist) : option (list text) :=
  match l_items l with
  | [] => Some (l_init_names l)
  | items => fold_right (fun iv acc => match it_origin (fst iv), acc with
                                        | Some o, Some a => Some (o :: a)
                                        | _, _ => None
                                        end) (Some []) items
  end.

Definition pushpop_text (t : pushpop) : text :=
  match t with PTunnel => T "Tunnel" | PFunction => T "Function"
          | PFunctionEvalFromGame => T "FunctionEvaluationFromGame" end.

(* None = the hook itself would panic while describing the object *)
Definition kind_of (o : obj) : option text :=
  match o with
  | OCont c =>
      Some (T "container name=" ++ show_opt_q (c_name c) ++ T " flags=" ++ show_Z (count_flags c)
            ++ T " n=" ++ show_N (N.of_nat (length (c_content c)))
            ++ T " named=" ++ show_vec_q (dedup_sorted (sort_texts
                 (valid_names (c_content c) ++ map fst (c_named_only c)))))
  | OVal (VBool b) => Some (T "bool " ++ show_bool b)
  | OVal (VInt z) => Some (T "int " ++ show_Z z)
  | OVal (VFloat b) => Some (T "float " ++ hex8 b)
  | OVal (VString s) => Some (T "str " ++ quote_text s)
  | OVal (VDivert p) => Some (T "divtarget " ++ quote_text (path_string p))
  | OVal (VVarPtr n ci) => Some (T "varptr " ++ quote_text n ++ T " " ++ show_Z ci)
  | OVal (VList l) =>
      match list_origin_names l with
      | None => None
      | Some names =>
          Some (T "list " ++ show_vec_q (sort_texts (map (fun iv => item_full_name (fst iv) ++ T "=" ++ show_Z (snd iv)) (l_items l)))
                ++ T " origins=" ++ show_vec_q (dedup_sorted (sort_texts names)))
      end
  | ODivert d =>
      Some (T "divert var=" ++ show_opt_q (d_var d) ++ T " pushes=" ++ show_bool (d_pushes d)
            ++ T " type=" ++ pushpop_text (d_type d) ++ T " ext=" ++ show_bool (d_external d)
            ++ T " args=" ++ show_Z (d_exargs d) ++ T " cond=" ++ show_bool (d_cond d))
  | OChoicePoint f _ => Some (T "choicepoint flags=" ++ show_Z (Z.land f 31))
  | OCmd c => Some (T "cmd " ++ rev_lookup cmd_beq cmd_names c)
  | ONative n => Some (T "native " ++ rev_lookup nop_beq nop_names n)
  | OVarRef n => Some (T "varref name=" ++ quote_text n ++ T " count=None")
  | OReadCount p => Some (T "varref name=" ++ quote_text [] ++ T " count=" ++ show_opt_q (Some (path_string p)))
  | OVarAss n is_new is_global =>
      Some (T "varass " ++ quote_text n ++ T " new=" ++ show_bool is_new ++ T " global=" ++ show_bool is_global)
  | OTag t => Some (T "tag " ++ quote_text t)
  | OGlue => Some (T "glue")
  | OVoid => Some (T "void")
  | OChoice _ => Some (T "other")
  end.

(* ---------- references (Divert::get_target_path, ChoicePoint::get_path_on_choice) ---------- *)
(* Divert::get_target_pointer, from an unresolved path *)
Definition divert_target_pointer (root : container) (at_ : pos) (p : path) : Res pointer :=
  do sr <- resolve_path root at_ p;
  match path_last p with
  | None => Panic (T "divert.rs:get_target_pointer:get_last_component().unwrap()")
  | Some (CIdx i) => Ok (mkPtr (pos_parent (sr_pos sr)) (wrap32 (Z.of_N i)))
  | Some (CName _) =>
      if is_cont_at root (sr_pos sr) then Ok (ptr_start_of (sr_pos sr))
      else Panic (T "divert.rs:get_target_pointer:downcast::<Container>().unwrap()")
  end.

Definition divert_target_path (root : container) (at_ : pos) (p : path) : Res path :=
  if p_rel p then
    do ptr <- divert_target_pointer root at_ p;
    match ptr_resolve root ptr with
    | Some rp => get_path root rp
    | None => Ok p
    end
  else Ok p.

Definition choice_target_path (root : container) (at_ : pos) (p : path) : Res path :=
  if p_rel p then
    do sr <- resolve_path root at_ p;
    if is_cont_at root (sr_pos sr) then get_path root (sr_pos sr) else Ok p
  else Ok p.

Definition res_text {A} (r : Res A) (f : A -> text) : text :=
  match r with Ok a => f a | Err _ _ => T "!err" | Panic s => T "!panic:" ++ s end.

(* the optional 4th field *)
Definition target_field (root : container) (at_ : pos) (o : obj) : option text :=
  let render (t : Res path) : text :=
    res_text t (fun t =>
      res_text (get_path root at_) (fun own =>
        res_text (compact_path_string own t) (fun s =>
          res_text (resolve_path root at_ t) (fun sr =>
            res_text (get_path root (sr_pos sr)) (fun rp =>
              T "target=" ++ quote_text s ++ T " target_resolves=" ++ quote_text (path_string rp)
              ++ T " approx=" ++ show_bool (sr_approx sr)))))) in
  match o with
  | ODivert d =>
      match d_var d, d_external d, d_target d with
      | None, false, Some p => Some (render (divert_target_path root at_ p))
      | None, false, None => Some (T "target=" ++ quote_text [])
      | _, _, _ => None
      end
  | OChoicePoint _ p => Some (render (choice_target_path root at_ p))
  | OReadCount p => Some (render (Ok p))
  | _ => None
  end.

(* ---------- one line ---------- *)
Definition audit_line (root : container) (p : pos) (o : obj) : text :=
  match get_path root p, kind_of o with
  | Ok pa, Some kind =>
      let s := path_string pa in
      let found := content_at_path root pa in
      let re := pparse_s s in
      s ++ [c_tab] ++ kind ++ [c_tab]
        ++ T "resolves=" ++ (if pos_eqb (sr_pos found) p then T "same" else T "other")
        ++ T " approx=" ++ show_bool (sr_approx found)
        ++ T " reparse_eq=" ++ show_bool (path_eqb re pa)
        ++ T " reparse_rel=" ++ show_bool (p_rel re)
        ++ T " hash_eq=" ++ show_bool (text_eqb (path_hash_input re) (path_hash_input pa))
        ++ match target_field root p o with Some t => [c_tab] ++ t | None => [] end
  | _, _ => T "!panic"
  end.

Fixpoint indexed {A} (i : nat) (l : list A) : list (nat * A) :=
  match l with [] => [] | x :: r => (i, x) :: indexed (S i) r end.

Fixpoint audit_walk (fuel : nat) (root : container) (p : pos) (o : obj) : list text :=
  match fuel with
  | O => [T "!out-of-fuel"]
  | S f =>
      audit_line root p o ::
      match o with
      | OCont c =>
          flat_map (fun ix => audit_walk f root (p ++ [SI (fst ix)]) (snd ix)) (indexed O (c_content c))
          ++ flat_map (fun kc => audit_walk f root (p ++ [SN (fst kc)]) (OCont (snd kc)))
                      (sort_named (named_only_of c))
      | _ => []
      end
  end.

Definition audit_story (s : story) : list text := audit_walk 1000 (st_root s) [] (OCont (st_root s)).

(* entry point: document -> "load=<outcome>" or the audit lines, newline separated *)
Definition run_audit (j : json) : text :=
  match load_story j with
  | Ok s => join_with [c_nl] ((T "load=ok wf_tree=" ++ show_bool (wf_tree (st_root s))) :: audit_story s)
  | Err _ _ => T "load=err"
  | Panic site => T "load=panic:" ++ site
  end.
