(* Json/StdLoadProofs.v — totality of the story loader model (C15, story half).

   Main results (all for an ARBITRARY site table [panics], so they keep
   compiling whatever the regenerated table says):
     load_np_of_sites_off : every story-reachable site repaired -> no document panics
     load_panics_of_site_on : a story-reachable site still on   -> its witness document panics
     load_total_iff        : the two together
   and their instances for the generated table. *)
From Ink.Json Require Import StdLoad.
From Ink.Gen Require Import LoadGen.

(* ---------- induction on documents ---------- *)
Section JsonInd.
  Variable P : json -> Prop.
  Hypothesis Hnull : P JNull.
  Hypothesis Hbool : forall b, P (JBool b).
  Hypothesis Hint : forall z, P (JInt z).
  Hypothesis Hfloat : forall b, P (JFloat b).
  Hypothesis Hstr : forall s, P (JStr s).
  Hypothesis Harr : forall l, Forall P l -> P (JArr l).
  Hypothesis Hobj : forall l, Forall (fun kv => P (snd kv)) l -> P (JObj l).

  Fixpoint json_ind' (j : json) : P j :=
    match j with
    | JNull => Hnull
    | JBool b => Hbool b
    | JInt z => Hint z
    | JFloat b => Hfloat b
    | JStr s => Hstr s
    | JArr l =>
        Harr l ((fix go (l : list json) : Forall P l :=
                   match l with
                   | [] => Forall_nil _
                   | x :: r => Forall_cons _ (json_ind' x) (go r)
                   end) l)
    | JObj l =>
        Hobj l ((fix go (l : list (text * json)) : Forall (fun kv => P (snd kv)) l :=
                   match l with
                   | [] => Forall_nil _
                   | kv :: r => Forall_cons _ (json_ind' (snd kv)) (go r)
                   end) l)
    end.
End JsonInd.

(* ---------- "does not panic" ---------- *)
Definition np {A} (r : Res A) : Prop := is_panic r = false.

Lemma np_ok {A} (a : A) : np (Ok a).
Proof. reflexivity. Qed.
Lemma np_err {A} k m : np (@Err A k m).
Proof. reflexivity. Qed.
Lemma np_bad {A} m : np (@bad A m).
Proof. reflexivity. Qed.

Lemma np_bind {A B} (m : Res A) (f : A -> Res B) :
  np m -> (forall a, m = Ok a -> np (f a)) -> np (bind m f).
Proof. destruct m as [a|k e|s]; cbn; intros Hm Hf; [now apply Hf|reflexivity|discriminate Hm]. Qed.

Lemma np_bind' {A B} (m : Res A) (f : A -> Res B) :
  np m -> (forall a, np (f a)) -> np (bind m f).
Proof. intros Hm Hf. apply np_bind; auto. Qed.

Lemma np_mapM {A B} (f : A -> Res B) l : (forall x, In x l -> np (f x)) -> np (mapM f l).
Proof.
  induction l as [|x r IH]; cbn [mapM]; intros H; [reflexivity|].
  apply np_bind'; [apply H; now left|]. intros y.
  apply np_bind'; [apply IH; intros z Hz; apply H; now right|]. intros ys. reflexivity.
Qed.

Lemma np_foldM {A S} (f : S -> A -> Res S) l : (forall s x, np (f s x)) -> forall s, np (foldM f l s).
Proof.
  intros H. induction l as [|x r IH]; cbn [foldM]; intros s; [reflexivity|].
  apply np_bind'; [apply H|]. intros s'. apply IH.
Qed.

Lemma np_not_panic {A} (r : Res A) : np r <-> forall s, r <> Panic s.
Proof.
  split.
  - intros H s ->. discriminate H.
  - intros H. destruct r as [a|k e|s]; try reflexivity. exfalso. now apply (H s).
Qed.

(* the sites a story document can reach: everything except the helpers that
   only the save-state loader calls and one guarded `get` *)
Definition story_site (s : lsite) : bool :=
  match s with
  | L_objlist_skip_last | L_choice_ocp_get | L_hashmap_value | L_int_hashmap_val => false
  | _ => true
  end.

Section Total.
  Variable panics : lsite -> bool.
  Hypothesis Hoff : forall s, story_site s = true -> panics s = false.

  Lemma np_site {A} s (o : option A) : story_site s = true -> np (site panics s o).
  Proof. intros Hs. destruct o; cbn; [reflexivity|]. rewrite (Hoff s Hs). reflexivity. Qed.

  Ltac site_tac := apply np_site; reflexivity.
  Ltac step :=
    first [ apply np_ok | apply np_err | apply np_bad | site_tac
          | apply np_bind'; [|intros ?] ].

  Lemma np_jstr s : np (jstr_to_obj panics s).
  Proof.
    destruct s as [|c r]; cbn [jstr_to_obj]; [site_tac|].
    repeat match goal with
           | |- np (if ?b then _ else _) => destruct b
           | |- np (match ?o with Some _ => _ | None => _ end) => destruct o
           end; step.
  Qed.

  Lemma np_tags o : np (jarray_to_tags_gen panics o).
  Proof.
    unfold jarray_to_tags_gen. destruct (assoc _ o); [|step].
    step; [site_tac|]. apply np_mapM. intros; site_tac.
  Qed.

  (* the guarded get of originalChoicePath: present whenever jobject_to_choice is called *)
  Lemma np_choice o : aget o "originalChoicePath" <> None -> np (jobject_to_choice_gen panics o).
  Proof.
    intros Hocp. unfold jobject_to_choice_gen.
    repeat (apply np_bind'; [try site_tac|intros ?]).
    - destruct (aget o "originalChoicePath"); [reflexivity|congruence].
    - apply np_tags.
    - step.
  Qed.

  Lemma np_jlist o pv : np (jlist_to_obj panics o pv).
  Proof.
    unfold jlist_to_obj.
    apply np_bind'; [site_tac|intros content].
    apply np_bind'; [|intros names].
    - destruct (assoc _ o); [|step]. apply np_bind'; [site_tac|intros arr]. apply np_mapM; intros; site_tac.
    - apply np_bind'; [|intros; step]. apply np_foldM. intros acc kv. apply np_bind'; [site_tac|intros; step].
  Qed.

  Lemma np_jdivert o v pushes ty ext : np (jdivert_to_obj panics o v pushes ty ext).
  Proof.
    unfold jdivert_to_obj. apply np_bind'; [site_tac|intros target].
    apply np_bind'; [|intros; step].
    destruct ext; [|step]. destruct (assoc _ o); [|step]. apply np_bind'; [site_tac|intros; step].
  Qed.

  Lemma np_jobj o : np (jobj_to_obj panics o).
  Proof.
    unfold jobj_to_obj.
    repeat match goal with
           | |- np (match aget o ?k with Some _ => _ | None => _ end) =>
               let E := fresh "E" in destruct (aget o k) eqn:E
           | |- np (match ?x with Some _ => _ | None => _ end) => destruct x as [[? ?]|]
           end;
    try apply np_jdivert; try apply np_jlist;
    try (apply np_choice; congruence);
    repeat first [ apply np_ok | apply np_bad | site_tac
                 | apply np_bind'; [|intros ?]
                 | match goal with |- np (match aget o ?k with Some _ => _ | None => _ end) => destruct (aget o k) end ].
  Qed.

  (* ---------- arrays ---------- *)
  Section ArrNp.
    Variable rec : json -> option text -> Res obj.

    Lemma np_term_entry st k v : (forall n, np (rec v n)) -> np (term_entry panics rec st k v).
    Proof.
      intros Hv. unfold term_entry.
      destruct (text_eqb k (T "#f")).
      { apply np_bind'; [site_tac|intros z]. apply np_bind'; [site_tac|intros; step]. }
      destruct (text_eqb k (T "#n")).
      { apply np_bind'; [site_tac|intros; step]. }
      apply np_bind'.
      - specialize (Hv (Some k)). destruct (rec v (Some k)) as [o|e m|s]; [reflexivity| |discriminate Hv].
        rewrite (Hoff L_named_item_err eq_refl). reflexivity.
      - intros o. apply np_bind'; [site_tac|intros; step].
    Qed.

    Lemma np_term_fold kvs : Forall (fun kv => forall n, np (rec (snd kv) n)) kvs ->
      forall st, np (term_fold panics rec kvs st).
    Proof.
      induction 1 as [|[k v] r Hkv Hr IH]; intros st; cbn [term_fold]; [reflexivity|].
      apply np_bind'; [apply np_term_entry; exact Hkv|]. intros st'. apply IH.
    Qed.

    (* what the induction gives about an array element *)
    Definition elem_ok (x : json) : Prop :=
      (forall n, np (rec x n)) /\
      match x with
      | JObj kvs => Forall (fun kv => forall n, np (rec (snd kv) n)) kvs
      | _ => True
      end.

    Lemma np_terminator x name : elem_ok x -> np (terminator panics rec x name).
    Proof. intros [_ H]. destruct x; try reflexivity. cbn [terminator]. now apply np_term_fold. Qed.

    Lemma np_arr_walk l name : Forall elem_ok l ->
      np (fst (arr_walk panics rec l name)) /\ np (snd (arr_walk panics rec l name)).
    Proof.
      induction 1 as [|x r Hx Hr IH]; cbn [arr_walk]; [split; reflexivity|].
      destruct r as [|y r'].
      - cbn [fst snd]. split; [now apply np_terminator|reflexivity].
      - destruct IH as [IH1 IH2]. cbn [fst snd]. split; [exact IH1|].
        apply np_bind'; [apply Hx|]. intros o. apply np_bind'; [exact IH2|]. intros; step.
    Qed.

    Lemma np_jarray l name : Forall elem_ok l -> np (jarray_to_container panics rec l name).
    Proof.
      intros H. unfold jarray_to_container. destruct l as [|x r]; [site_tac|].
      destruct (np_arr_walk (x :: r) name H) as [H1 H2].
      apply np_bind'; [exact H1|]. intros st. apply np_bind'; [exact H2|]. intros; step.
    Qed.
  End ArrNp.

  Lemma jtoken_arr_eq l name :
    jtoken_to_obj_gen panics (JArr l) name
    = jarray_to_container panics (jtoken_to_obj_gen panics) l name.
  Proof. reflexivity. Qed.

  Lemma np_jtoken_strong j : elem_ok (jtoken_to_obj_gen panics) j.
  Proof.
    induction j as [| b | z | b | s | l IH | l IH] using json_ind'; unfold elem_ok.
    - split; [intros; reflexivity|exact I].
    - split; [intros; reflexivity|exact I].
    - split; [|exact I]. intros n. cbn [jtoken_to_obj_gen].
      destruct (j_as_i64 (JInt z)); [|step]. apply np_bind'; [site_tac|intros; step].
    - split; [intros; reflexivity|exact I].
    - split; [|exact I]. intros n. apply np_jstr.
    - split; [|exact I]. intros n. rewrite jtoken_arr_eq. apply np_jarray. exact IH.
    - split.
      + intros n. apply np_jobj.
      + eapply Forall_impl; [|exact IH]. intros kv [H _]. exact H.
  Qed.

  Lemma np_jtoken j name : np (jtoken_to_obj_gen panics j name).
  Proof. apply (np_jtoken_strong j). Qed.

  Lemma np_listdefs def : np (jtoken_to_list_definitions_gen panics def).
  Proof.
    unfold jtoken_to_list_definitions_gen. apply np_bind'; [site_tac|intros o].
    apply np_mapM. intros nd _. apply np_bind'; [site_tac|intros items].
    apply np_bind'; [|intros; step]. apply np_foldM. intros acc kv. apply np_bind'; [site_tac|intros; step].
  Qed.

  Lemma np_load j : np (load_story_gen panics j).
  Proof.
    unfold load_story_gen.
    destruct (jget "inkVersion" j) as [vj|]; [|step].
    destruct (negb (j_is_number vj)); [step|].
    apply np_bind'; [site_tac|intros v64]. apply np_bind'; [site_tac|intros version].
    destruct (ink_version_current <? version)%Z; [step|].
    destruct (version <? ink_version_min)%Z; [step|].
    destruct (jget "root" j) as [rt|]; [|step].
    destruct (jget "listDefs" j) as [def|]; [|step].
    apply np_bind'; [apply np_listdefs|intros defs].
    apply np_bind'; [apply np_jtoken|intros root]. destruct root; step.
  Qed.
End Total.

(* ---------- the converse: a site that is still on has a panicking document ---------- *)
Local Open Scope string_scope.
Definition w_story (ver root defs : json) : json :=
  JObj [(T "inkVersion", ver); (T "root", root); (T "listDefs", defs)].
Definition w_root (root : json) : json := w_story (JInt 21) root (JObj []).
Definition w_content (x : json) : json := w_root (JArr [x; JNull]).
Definition w_obj (kvs : list (string * json)) : json := JObj (map (fun kv => (T (fst kv), snd kv)) kvs).
Definition w_term (kvs : list (string * json)) : json := w_root (JArr [w_obj kvs]).
Definition js (s : string) : json := JStr (T s).
Definition w_choice (kvs : list (string * json)) : json :=
  w_content (w_obj (("originalChoicePath", js "a") :: kvs)).

Definition site_witness (s : lsite) : json :=
  match s with
  | L_ver_as_i64 => w_story (JFloat 1101791232) (JArr [js "done"; JNull]) (JObj [])
  | L_ver_i32 => w_story (JInt 4294967296) (JArr [js "done"; JNull]) (JObj [])
  | L_int_i32 => w_content (JInt 2147483648)
  | L_str_first_char => w_content (JStr [])
  | L_varptr_name => w_content (w_obj [("^var", JInt 1)])
  | L_varptr_ci => w_content (w_obj [("^var", js "x"); ("ci", js "0")])
  | L_divert_target => w_content (w_obj [("->", JInt 1)])
  | L_divert_exargs => w_content (w_obj [("x()", js "f"); ("exArgs", js "1")])
  | L_choice_path => w_content (w_obj [("*", JInt 1)])
  | L_choice_flg => w_content (w_obj [("*", js "a"); ("flg", JInt (-1))])
  | L_varref_name => w_content (w_obj [("VAR?", JInt 1)])
  | L_readcount_path => w_content (w_obj [("CNT?", JInt 1)])
  | L_varass_name => w_content (w_obj [("VAR=", JInt 1)])
  | L_tag_text => w_content (w_obj [("#", JInt 1)])
  | L_list_obj => w_content (w_obj [("list", JInt 1)])
  | L_list_origins_arr => w_content (w_obj [("list", JObj []); ("origins", JInt 1)])
  | L_list_origin_str => w_content (w_obj [("list", JObj []); ("origins", JArr [JInt 1])])
  | L_list_item_val => w_content (w_obj [("list", w_obj [("a.b", js "1")])])
  | L_arr_last => w_root (JArr [])
  | L_cont_flags_i64 => w_term [("#f", js "1")]
  | L_cont_flags_i32 => w_term [("#f", JInt 4294967296)]
  | L_cont_name => w_term [("#n", JInt 1)]
  | L_named_item_err => w_term [("a", JNull)]
  | L_named_item_cont => w_term [("a", JInt 1)]
  | L_choice_text_get => w_choice []
  | L_choice_text_str => w_choice [("text", JInt 1)]
  | L_choice_index_get => w_choice [("text", js "t")]
  | L_choice_index_u64 => w_choice [("text", js "t"); ("index", JInt (-1))]
  | L_choice_ocp_str => w_content (w_obj [("originalChoicePath", JInt 1); ("text", js "t"); ("index", JInt 0)])
  | L_choice_oti_get => w_choice [("text", js "t"); ("index", JInt 0)]
  | L_choice_oti_i64 => w_choice [("text", js "t"); ("index", JInt 0); ("originalThreadIndex", js "0")]
  | L_choice_tp_get => w_choice [("text", js "t"); ("index", JInt 0); ("originalThreadIndex", JInt 0)]
  | L_choice_tp_str => w_choice [("text", js "t"); ("index", JInt 0); ("originalThreadIndex", JInt 0);
                                 ("targetPath", JInt 1)]
  | L_tags_arr => w_choice [("text", js "t"); ("index", JInt 0); ("originalThreadIndex", JInt 0);
                            ("targetPath", js "a"); ("tags", JInt 1)]
  | L_tag_str => w_choice [("text", js "t"); ("index", JInt 0); ("originalThreadIndex", JInt 0);
                           ("targetPath", js "a"); ("tags", JArr [JInt 1])]
  | L_listdefs_obj => w_story (JInt 21) (JArr [js "done"; JNull]) (JInt 1)
  | L_listdef_obj => w_story (JInt 21) (JArr [js "done"; JNull]) (w_obj [("l", JInt 1)])
  | L_listdef_val => w_story (JInt 21) (JArr [js "done"; JNull]) (w_obj [("l", w_obj [("a", JInt (-1))])])
  (* not reachable from a story document *)
  | L_objlist_skip_last | L_choice_ocp_get | L_hashmap_value | L_int_hashmap_val => JNull
  end.

(* ---------- monotonicity in the site table ---------- *)
(* [le r1 r2]: r2 is what r1 becomes when more sites panic: accepted documents
   and their results are unchanged, an error stays that error or becomes a panic. *)
Definition le {A} (r1 r2 : Res A) : Prop :=
  match r1 with
  | Ok a => r2 = Ok a
  | Err k m => r2 = Err k m \/ is_panic r2 = true
  | Panic _ => is_panic r2 = true
  end.

Lemma le_refl {A} (r : Res A) : le r r.
Proof. destruct r; cbn; auto. Qed.

Lemma le_bind {A B} (m1 m2 : Res A) (f1 f2 : A -> Res B) :
  le m1 m2 -> (forall a, le (f1 a) (f2 a)) -> le (bind m1 f1) (bind m2 f2).
Proof.
  intros Hm Hf. destruct m1 as [a|k e|s]; cbn in Hm.
  - subst m2. cbn. apply Hf.
  - destruct Hm as [->|Hp]; cbn; [now left|]. right. destruct m2; try discriminate Hp. reflexivity.
  - destruct m2; try discriminate Hm. reflexivity.
Qed.

Lemma le_mapM {A B} (f1 f2 : A -> Res B) l : (forall x, le (f1 x) (f2 x)) -> le (mapM f1 l) (mapM f2 l).
Proof.
  intros H. induction l as [|x r IH]; cbn [mapM]; [reflexivity|].
  apply le_bind; [apply H|]. intros y. apply le_bind; [exact IH|]. intros ys. reflexivity.
Qed.

Lemma le_foldM {A S} (f1 f2 : S -> A -> Res S) l :
  (forall s x, le (f1 s x) (f2 s x)) -> forall s, le (foldM f1 l s) (foldM f2 l s).
Proof.
  intros H. induction l as [|x r IH]; cbn [foldM]; intros s; [reflexivity|].
  apply le_bind; [apply H|]. intros s'. apply IH.
Qed.

Section Mono.
  Variables p1 p2 : lsite -> bool.
  Hypothesis Hle : forall s, p1 s = true -> p2 s = true.

  Lemma le_site {A} s (o : option A) : le (site p1 s o) (site p2 s o).
  Proof.
    destruct o; cbn; [reflexivity|]. destruct (p1 s) eqn:E1.
    - rewrite (Hle s E1). reflexivity.
    - destruct (p2 s); cbn; auto.
  Qed.

  Ltac mstep :=
    first [ apply le_refl | apply le_site | apply le_bind; [|intros ?] ].

  Lemma le_jstr s : le (jstr_to_obj p1 s) (jstr_to_obj p2 s).
  Proof.
    destruct s as [|c r]; cbn [jstr_to_obj]; [apply le_site|].
    repeat match goal with
           | |- le (if ?b then _ else _) _ => destruct b
           | |- le (match ?o with Some _ => _ | None => _ end) _ => destruct o
           end; apply le_refl.
  Qed.

  Lemma le_tags o : le (jarray_to_tags_gen p1 o) (jarray_to_tags_gen p2 o).
  Proof.
    unfold jarray_to_tags_gen. destruct (assoc _ o); [|apply le_refl].
    apply le_bind; [apply le_site|intros arr]. apply le_mapM. intros; apply le_site.
  Qed.

  Lemma le_choice o : le (jobject_to_choice_gen p1 o) (jobject_to_choice_gen p2 o).
  Proof.
    unfold jobject_to_choice_gen.
    repeat (apply le_bind; [try apply le_site|intros ?]); [apply le_tags|apply le_refl].
  Qed.

  Lemma le_jlist o pv : le (jlist_to_obj p1 o pv) (jlist_to_obj p2 o pv).
  Proof.
    unfold jlist_to_obj.
    apply le_bind; [apply le_site|intros content].
    apply le_bind; [|intros names].
    - destruct (assoc _ o); [|apply le_refl]. apply le_bind; [apply le_site|intros arr].
      apply le_mapM; intros; apply le_site.
    - apply le_bind; [|intros; apply le_refl]. apply le_foldM. intros acc kv.
      apply le_bind; [apply le_site|intros; apply le_refl].
  Qed.

  Lemma le_jdivert o v pushes ty ext :
    le (jdivert_to_obj p1 o v pushes ty ext) (jdivert_to_obj p2 o v pushes ty ext).
  Proof.
    unfold jdivert_to_obj. apply le_bind; [apply le_site|intros target].
    apply le_bind; [|intros; apply le_refl].
    destruct ext; [|apply le_refl]. destruct (assoc _ o); [|apply le_refl].
    apply le_bind; [apply le_site|intros; apply le_refl].
  Qed.

  Lemma le_jobj o : le (jobj_to_obj p1 o) (jobj_to_obj p2 o).
  Proof.
    unfold jobj_to_obj.
    repeat match goal with
           | |- le (match aget o ?k with Some _ => _ | None => _ end) _ => destruct (aget o k)
           | |- le (match ?x with Some _ => _ | None => _ end) _ => destruct x as [[? ?]|]
           end;
    try apply le_jdivert; try apply le_jlist; try apply le_choice;
    repeat first [ apply le_refl | apply le_site
                 | apply le_bind; [|intros ?]
                 | match goal with |- le (match aget o ?k with Some _ => _ | None => _ end) _ => destruct (aget o k) end ].
  Qed.

  Section ArrLe.
    Variables rec1 rec2 : json -> option text -> Res obj.

    Lemma le_term_entry st k v : (forall n, le (rec1 v n) (rec2 v n)) ->
      le (term_entry p1 rec1 st k v) (term_entry p2 rec2 st k v).
    Proof.
      intros Hv. unfold term_entry.
      destruct (text_eqb k (T "#f")).
      { apply le_bind; [apply le_site|intros z]. apply le_bind; [apply le_site|intros; apply le_refl]. }
      destruct (text_eqb k (T "#n")).
      { apply le_bind; [apply le_site|intros; apply le_refl]. }
      apply le_bind.
      - specialize (Hv (Some k)). destruct (rec1 v (Some k)) as [o|e m|s]; cbn in Hv.
        + rewrite Hv. reflexivity.
        + destruct (p1 L_named_item_err) eqn:E1.
          * rewrite (Hle _ E1). destruct Hv as [->|Hp]; [reflexivity|].
            destruct (rec2 v (Some k)); try discriminate Hp. reflexivity.
          * destruct Hv as [->|Hp].
            -- destruct (p2 L_named_item_err); cbn; auto.
            -- destruct (rec2 v (Some k)); try discriminate Hp. cbn. now right.
        + destruct (rec2 v (Some k)); try discriminate Hv. reflexivity.
      - intros o. apply le_bind; [apply le_site|intros; apply le_refl].
    Qed.

    Lemma le_term_fold kvs : Forall (fun kv => forall n, le (rec1 (snd kv) n) (rec2 (snd kv) n)) kvs ->
      forall st, le (term_fold p1 rec1 kvs st) (term_fold p2 rec2 kvs st).
    Proof.
      induction 1 as [|[k v] r Hkv Hr IH]; intros st; cbn [term_fold]; [reflexivity|].
      apply le_bind; [apply le_term_entry; exact Hkv|]. intros st'. apply IH.
    Qed.

    Definition elem_le (x : json) : Prop :=
      (forall n, le (rec1 x n) (rec2 x n)) /\
      match x with
      | JObj kvs => Forall (fun kv => forall n, le (rec1 (snd kv) n) (rec2 (snd kv) n)) kvs
      | _ => True
      end.

    Lemma le_terminator x name : elem_le x -> le (terminator p1 rec1 x name) (terminator p2 rec2 x name).
    Proof. intros [_ H]. destruct x; try reflexivity. cbn [terminator]. now apply le_term_fold. Qed.

    Lemma le_arr_walk l name : Forall elem_le l ->
      le (fst (arr_walk p1 rec1 l name)) (fst (arr_walk p2 rec2 l name))
      /\ le (snd (arr_walk p1 rec1 l name)) (snd (arr_walk p2 rec2 l name)).
    Proof.
      induction 1 as [|x r Hx Hr IH]; cbn [arr_walk]; [split; reflexivity|].
      destruct r as [|y r'].
      - cbn [fst snd]. split; [now apply le_terminator|reflexivity].
      - destruct IH as [IH1 IH2]. cbn [fst snd]. split; [exact IH1|].
        apply le_bind; [apply Hx|]. intros o. apply le_bind; [exact IH2|]. intros; apply le_refl.
    Qed.

    Lemma le_jarray l name : Forall elem_le l ->
      le (jarray_to_container p1 rec1 l name) (jarray_to_container p2 rec2 l name).
    Proof.
      intros H. unfold jarray_to_container. destruct l as [|x r]; [apply le_site|].
      destruct (le_arr_walk (x :: r) name H) as [H1 H2].
      apply le_bind; [exact H1|]. intros st. apply le_bind; [exact H2|]. intros; apply le_refl.
    Qed.
  End ArrLe.

  Lemma le_jtoken_strong j : elem_le (jtoken_to_obj_gen p1) (jtoken_to_obj_gen p2) j.
  Proof.
    induction j as [| b | z | b | s | l IH | l IH] using json_ind'; unfold elem_le.
    - split; [intros; apply le_refl|exact I].
    - split; [intros; apply le_refl|exact I].
    - split; [|exact I]. intros n. cbn [jtoken_to_obj_gen].
      destruct (j_as_i64 (JInt z)); [|apply le_refl]. apply le_bind; [apply le_site|intros; apply le_refl].
    - split; [intros; apply le_refl|exact I].
    - split; [|exact I]. intros n. apply le_jstr.
    - split; [|exact I]. intros n. rewrite !jtoken_arr_eq. apply le_jarray. exact IH.
    - split.
      + intros n. apply le_jobj.
      + eapply Forall_impl; [|exact IH]. intros kv [H _]. exact H.
  Qed.

  Lemma le_jtoken j name : le (jtoken_to_obj_gen p1 j name) (jtoken_to_obj_gen p2 j name).
  Proof. apply (le_jtoken_strong j). Qed.

  Lemma le_listdefs def : le (jtoken_to_list_definitions_gen p1 def) (jtoken_to_list_definitions_gen p2 def).
  Proof.
    unfold jtoken_to_list_definitions_gen. apply le_bind; [apply le_site|intros o].
    apply le_mapM. intros nd. apply le_bind; [apply le_site|intros items].
    apply le_bind; [|intros; apply le_refl]. apply le_foldM. intros acc kv.
    apply le_bind; [apply le_site|intros; apply le_refl].
  Qed.

  Lemma le_load j : le (load_story_gen p1 j) (load_story_gen p2 j).
  Proof.
    unfold load_story_gen.
    destruct (jget "inkVersion" j) as [vj|]; [|apply le_refl].
    destruct (negb (j_is_number vj)); [apply le_refl|].
    apply le_bind; [apply le_site|intros v64]. apply le_bind; [apply le_site|intros version].
    destruct (ink_version_current <? version)%Z; [apply le_refl|].
    destruct (version <? ink_version_min)%Z; [apply le_refl|].
    destruct (jget "root" j) as [rt|]; [|apply le_refl].
    destruct (jget "listDefs" j) as [def|]; [|apply le_refl].
    apply le_bind; [apply le_listdefs|intros defs].
    apply le_bind; [apply le_jtoken|intros root]. destruct root; apply le_refl.
  Qed.
End Mono.

Scheme Equality for lsite.
(* the table in which only site s panics *)
Definition only (s : lsite) : lsite -> bool := fun s' => lsite_beq s s'.
Lemma only_le panics s : panics s = true -> forall s', only s s' = true -> panics s' = true.
Proof. intros Hp s' H. apply internal_lsite_dec_bl in H. now subst. Qed.

Lemma witness_panics_alone s : story_site s = true ->
  is_panic (load_story_gen (only s) (site_witness s)) = true.
Proof. intros Hs. destruct s; try discriminate Hs; vm_compute; reflexivity. Qed.

Lemma load_panics_of_site_on panics s :
  story_site s = true -> panics s = true -> is_panic (load_story_gen panics (site_witness s)) = true.
Proof.
  intros Hs Hp.
  pose proof (le_load (only s) panics (only_le panics s Hp) (site_witness s)) as H.
  pose proof (witness_panics_alone s Hs) as Hc.
  destruct (load_story_gen (only s) (site_witness s)); try discriminate Hc. exact H.
Qed.

(* ---------- the characterisation ---------- *)
Theorem load_total_iff panics :
  (forall j site, load_story_gen panics j <> Panic site)
  <-> (forall s, story_site s = true -> panics s = false).
Proof.
  split.
  - intros H s Hs. destruct (panics s) eqn:Hp; [|reflexivity]. exfalso.
    pose proof (load_panics_of_site_on panics s Hs Hp) as Hw.
    destruct (load_story_gen panics (site_witness s)) as [a|k e|site] eqn:E; try discriminate Hw.
    exact (H _ _ E).
  - intros H j. apply np_not_panic. now apply np_load.
Qed.

Definition story_sites_on (panics : lsite -> bool) : bool :=
  existsb (fun s => story_site s && panics s) all_lsites.

Lemma all_lsites_complete s : In s all_lsites.
Proof. destruct s; cbn; tauto. Qed.

(* decided from the table alone: either total, or a concrete panicking document *)
Theorem load_total_status panics :
  if story_sites_on panics
  then exists j site, load_story_gen panics j = Panic site
  else forall j site, load_story_gen panics j <> Panic site.
Proof.
  destruct (story_sites_on panics) eqn:E.
  - unfold story_sites_on in E. apply existsb_exists in E. destruct E as [s [_ Hs]].
    apply andb_prop in Hs. destruct Hs as [Hs Hp].
    pose proof (load_panics_of_site_on panics s Hs Hp) as Hw.
    exists (site_witness s).
    destruct (load_story_gen panics (site_witness s)) as [a|k e|site]; try discriminate Hw. now exists site.
  - apply load_total_iff. intros s Hs. destruct (panics s) eqn:Hp; [|reflexivity].
    exfalso. unfold story_sites_on in E.
    assert (existsb (fun s => story_site s && panics s) all_lsites = true) as H.
    { apply existsb_exists. exists s. split; [apply all_lsites_complete|]. now rewrite Hs, Hp. }
    congruence.
Qed.

(* the repaired code: every site returns BadJson *)
Theorem load_story_repaired_total : forall j site, load_story_repaired j <> Panic site.
Proof. apply load_total_iff. reflexivity. Qed.

(* ---------- instances for the generated table ---------- *)
Lemma load_story_status_now :
  if story_sites_on lsite_panics
  then exists j site, load_story j = Panic site
  else forall j site, load_story j <> Panic site.
Proof. exact (load_total_status lsite_panics). Qed.

(* the two documents of D14, stated so that the lemma survives the repair *)
Lemma d14_empty_root :
  lsite_panics L_arr_last = true ->
  exists site, load_story (w_root (JArr [])) = Panic site.
Proof.
  intros H. pose proof (load_panics_of_site_on lsite_panics L_arr_last eq_refl H) as Hw.
  change (site_witness L_arr_last) with (w_root (JArr [])) in Hw. unfold load_story.
  destruct (load_story_gen lsite_panics (w_root (JArr []))); try discriminate Hw. eauto.
Qed.

Lemma d14_empty_string :
  lsite_panics L_str_first_char = true ->
  exists site, load_story (w_content (JStr [])) = Panic site.
Proof.
  intros H. pose proof (load_panics_of_site_on lsite_panics L_str_first_char eq_refl H) as Hw.
  change (site_witness L_str_first_char) with (w_content (JStr [])) in Hw. unfold load_story.
  destruct (load_story_gen lsite_panics (w_content (JStr []))); try discriminate Hw. eauto.
Qed.

(* repairing sites is conservative: what the current code accepts or rejects with
   an error, the repaired code accepts / rejects identically *)
Lemma repair_conservative_ok j s : load_story j = Ok s -> load_story_repaired j = Ok s.
Proof.
  intros H. pose proof (le_load no_panics lsite_panics (fun s H => False_ind _ (Bool.diff_false_true H)) j) as L.
  unfold load_story in H. unfold load_story_repaired.
  destruct (load_story_gen no_panics j) as [a|k e|p]; cbn in L.
  - congruence.
  - destruct L as [L|L]; rewrite H in L; discriminate L.
  - rewrite H in L. discriminate L.
Qed.

Lemma repair_conservative_err j k m : load_story j = Err k m -> load_story_repaired j = Err k m.
Proof.
  intros H. pose proof (le_load no_panics lsite_panics (fun s H => False_ind _ (Bool.diff_false_true H)) j) as L.
  unfold load_story in H. unfold load_story_repaired.
  destruct (load_story_gen no_panics j) as [a|k' e|p]; cbn in L.
  - congruence.
  - destruct L as [L|L]; rewrite H in L; [congruence|discriminate L].
  - rewrite H in L. discriminate L.
Qed.

(* non-vacuity: a small well-formed story loads, with and without repair *)
Definition tiny_story : json :=
  w_story (JInt 21)
    (JArr [JArr [js "^Hello"; JStr [c_nl]; JArr [js "done"; w_obj [("#n", js "g-0")]]; JNull];
           js "done"; w_obj [("#f", JInt 1)]])
    (w_obj [("l", w_obj [("a", JInt 1); ("b", JInt 2)])]).
Example tiny_story_loads : is_ok (load_story tiny_story) = true /\ is_ok (load_story_repaired tiny_story) = true.
Proof. split; vm_compute; reflexivity. Qed.
