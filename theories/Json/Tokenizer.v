(* Json/Tokenizer.v — the tokenizer model (Json/TokenizerCore.v) instantiated
   with the escape arms REGENERATED from json_tokenizer.rs::read_string
   (Gen/TokGen.v).  Model file: no proofs. *)
From Ink.Data Require Import Types.
From Ink.Json Require Import JsonStd.
From Ink.Json Require Export TokenizerCore.
From Ink.Gen Require Import TokGen.

Definition tok_act : N -> esc_action := esc_action_of tok_escapes tok_unknown tok_unicode.
Definition read_string (st : tok) : ior text * tok := read_string_gen tok_act st.
Definition read_string_text (t : text) : option text := read_string_text_gen tok_act t.
Definition read_obj_key (st : tok) : ior text * tok := read_obj_key_gen tok_act st.
Definition expect_obj_key (expected : text) (st : tok) : ior unit * tok :=
  expect_obj_key_gen tok_act expected st.
Definition read_value (f32_parse : text -> option Z) (st : tok) : ior jvalue * tok :=
  read_value_gen tok_act f32_parse st.

(* a string body the current arms get wrong, when they are not complete *)
Definition tok_witness : text := act_witness tok_act.
