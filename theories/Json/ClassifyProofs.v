(* Json/ClassifyProofs.v — the two classification procedures agree on every
   object whose first key is its only discriminating key (the form both
   compilers emit), and disagree when an attribute key comes first. *)
From Ink.Data Require Import Types PathProofs.
From Ink.Json Require Import Classify.

Lemma tmem_In k keys : tmem k keys = true <-> In k keys.
Proof.
  unfold tmem. rewrite existsb_exists. split.
  - intros (x & Hx & E). apply text_eqb_eq in E. now subst.
  - intros H. exists k. split; [exact H|apply text_eqb_refl].
Qed.

Lemma classification_eq_lemma prio k1 rest :
  tmem k1 prio = true -> (forall k, In k rest -> tmem k prio = false) ->
  std_classify prio (k1 :: rest) = Some k1 /\ stream_classify prio (k1 :: rest) = Some k1.
Proof.
  intros H1 Hrest. split.
  - unfold std_classify.
    assert (Hsame : forall p, In p prio -> tmem p (k1 :: rest) = text_eqb p k1).
    { intros p Hp. unfold tmem. cbn [existsb]. destruct (existsb (text_eqb p) rest) eqn:E; [|apply orb_false_r].
      exfalso. apply existsb_exists in E as (x & Hx & Ex). apply text_eqb_eq in Ex. subst x.
      specialize (Hrest p Hx). apply tmem_In in Hp. congruence. }
    apply tmem_In in H1. clear Hrest. revert Hsame H1.
    induction prio as [|p prio IH]; intros Hsame H1; [contradiction|].
    cbn [find]. rewrite (Hsame p (or_introl eq_refl)).
    destruct (text_eqb p k1) eqn:E.
    + apply text_eqb_eq in E. now subst.
    + apply IH.
      * intros q Hq. apply Hsame. now right.
      * destruct H1 as [->|H1]; [rewrite text_eqb_refl in E; discriminate|exact H1].
  - unfold stream_classify. rewrite H1. reflexivity.
Qed.
