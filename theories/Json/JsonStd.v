(* Json/JsonStd.v — RFC 8259 as an executable specification over [text]
   (lists of Unicode scalar values).  It is the reference both JSON *readers*
   of the runtime (serde_json behind json_read.rs, the hand-written tokenizer
   behind json_read_stream.rs) and the JSON *writer* of the command-line tool
   (rinklecate/src/player.rs) are compared with.  Model file: no proofs.

   What is specified
     unescape      body of a string literal  -> the string it denotes
     lex_string    the same, reading up to the closing quote
     parse_string  a complete string literal  "body"
     parse_json    a complete JSON text (ws value ws), strict
     serde_escape  the body serde_json *prints* for a string
   Deviations of serde_json 1.0 from the RFC grammar that are part of the spec
   because they are observable through json_read.rs:
     * \uD800-\uDBFF must be followed by \uDC00-\uDFFF, a lone surrogate of
       either kind is an error (the RFC grammar allows it; a Rust String
       cannot hold it);
     * nesting deeper than [serde_depth] is an error;
     * the literal "-0" is a *float* (-0.0), every other literal without
       fraction/exponent is an integer (of any magnitude: serde keeps it
       integral iff it fits i64/u64 — see Types.j_as_i64).
   The decimal -> binary32 conversion of non-integer literals is library
   behaviour: Section variable [f32_of_decimal], never an axiom.            *)
From Ink.Data Require Import Types.

(* ---------- characters ---------- *)
Definition c_slash := 47.
Definition c_lbracket := 91.
Definition c_rbracket := 93.
Definition c_lbrace := 123.
Definition c_rbrace := 125.
Definition c_comma := 44.
Definition c_colon := 58.
Definition c_minus := 45.
Definition c_plus := 43.
Definition c_u := 117.

(* RFC 8259 §2: ws = *( %x20 / %x09 / %x0A / %x0D ) *)
Definition is_json_ws (c : N) : bool :=
  N.eqb c 32 || N.eqb c 9 || N.eqb c 10 || N.eqb c 13.

Definition skip_ws (t : text) : text := drop_while is_json_ws t.

Definition quote (body : text) : text := c_quote :: body ++ [c_quote].

(* ---------- string literals (RFC 8259 §7) ---------- *)
Definition hex_val (c : N) : option N :=
  if (48 <=? c) && (c <=? 57) then Some (c - 48)
  else if (65 <=? c) && (c <=? 70) then Some (c - 55)
  else if (97 <=? c) && (c <=? 102) then Some (c - 87)
  else None.

Definition hex4 (a b c d : N) : option N :=
  match hex_val a, hex_val b, hex_val c, hex_val d with
  | Some x, Some y, Some z, Some w => Some (((x * 16 + y) * 16 + z) * 16 + w)
  | _, _, _, _ => None
  end.

Definition is_hi_surrogate (u : N) : bool := (55296 <=? u) && (u <=? 56319).   (* D800..DBFF *)
Definition is_lo_surrogate (u : N) : bool := (56320 <=? u) && (u <=? 57343).   (* DC00..DFFF *)
Definition combine_surrogates (hi lo : N) : N := 65536 + (hi - 55296) * 1024 + (lo - 56320).

(* the two-character escapes: (character after the backslash, character denoted) *)
Definition std_escapes : list (N * N) :=
  [(34, 34); (92, 92); (47, 47); (98, 8); (102, 12); (110, 10); (114, 13); (116, 9)].

Fixpoint lookup_esc (c : N) (l : list (N * N)) : option N :=
  match l with
  | [] => None
  | (k, v) :: r => if N.eqb c k then Some v else lookup_esc c r
  end.

Definition ocons {A} (x : A) (o : option (list A)) : option (list A) :=
  match o with Some l => Some (x :: l) | None => None end.

(* [unescape body]: the string denoted by the characters between the quotes.
   None: [body] is not the body of a string literal. *)
Fixpoint unescape (t : text) : option text :=
  match t with
  | [] => Some []
  | c :: r =>
      if N.eqb c c_bslash then
        match r with
        | [] => None
        | e :: r1 =>
            if N.eqb e c_u then
              match r1 with
              | h1 :: h2 :: h3 :: h4 :: r2 =>
                  match hex4 h1 h2 h3 h4 with
                  | None => None
                  | Some u =>
                      if is_hi_surrogate u then
                        match r2 with
                        | b :: v :: l1 :: l2 :: l3 :: l4 :: r3 =>
                            if N.eqb b c_bslash && N.eqb v c_u then
                              match hex4 l1 l2 l3 l4 with
                              | Some lo =>
                                  if is_lo_surrogate lo
                                  then ocons (combine_surrogates u lo) (unescape r3)
                                  else None
                              | None => None
                              end
                            else None
                        | _ => None
                        end
                      else if is_lo_surrogate u then None
                      else ocons u (unescape r2)
                  end
              | _ => None
              end
            else
              match lookup_esc e std_escapes with
              | Some v => ocons v (unescape r1)
              | None => None
              end
        end
      else if N.eqb c c_quote || (c <? 32) then None
      else ocons c (unescape r)
  end.

(* valid string bodies *)
Definition json_string_body (body : text) : Prop := unescape body <> None.
Definition json_string_bodyb (body : text) : bool :=
  match unescape body with Some _ => true | None => false end.

Definition opair {A} (x : N) (o : option (text * A)) : option (text * A) :=
  match o with Some (l, r) => Some (x :: l, r) | None => None end.

(* [lex_string t]: t is the input just after an opening quote; result is the
   decoded string and the input after the closing quote. *)
Fixpoint lex_string (t : text) : option (text * text) :=
  match t with
  | [] => None
  | c :: r =>
      if N.eqb c c_quote then Some ([], r)
      else if N.eqb c c_bslash then
        match r with
        | [] => None
        | e :: r1 =>
            if N.eqb e c_u then
              match r1 with
              | h1 :: h2 :: h3 :: h4 :: r2 =>
                  match hex4 h1 h2 h3 h4 with
                  | None => None
                  | Some u =>
                      if is_hi_surrogate u then
                        match r2 with
                        | b :: v :: l1 :: l2 :: l3 :: l4 :: r3 =>
                            if N.eqb b c_bslash && N.eqb v c_u then
                              match hex4 l1 l2 l3 l4 with
                              | Some lo =>
                                  if is_lo_surrogate lo
                                  then opair (combine_surrogates u lo) (lex_string r3)
                                  else None
                              | None => None
                              end
                            else None
                        | _ => None
                        end
                      else if is_lo_surrogate u then None
                      else opair u (lex_string r2)
                  end
              | _ => None
              end
            else
              match lookup_esc e std_escapes with
              | Some v => opair v (lex_string r1)
              | None => None
              end
        end
      else if c <? 32 then None
      else opair c (lex_string r)
  end.

(* a complete string literal and nothing else *)
Definition parse_string (t : text) : option text :=
  match t with
  | c :: r =>
      if N.eqb c c_quote then
        match lex_string r with
        | Some (s, []) => Some s
        | _ => None
        end
      else None
  | [] => None
  end.

(* ---------- what serde_json prints for a string ----------
   serde_json::ser::format_escaped_str_contents: only the quote, the backslash and U+0000..U+001F
   are escaped; \b \f \n \r \t have short forms, the rest is \u00XX with
   lower-case hex digits.  Everything else (including U+007F and all non-ASCII
   characters) is written as is. *)
Definition hex_lower (d : N) : N := if d <? 10 then 48 + d else 87 + d.
Definition u00xx (c : N) : text :=
  [c_bslash; c_u; 48; 48; hex_lower (c / 16); hex_lower (c mod 16)].

Definition serde_escape_char (c : N) : text :=
  if N.eqb c 34 then [92; 34]
  else if N.eqb c 92 then [92; 92]
  else if N.eqb c 8 then [92; 98]
  else if N.eqb c 12 then [92; 102]
  else if N.eqb c 10 then [92; 110]
  else if N.eqb c 13 then [92; 114]
  else if N.eqb c 9 then [92; 116]
  else if c <? 32 then u00xx c
  else [c].

Definition serde_escape (s : text) : text := flat_map serde_escape_char s.
Definition serde_string (s : text) : text := quote (serde_escape s).

(* ---------- numbers (RFC 8259 §6) ---------- *)
Fixpoint span_digits (t : text) : text * text :=
  match t with
  | [] => ([], [])
  | c :: r => if is_digit c then let (d, r') := span_digits r in (c :: d, r') else ([], t)
  end.

Definition is_nil {A} (l : list A) : bool := match l with [] => true | _ => false end.

(* lexical structure of a number literal *)
Record numlit := mkNum {
  nl_neg : bool;
  nl_int : text;                (* digits of the integer part, no leading zero unless "0" *)
  nl_frac : option text;        (* digits after '.', non-empty *)
  nl_exp : option (text * text) (* sign (empty, plus or minus), digits (non-empty) *)
}.

Definition lex_frac (t : text) : option (option text * text) :=
  match t with
  | c :: r =>
      if N.eqb c 46 then
        let (d, r') := span_digits r in
        if is_nil d then None else Some (Some d, r')
      else Some (None, t)
  | [] => Some (None, t)
  end.

Definition lex_exp (t : text) : option (option (text * text) * text) :=
  match t with
  | c :: r =>
      if N.eqb c 101 || N.eqb c 69 then
        let (sg, r1) := match r with
                        | s :: r0 => if N.eqb s c_plus || N.eqb s c_minus then ([s], r0) else ([], r)
                        | [] => ([], r)
                        end in
        let (d, r2) := span_digits r1 in
        if is_nil d then None else Some (Some (sg, d), r2)
      else Some (None, t)
  | [] => Some (None, t)
  end.

Definition lex_number (t : text) : option (numlit * text) :=
  let (neg, t1) := match t with
                   | c :: r => if N.eqb c c_minus then (true, r) else (false, t)
                   | [] => (false, t)
                   end in
  let (ds, t2) := span_digits t1 in
  match ds with
  | [] => None
  | d0 :: more =>
      if N.eqb d0 48 && negb (is_nil more) then None      (* leading zero *)
      else
        match lex_frac t2 with
        | None => None
        | Some (fr, t3) =>
            match lex_exp t3 with
            | None => None
            | Some (ex, t4) => Some (mkNum neg ds fr ex, t4)
            end
        end
  end.

Definition numlit_text (n : numlit) : text :=
  (if nl_neg n then [c_minus] else [])
  ++ nl_int n
  ++ match nl_frac n with Some d => 46 :: d | None => [] end
  ++ match nl_exp n with Some (s, d) => 101 :: s ++ d | None => [] end.

Definition numlit_is_int (n : numlit) : bool :=
  match nl_frac n, nl_exp n with None, None => true | _, _ => false end.

(* value of a digit string (all digits by construction of span_digits) *)
Definition digits_to_Z (d : text) : Z :=
  match digits_val d 0 with Some v => Z.of_N v | None => 0%Z end.

Definition f32_neg_zero_bits : Z := 2147483648%Z.

Section WithFloat.
  (* decimal literal (normalised text of the literal, [numlit_text]) -> binary32
     bit pattern; stands for serde_json's decimal->f64 followed by `as f32`.
     None: serde_json rejects the literal (number out of range: it overflows f64,
     e.g. 1e400). *)
  Variable f32_of_decimal : text -> option Z.

  Definition number_value (n : numlit) : option json :=
    if numlit_is_int n then
      let v := digits_to_Z (nl_int n) in
      if nl_neg n then (if Z.eqb v 0 then Some (JFloat f32_neg_zero_bits) else Some (JInt (- v)%Z))
      else Some (JInt v)
    else match f32_of_decimal (numlit_text n) with
         | Some b => Some (JFloat b)
         | None => None
         end.

  (* ---------- values ---------- *)
  Definition serde_depth : nat := 127.

  (* duplicate keys: serde_json keeps the LAST value (at the first position with
     preserve_order, which is how Types.assoc_set behaves) *)
  Fixpoint parse_value (fuel : nat) (depth : nat) (t : text) {struct fuel} : option (json * text) :=
    match fuel with
    | O => None
    | S f =>
        match skip_ws t with
        | [] => None
        | c :: r =>
            if N.eqb c c_quote then
              match lex_string r with
              | Some (s, r') => Some (JStr s, r')
              | None => None
              end
            else if N.eqb c c_lbracket then
              match depth with
              | O => None
              | S d =>
                  match skip_ws r with
                  | c2 :: r2 =>
                      if N.eqb c2 c_rbracket then Some (JArr [], r2)
                      else match parse_elems f d r with
                           | Some (l, r') => Some (JArr l, r')
                           | None => None
                           end
                  | [] => None
                  end
              end
            else if N.eqb c c_lbrace then
              match depth with
              | O => None
              | S d =>
                  match skip_ws r with
                  | c2 :: r2 =>
                      if N.eqb c2 c_rbrace then Some (JObj [], r2)
                      else match parse_members f d r [] with
                           | Some (l, r') => Some (JObj l, r')
                           | None => None
                           end
                  | [] => None
                  end
              end
            else if starts_with (T "true") (c :: r) then Some (JBool true, skipn 4 (c :: r))
            else if starts_with (T "false") (c :: r) then Some (JBool false, skipn 5 (c :: r))
            else if starts_with (T "null") (c :: r) then Some (JNull, skipn 4 (c :: r))
            else
              match lex_number (c :: r) with
              | Some (n, r') =>
                  match number_value n with
                  | Some v => Some (v, r')
                  | None => None
                  end
              | None => None
              end
        end
    end
  with parse_elems (fuel : nat) (depth : nat) (t : text) {struct fuel} : option (list json * text) :=
    match fuel with
    | O => None
    | S f =>
        match parse_value f depth t with
        | None => None
        | Some (v, r) =>
            match skip_ws r with
            | c :: r' =>
                if N.eqb c c_comma then
                  match parse_elems f depth r' with
                  | Some (l, r'') => Some (v :: l, r'')
                  | None => None
                  end
                else if N.eqb c c_rbracket then Some ([v], r')
                else None
            | [] => None
            end
        end
    end
  with parse_members (fuel : nat) (depth : nat) (t : text) (acc : list (text * json)) {struct fuel}
       : option (list (text * json) * text) :=
    match fuel with
    | O => None
    | S f =>
        match skip_ws t with
        | q :: r0 =>
            if N.eqb q c_quote then
              match lex_string r0 with
              | None => None
              | Some (k, r1) =>
                  match skip_ws r1 with
                  | col :: r2 =>
                      if N.eqb col c_colon then
                        match parse_value f depth r2 with
                        | None => None
                        | Some (v, r3) =>
                            let acc' := assoc_set k v acc in
                            match skip_ws r3 with
                            | c :: r4 =>
                                if N.eqb c c_comma then parse_members f depth r4 acc'
                                else if N.eqb c c_rbrace then Some (acc', r4)
                                else None
                            | [] => None
                            end
                        end
                      else None
                  | [] => None
                  end
              end
            else None
        | [] => None
        end
    end.

  (* every recursive call is preceded by the consumption of at least one
     character or follows one directly, so 2*|t|+2 is never exhausted *)
  Definition json_fuel (t : text) : nat := 2 * length t + 2.

  (* JSON-text = ws value ws *)
  Definition parse_json (t : text) : option json :=
    match parse_value (json_fuel t) serde_depth t with
    | Some (j, r) => match skip_ws r with [] => Some j | _ => None end
    | None => None
    end.
End WithFloat.

(* canonical one-line rendering of a json value, used by the correspondence
   checks (same format as harness tokdrive `canon`) *)
Fixpoint show_json (j : json) : text :=
  match j with
  | JNull => T "null"
  | JBool true => T "true"
  | JBool false => T "false"
  | JInt z => T "i" ++ show_Z z
  | JFloat b => T "f" ++ show_Z b
  | JStr s => quote_text s
  | JArr l => T "[" ++ join_with (T ",") (map show_json l) ++ T "]"
  | JObj l => T "{" ++ join_with (T ",")
                 ((fix go (l : list (text * json)) : list text :=
                     match l with
                     | [] => []
                     | (k, v) :: r => (quote_text k ++ T ":" ++ show_json v) :: go r
                     end) l) ++ T "}"
  end.
