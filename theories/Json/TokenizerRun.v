(* Json/TokenizerRun.v — executable entry points of the JSON text layer for the
   correspondence checks (tools/props/c14.py, c20.py).  Same line formats as
   harness/src/bin/tokdrive.rs and the hook json::verif_hooks::tokenize. *)
From Ink.Data Require Import Types.
From Ink.Json Require Import JsonStd Tokenizer.

(* oracle tables supplied by the check (values measured on the implementation) *)
Definition table_lookup (tab : list (text * Z)) (t : text) : option Z := assoc t tab.
Definition table_total (tab : list (text * Z)) (t : text) : Z :=
  match assoc t tab with Some b => b | None => 0%Z end.

Definition show_ioerr (e : ioerr) : text :=
  match e with
  | EofErr => T "err:UnexpectedEof"
  | DataErr => T "err:InvalidData"
  | FuelErr => T "err:MODEL-OUT-OF-FUEL"
  end.

(* {:08x} *)
Definition show_hex8 (b : Z) : text :=
  let h := show_hex (Z.to_N b) in
  repeat 48 (8 - length h) ++ h.

Definition show_number (n : number) : text :=
  match n with NInt z => T "i:" ++ show_Z z | NFloat b => T "f:" ++ show_hex8 b end.

Definition show_jvalue (v : jvalue) : text :=
  match v with
  | JVArray => T "array" | JVObject => T "object"
  | JVString s => T "s:" ++ quote_text s
  | JVNumber n => show_number n
  | JVBoolean true => T "b:true" | JVBoolean false => T "b:false"
  | JVNull => T "null"
  end.

Definition show_res {A} (f : A -> text) (r : ior A) : text :=
  match r with IOk a => f a | IErr e => show_ioerr e end.

Section Run.
  Variable f32tab : list (text * Z).
  Let f32_parse := table_lookup f32tab.

  Definition run_op (op : N) (st : tok) : text * tok :=
    if N.eqb op 115 then let (r, st') := read_string st in (show_res (fun s => T "s:" ++ quote_text s) r, st')
    else if N.eqb op 107 then let (r, st') := read_obj_key st in (show_res (fun s => T "s:" ++ quote_text s) r, st')
    else if N.eqb op 110 then let (r, st') := read_number f32_parse st in (show_res show_number r, st')
    else if N.eqb op 98 then
      let (r, st') := read_boolean st in
      (show_res (fun b : bool => if b then T "b:true" else T "b:false") r, st')
    else if N.eqb op 122 then let (r, st') := read_null st in (show_res (fun _ => T "null") r, st')
    else if N.eqb op 118 then let (r, st') := read_value f32_parse st in (show_res show_jvalue r, st')
    else if N.eqb op 112 then let (r, st') := peek st in (show_res (fun c => T "c:" ++ quote_text [c]) r, st')
    else if N.eqb op 114 then let (r, st') := read st in (show_res (fun c => T "c:" ++ quote_text [c]) r, st')
    else let (r, st') := expect op st in (show_res (fun _ => T "ok") r, st').

  Fixpoint run_ops (ops : text) (st : tok) : list text :=
    match ops with
    | [] => []
    | op :: r => let (o, st') := run_op op st in o :: run_ops r st'
    end.

  (* ["tok", text, ops] *)
  Definition run_tok (t ops : text) : text := join_with [9] (run_ops ops (tok_new t)).
End Run.

(* ["serde", text] with the float oracle as a table *)
Definition run_parse (f32tab : list (text * Z)) (t : text) : text :=
  match parse_json (table_lookup f32tab) t with
  | Some j => show_json j
  | None => T "err"
  end.

(* ["esc", s] *)
Definition run_serde_string (s : text) : text := serde_string s.

(* string-literal comparison used when the hook is not available *)
Definition run_string_literal (t : text) : text :=
  match read_string_text t with Some s => quote_text s | None => T "err" end.
Definition run_unescape (body : text) : text :=
  match unescape body with Some s => quote_text s | None => T "err" end.
