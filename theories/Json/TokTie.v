(* Json/TokTie.v — the one fact about json_tokenizer.rs::read_string that the
   string theorem of C14 needs, checked against the REGENERATED table
   Gen/TokGen.v: the `match c` of read_string decodes every escape of RFC 8259
   section 7 (the eight two-character escapes to the right character, and
   \uXXXX through read_unicode_escape).  If this lemma stops compiling the arms
   are incomplete again; Tokenizer.tok_witness then computes a string literal
   the tokenizer reads wrongly (TokenizerProofs.act_incomplete_witness). *)
From Ink.Json Require Import Tokenizer.
Lemma tok_table_complete : act_complete tok_act = true.
Proof. vm_compute. reflexivity. Qed.
