(* Json/StdLoadDepth.v — recursion depth of the loader model is bounded by the
   nesting depth of the document (C15: load_depth_bounded).

   [jtoken_fuel fuel] is the loader with an explicit budget for nested calls of
   jtoken_to_runtime_object; it agrees with the real model whenever the budget
   exceeds the document's nesting depth.  So a bound on input nesting is the
   only protection against stack exhaustion: serde_json imposes 128 on the std
   loader; stack exhaustion itself is not expressible in the model. *)
From Coq Require Import Lia.
From Ink.Json Require Import StdLoad.
From Ink.Gen Require Import LoadGen.

Fixpoint jdepth (j : json) : nat :=
  match j with
  | JArr l => S (fold_right (fun x m => Nat.max (jdepth x) m) O l)
  | JObj l => S (fold_right (fun kv m => Nat.max (jdepth (snd kv)) m) O l)
  | _ => O
  end.

Section Fuel.
  Variable panics : lsite -> bool.

  Fixpoint jtoken_fuel (fuel : nat) (j : json) (name : option text) : Res obj :=
    match fuel with
    | O => Err InvalidState (T "model: out of fuel")
    | S f =>
        match j with
        | JArr l => jarray_to_container panics (jtoken_fuel f) l name
        | _ => jtoken_to_obj_gen panics j name
        end
    end.

  (* ---------- the array machinery only looks at its elements ---------- *)
  Definition agree_on (r1 r2 : json -> option text -> Res obj) (x : json) : Prop :=
    (forall n, r1 x n = r2 x n)
    /\ match x with
       | JObj kvs => Forall (fun kv => forall n, r1 (snd kv) n = r2 (snd kv) n) kvs
       | _ => True
       end.

  Lemma term_entry_ext r1 r2 st k v :
    (forall n, r1 v n = r2 v n) -> term_entry panics r1 st k v = term_entry panics r2 st k v.
  Proof. intros H. unfold term_entry. now rewrite (H (Some k)). Qed.

  Lemma term_fold_ext r1 r2 kvs :
    Forall (fun kv => forall n, r1 (snd kv) n = r2 (snd kv) n) kvs ->
    forall st, term_fold panics r1 kvs st = term_fold panics r2 kvs st.
  Proof.
    induction 1 as [|[k v] r Hkv Hr IH]; intros st; cbn [term_fold]; [reflexivity|].
    cbn [snd] in Hkv. rewrite (term_entry_ext r1 r2 st k v Hkv).
    destruct (term_entry panics r2 st k v); cbn [bind]; auto.
  Qed.

  Lemma arr_walk_ext r1 r2 l name :
    Forall (agree_on r1 r2) l -> arr_walk panics r1 l name = arr_walk panics r2 l name.
  Proof.
    induction 1 as [|x r Hx Hr IH]; cbn [arr_walk]; [reflexivity|].
    destruct r as [|y r'].
    - destruct Hx as [_ Hx]. destruct x; try reflexivity. cbn [terminator]. f_equal. now apply term_fold_ext.
    - rewrite IH. destruct Hx as [Hx _]. now rewrite (Hx None).
  Qed.

  Lemma jarray_ext r1 r2 l name :
    Forall (agree_on r1 r2) l -> jarray_to_container panics r1 l name = jarray_to_container panics r2 l name.
  Proof. intros H. unfold jarray_to_container. destruct l; [reflexivity|]. now rewrite (arr_walk_ext r1 r2 _ name H). Qed.

  (* ---------- depth facts ---------- *)
  Lemma depth_elem l x : In x l -> (jdepth x <= fold_right (fun x m => Nat.max (jdepth x) m) O l)%nat.
  Proof. induction l as [|y r IH]; cbn; [contradiction|]. intros [->|H]; [lia|]. specialize (IH H). lia. Qed.

  Lemma depth_value (l : list (text * json)) kv :
    In kv l -> (jdepth (snd kv) <= fold_right (fun kv : text * json => fun m => Nat.max (jdepth (snd kv)) m) O l)%nat.
  Proof. induction l as [|y r IH]; cbn; [contradiction|]. intros [->|H]; [lia|]. specialize (IH H). lia. Qed.

  Theorem fuel_enough : forall fuel j name,
    (jdepth j < fuel)%nat -> jtoken_fuel fuel j name = jtoken_to_obj_gen panics j name.
  Proof.
    induction fuel as [|f IH]; intros j name Hd; [lia|].
    cbn [jtoken_fuel]. destruct j as [| | | | |l|o]; try reflexivity.
    change (jtoken_to_obj_gen panics (JArr l) name)
      with (jarray_to_container panics (jtoken_to_obj_gen panics) l name).
    apply jarray_ext. apply Forall_forall. intros x Hx.
    pose proof (depth_elem l x Hx) as Hdx. cbn [jdepth] in Hd.
    split.
    - intros n. apply IH. lia.
    - destruct x as [| | | | | |kvs]; try exact I. apply Forall_forall. intros kv Hkv n.
      pose proof (depth_value kvs kv Hkv) as Hdv. cbn [jdepth] in Hdx. apply IH. lia.
  Qed.
End Fuel.

(* the instance for the source as it is now: a budget of (nesting depth + 1)
   nested calls is always enough, in particular 129 for any document serde accepts *)
Lemma load_depth_bounded_lemma : forall j name,
  jtoken_fuel lsite_panics (S (jdepth j)) j name = jtoken_to_obj j name.
Proof. intros. apply fuel_enough. lia. Qed.

(* and the bound is tight: one level less runs out of budget on a nest of arrays *)
Fixpoint nest (n : nat) : json := match n with O => JArr [JInt 1; JNull] | S k => JArr [nest k; JNull] end.
Example depth_bound_tight :
  jdepth (nest 5) = 6%nat
  /\ jtoken_fuel lsite_panics 6 (nest 5) None <> jtoken_to_obj (nest 5) None
  /\ jtoken_fuel lsite_panics 7 (nest 5) None = jtoken_to_obj (nest 5) None.
Proof. split; [reflexivity|]. split; [vm_compute; discriminate|vm_compute; reflexivity]. Qed.
