(* Json/JsonStdProofs.v — lemmas about the RFC 8259 specification JsonStd.v:
   lex_string agrees with unescape; what a single escape denotes; serde's
   printer round-trips; fuel monotonicity of parse_value. *)
From Ink.Data Require Import Types.
From Ink.Json Require Import JsonStd.
From Coq Require Import Lia.

(* replace closed N.eqb tests by their value *)
Ltac ground_eqb :=
  repeat match goal with
  | |- context [N.eqb ?a ?b] =>
      let v := eval vm_compute in (N.eqb a b) in
      match v with
      | true => change (N.eqb a b) with true
      | false => change (N.eqb a b) with false
      end
  end.
Ltac ground_eqb_in H :=
  repeat match type of H with
  | context [N.eqb ?a ?b] =>
      let v := eval vm_compute in (N.eqb a b) in
      match v with
      | true => change (N.eqb a b) with true in H
      | false => change (N.eqb a b) with false in H
      end
  end.

(* ---------- finite sweeps ---------- *)
Fixpoint N_range (n : nat) : list N :=
  match n with O => [] | S k => N_range k ++ [N.of_nat k] end.

Lemma forallb_range (P : N -> bool) n :
  forallb P (N_range n) = true -> forall c, c < N.of_nat n -> P c = true.
Proof.
  induction n as [|k IH]; intros H c Hc; [lia|].
  cbn [N_range] in H. rewrite forallb_app in H. apply andb_prop in H as [H1 H2].
  cbn [forallb] in H2. rewrite andb_true_r in H2.
  destruct (N.eq_dec c (N.of_nat k)) as [->|Hne]; [exact H2|].
  apply IH; [exact H1|lia].
Qed.

(* ---------- one-step equations of lex_string / unescape ---------- *)
Lemma lex_string_quote r : lex_string (c_quote :: r) = Some ([], r).
Proof. reflexivity. Qed.

Lemma lex_string_plain c r :
  N.eqb c c_quote = false -> N.eqb c c_bslash = false -> (c <? 32) = false ->
  lex_string (c :: r) = opair c (lex_string r).
Proof. intros H1 H2 H3. cbn [lex_string]. rewrite H1, H2, H3. reflexivity. Qed.

Lemma lex_string_simple e r v :
  N.eqb e c_u = false -> lookup_esc e std_escapes = Some v ->
  lex_string (c_bslash :: e :: r) = opair v (lex_string r).
Proof. intros H1 H2. cbn [lex_string]. ground_eqb. cbv iota. rewrite H1, H2. reflexivity. Qed.

Lemma lex_string_u4 h1 h2 h3 h4 r u :
  hex4 h1 h2 h3 h4 = Some u -> is_hi_surrogate u = false -> is_lo_surrogate u = false ->
  lex_string (c_bslash :: c_u :: h1 :: h2 :: h3 :: h4 :: r) = opair u (lex_string r).
Proof. intros H1 H2 H3. cbn [lex_string]. ground_eqb. cbv iota. rewrite H1, H2, H3. reflexivity. Qed.

Lemma lex_string_pair h1 h2 h3 h4 l1 l2 l3 l4 r hi lo :
  hex4 h1 h2 h3 h4 = Some hi -> is_hi_surrogate hi = true ->
  hex4 l1 l2 l3 l4 = Some lo -> is_lo_surrogate lo = true ->
  lex_string (c_bslash :: c_u :: h1 :: h2 :: h3 :: h4 :: c_bslash :: c_u :: l1 :: l2 :: l3 :: l4 :: r)
  = opair (combine_surrogates hi lo) (lex_string r).
Proof.
  intros H1 H2 H3 H4. cbn [lex_string]. ground_eqb. cbv iota. rewrite H1, H2.
  cbn [andb]. rewrite H3, H4. reflexivity.
Qed.

Lemma unescape_plain c r :
  N.eqb c c_quote = false -> N.eqb c c_bslash = false -> (c <? 32) = false ->
  unescape (c :: r) = ocons c (unescape r).
Proof. intros H1 H2 H3. cbn [unescape]. rewrite H1, H2, H3. reflexivity. Qed.

Lemma unescape_simple e r v :
  N.eqb e c_u = false -> lookup_esc e std_escapes = Some v ->
  unescape (c_bslash :: e :: r) = ocons v (unescape r).
Proof. intros H1 H2. cbn [unescape]. ground_eqb. cbv iota. rewrite H1, H2. reflexivity. Qed.

Lemma unescape_u4 h1 h2 h3 h4 r u :
  hex4 h1 h2 h3 h4 = Some u -> is_hi_surrogate u = false -> is_lo_surrogate u = false ->
  unescape (c_bslash :: c_u :: h1 :: h2 :: h3 :: h4 :: r) = ocons u (unescape r).
Proof. intros H1 H2 H3. cbn [unescape]. ground_eqb. cbv iota. rewrite H1, H2, H3. reflexivity. Qed.

Lemma unescape_pair h1 h2 h3 h4 l1 l2 l3 l4 r hi lo :
  hex4 h1 h2 h3 h4 = Some hi -> is_hi_surrogate hi = true ->
  hex4 l1 l2 l3 l4 = Some lo -> is_lo_surrogate lo = true ->
  unescape (c_bslash :: c_u :: h1 :: h2 :: h3 :: h4 :: c_bslash :: c_u :: l1 :: l2 :: l3 :: l4 :: r)
  = ocons (combine_surrogates hi lo) (unescape r).
Proof.
  intros H1 H2 H3 H4. cbn [unescape]. ground_eqb. cbv iota. rewrite H1, H2.
  cbn [andb]. rewrite H3, H4. reflexivity.
Qed.

(* ---------- the shapes of a valid body (inversion of unescape) ---------- *)
Inductive body_step : text -> N -> text -> Prop :=
| BsPlain c r : N.eqb c c_quote = false -> N.eqb c c_bslash = false -> (c <? 32) = false ->
    body_step (c :: r) c r
| BsSimple e r v : N.eqb e c_u = false -> lookup_esc e std_escapes = Some v ->
    body_step (c_bslash :: e :: r) v r
| BsU4 h1 h2 h3 h4 r u :
    hex4 h1 h2 h3 h4 = Some u -> is_hi_surrogate u = false -> is_lo_surrogate u = false ->
    body_step (c_bslash :: c_u :: h1 :: h2 :: h3 :: h4 :: r) u r
| BsPair h1 h2 h3 h4 l1 l2 l3 l4 r hi lo :
    hex4 h1 h2 h3 h4 = Some hi -> is_hi_surrogate hi = true ->
    hex4 l1 l2 l3 l4 = Some lo -> is_lo_surrogate lo = true ->
    body_step (c_bslash :: c_u :: h1 :: h2 :: h3 :: h4 :: c_bslash :: c_u :: l1 :: l2 :: l3 :: l4 :: r)
              (combine_surrogates hi lo) r.

Lemma body_step_shorter t v r : body_step t v r -> (length r < length t)%nat.
Proof. intros H; destruct H; cbn [length]; lia. Qed.

Lemma body_step_unescape t v r : body_step t v r -> unescape t = ocons v (unescape r).
Proof.
  intros H; destruct H.
  - now apply unescape_plain.
  - now apply unescape_simple.
  - now apply unescape_u4.
  - now apply unescape_pair.
Qed.

Lemma body_step_lex t v r rest : body_step t v r ->
  lex_string (t ++ rest) = opair v (lex_string (r ++ rest)).
Proof.
  intros H; destruct H; cbn [app].
  - now apply lex_string_plain.
  - now apply lex_string_simple.
  - now apply lex_string_u4.
  - now apply lex_string_pair.
Qed.

Lemma ocons_some {A} (x : A) o s : ocons x o = Some s -> exists s', o = Some s' /\ s = x :: s'.
Proof. destruct o as [l|]; cbn [ocons]; intros H; [injection H as <-; eauto|discriminate]. Qed.

(* every non-empty valid body starts with exactly one of the four shapes *)
Lemma unescape_inv t s : t <> [] -> unescape t = Some s ->
  exists v r, body_step t v r /\ unescape t = ocons v (unescape r).
Proof.
  intros Hne H. destruct t as [|c r]; [congruence|]. clear Hne.
  pose proof H as H0. cbn [unescape] in H.
  destruct (N.eqb c c_bslash) eqn:Hb.
  - apply N.eqb_eq in Hb. subst c.
    destruct r as [|e r1]; [discriminate|].
    destruct (N.eqb e c_u) eqn:He.
    + apply N.eqb_eq in He. subst e.
      destruct r1 as [|h1 [|h2 [|h3 [|h4 r2]]]]; try discriminate.
      destruct (hex4 h1 h2 h3 h4) as [u|] eqn:Hh; [|discriminate].
      destruct (is_hi_surrogate u) eqn:Hhi.
      * destruct r2 as [|b [|v [|l1 [|l2 [|l3 [|l4 r3]]]]]]; try discriminate.
        destruct (N.eqb b c_bslash && N.eqb v c_u) eqn:Hbv; [|discriminate].
        apply andb_prop in Hbv as [Hb1 Hv1]. apply N.eqb_eq in Hb1, Hv1. subst b v.
        destruct (hex4 l1 l2 l3 l4) as [lo|] eqn:Hl; [|discriminate].
        destruct (is_lo_surrogate lo) eqn:Hlo; [|discriminate].
        eexists _, _. split; [eapply BsPair; eassumption|].
        now apply unescape_pair.
      * destruct (is_lo_surrogate u) eqn:Hlo; [discriminate|].
        eexists _, _. split; [eapply BsU4; eassumption|]. now apply unescape_u4.
    + destruct (lookup_esc e std_escapes) as [v|] eqn:Hl; [|discriminate].
      eexists _, _. split; [eapply BsSimple; eassumption|]. now apply unescape_simple.
  - destruct (N.eqb c c_quote || (c <? 32)) eqn:Hq; [discriminate|].
    apply orb_false_iff in Hq as [Hq1 Hq2].
    eexists _, _. split; [eapply BsPlain; eassumption|]. now apply unescape_plain.
Qed.

(* induction principle for valid bodies *)
Lemma body_ind (P : text -> text -> Prop) :
  P [] [] ->
  (forall t v r s, body_step t v r -> unescape r = Some s -> P r s -> P t (v :: s)) ->
  forall t s, unescape t = Some s -> P t s.
Proof.
  intros Hnil Hstep t.
  remember (length t) as n eqn:Hn. revert t Hn.
  induction n as [n IH] using lt_wf_ind. intros t Hn s H.
  destruct t as [|c r0] eqn:Et.
  - cbn [unescape] in H. injection H as <-. exact Hnil.
  - rewrite <- Et in *. assert (Hne : t <> []) by (rewrite Et; discriminate).
    destruct (unescape_inv t s Hne H) as (v & r & Hbs & Heq).
    rewrite Heq in H. apply ocons_some in H as (s' & Hr & ->).
    eapply Hstep; [exact Hbs|exact Hr|].
    eapply IH; [|reflexivity|exact Hr].
    rewrite Hn. now apply body_step_shorter with (v := v).
Qed.

(* ---------- lex_string reads exactly the body ---------- *)
Lemma lex_string_unescape body s rest :
  unescape body = Some s -> lex_string (body ++ c_quote :: rest) = Some (s, rest).
Proof.
  intros H. revert body s H.
  apply (body_ind (fun body s => lex_string (body ++ c_quote :: rest) = Some (s, rest))).
  - reflexivity.
  - intros t v r s Hbs _ IH. rewrite (body_step_lex _ _ _ _ Hbs), IH. reflexivity.
Qed.

Lemma parse_string_quote body s : unescape body = Some s -> parse_string (quote body) = Some s.
Proof.
  intros H. unfold parse_string, quote. ground_eqb. cbv iota.
  rewrite (lex_string_unescape _ _ [] H). reflexivity.
Qed.

(* ---------- what one printed escape denotes ---------- *)
Definition esc_denotes (out : text) (c : N) : bool :=
  match out with
  | [x] => N.eqb x c && negb (N.eqb c c_quote) && negb (N.eqb c c_bslash) && negb (c <? 32)
  | [b; e] =>
      N.eqb b c_bslash && negb (N.eqb e c_u)
      && match lookup_esc e std_escapes with Some v => N.eqb v c | None => false end
  | [b; u; h1; h2; h3; h4] =>
      N.eqb b c_bslash && N.eqb u c_u
      && match hex4 h1 h2 h3 h4 with
         | Some v => N.eqb v c && negb (is_hi_surrogate v) && negb (is_lo_surrogate v)
         | None => false
         end
  | _ => false
  end.

Lemma esc_denotes_step out c : esc_denotes out c = true -> forall r, body_step (out ++ r) c r.
Proof.
  intros H r.
  destruct out as [|a [|b [|x1 [|x2 [|x3 [|x4 [|x5 o]]]]]]]; cbn [esc_denotes] in H; try discriminate.
  - repeat (apply andb_prop in H as [H ?]). apply N.eqb_eq in H. subst a.
    cbn [app]. apply BsPlain; now apply negb_true_iff.
  - repeat (apply andb_prop in H as [H ?]). apply N.eqb_eq in H. subst a.
    destruct (lookup_esc b std_escapes) as [v|] eqn:Hl; [|discriminate].
    match goal with Hv : N.eqb v c = true |- _ => apply N.eqb_eq in Hv; subst v end.
    cbn [app]. apply BsSimple; [now apply negb_true_iff|exact Hl].
  - apply andb_prop in H as [H Hh]. apply andb_prop in H as [Ha Hb].
    apply N.eqb_eq in Ha, Hb. subst a b.
    destruct (hex4 x1 x2 x3 x4) as [v|] eqn:Hx; [|discriminate].
    apply andb_prop in Hh as [Hh Hlo]. apply andb_prop in Hh as [Hv Hhi].
    apply N.eqb_eq in Hv. subst v.
    cbn [app]. apply BsU4; [exact Hx|now apply negb_true_iff|now apply negb_true_iff].
Qed.

Lemma esc_denotes_lex out c rest : esc_denotes out c = true ->
  lex_string (out ++ rest) = opair c (lex_string rest).
Proof.
  intros H. pose proof (esc_denotes_step _ _ H []) as Hs. rewrite app_nil_r in Hs.
  pose proof (body_step_lex _ _ _ rest Hs) as E. cbn [app] in E. exact E.
Qed.

Lemma esc_denotes_unescape out c rest : esc_denotes out c = true ->
  unescape (out ++ rest) = ocons c (unescape rest).
Proof. intros H. apply body_step_unescape. now apply esc_denotes_step. Qed.

(* a printer that writes, for every character, something that denotes it,
   round-trips through the reader *)
Lemma printer_roundtrip (pr : N -> text) :
  (forall c, esc_denotes (pr c) c = true) ->
  forall s, unescape (flat_map pr s) = Some s.
Proof.
  intros Hpr s. induction s as [|c s IH]; [reflexivity|].
  cbn [flat_map]. rewrite (esc_denotes_unescape _ _ _ (Hpr c)), IH. reflexivity.
Qed.

(* ---------- serde_json's printer ---------- *)
Lemma serde_escape_char_low :
  forallb (fun c => esc_denotes (serde_escape_char c) c) (N_range 128) = true.
Proof. vm_compute. reflexivity. Qed.

Lemma serde_escape_char_denotes c : esc_denotes (serde_escape_char c) c = true.
Proof.
  destruct (N.ltb_spec c 128) as [Hlt|Hge].
  - exact (forallb_range _ 128 serde_escape_char_low c Hlt).
  - unfold serde_escape_char.
    repeat match goal with
    | |- context [N.eqb c ?k] =>
        let E := fresh "E" in
        destruct (N.eqb_spec c k) as [E|E]; [exfalso; revert E Hge; clear; intros; subst; lia|]
    end.
    destruct (N.ltb_spec c 32) as [Hc|Hc]; [lia|].
    cbn [esc_denotes]. rewrite N.eqb_refl.
    destruct (N.eqb_spec c c_quote) as [Eq|Eq]; [unfold c_quote in Eq; lia|].
    destruct (N.eqb_spec c c_bslash) as [Eb|Eb]; [unfold c_bslash in Eb; lia|].
    destruct (N.ltb_spec c 32); [lia|]. reflexivity.
Qed.

Lemma unescape_serde_escape s : unescape (serde_escape s) = Some s.
Proof. exact (printer_roundtrip _ serde_escape_char_denotes s). Qed.

Lemma parse_string_serde_string s : parse_string (serde_string s) = Some s.
Proof. apply parse_string_quote, unescape_serde_escape. Qed.

Lemma json_string_body_serde s : json_string_body (serde_escape s).
Proof. unfold json_string_body. rewrite unescape_serde_escape. discriminate. Qed.

(* ---------- one-step equations of the mutually recursive parser ---------- *)
Section ParserEquations.
  Variable f : text -> option Z.

  Lemma parse_value_eq fu depth t :
    parse_value f (S fu) depth t =
    match skip_ws t with
    | [] => None
    | c :: r =>
        if N.eqb c c_quote then
          match lex_string r with Some (s, r') => Some (JStr s, r') | None => None end
        else if N.eqb c c_lbracket then
          match depth with
          | O => None
          | S d =>
              match skip_ws r with
              | c2 :: r2 =>
                  if N.eqb c2 c_rbracket then Some (JArr [], r2)
                  else match parse_elems f fu d r with
                       | Some (l, r') => Some (JArr l, r')
                       | None => None
                       end
              | [] => None
              end
          end
        else if N.eqb c c_lbrace then
          match depth with
          | O => None
          | S d =>
              match skip_ws r with
              | c2 :: r2 =>
                  if N.eqb c2 c_rbrace then Some (JObj [], r2)
                  else match parse_members f fu d r [] with
                       | Some (l, r') => Some (JObj l, r')
                       | None => None
                       end
              | [] => None
              end
          end
        else if starts_with (T "true") (c :: r) then Some (JBool true, skipn 4 (c :: r))
        else if starts_with (T "false") (c :: r) then Some (JBool false, skipn 5 (c :: r))
        else if starts_with (T "null") (c :: r) then Some (JNull, skipn 4 (c :: r))
        else
          match lex_number (c :: r) with
          | Some (n, r') =>
              match number_value f n with Some v => Some (v, r') | None => None end
          | None => None
          end
    end.
  Proof. reflexivity. Qed.

  Lemma parse_elems_eq fu depth t :
    parse_elems f (S fu) depth t =
    match parse_value f fu depth t with
    | None => None
    | Some (v, r) =>
        match skip_ws r with
        | c :: r' =>
            if N.eqb c c_comma then
              match parse_elems f fu depth r' with
              | Some (l, r'') => Some (v :: l, r'')
              | None => None
              end
            else if N.eqb c c_rbracket then Some ([v], r')
            else None
        | [] => None
        end
    end.
  Proof. reflexivity. Qed.

  Lemma parse_members_eq fu depth t acc :
    parse_members f (S fu) depth t acc =
    match skip_ws t with
    | q :: r0 =>
        if N.eqb q c_quote then
          match lex_string r0 with
          | None => None
          | Some (k, r1) =>
              match skip_ws r1 with
              | col :: r2 =>
                  if N.eqb col c_colon then
                    match parse_value f fu depth r2 with
                    | None => None
                    | Some (v, r3) =>
                        let acc' := assoc_set k v acc in
                        match skip_ws r3 with
                        | c :: r4 =>
                            if N.eqb c c_comma then parse_members f fu depth r4 acc'
                            else if N.eqb c c_rbrace then Some (acc', r4)
                            else None
                        | [] => None
                        end
                    end
                  else None
              | [] => None
              end
          end
        else None
    | [] => None
    end.
  Proof. reflexivity. Qed.
End ParserEquations.
