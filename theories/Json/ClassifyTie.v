(* Json/ClassifyTie.v — checked against the REGENERATED key-test sequences of
   json_read.rs and json_read_stream.rs (Gen/ClassifyGen.v): attribute look-ups
   aside, both loaders test the same discriminating keys in the same order. *)
From Ink.Data Require Import Types.
From Ink.Json Require Import Classify.
From Ink.Gen Require Import ClassifyGen.

Definition std_priority : list text := discriminators std_get_keys.
Definition stream_priority : list text := discriminators stream_prop_keys.

Lemma classify_same_priority : std_priority = stream_priority.
Proof. vm_compute. reflexivity. Qed.
