(* Json/StdLoad.v — model of runtime/src/json/json_read.rs (the serde_json based
   story loader) and of Container::new (container.rs).  Model file: no proofs.

   The document is a [json] term = the serde_json::Value the Rust code sees
   (objects in serde's iteration order, duplicate keys already merged).

   Panic sites.  Every `unwrap()`, `[len-1]`, `try_into().unwrap()`,
   `chars().next().unwrap()` reachable from the document is the outcome
   [site s None]: `Panic (lsite_name s)` when the REGENERATED table
   Gen/LoadGen.v says the panicking form is still in the source
   ([panics s = true]) and `Err BadJson` when it has been repaired.  All
   functions are parametrised by the table ([Section Load], variable [panics]);
   the exported instances at the end of the file use the generated table.

   Exported: load_story : json -> Res story,  jtoken_to_obj : json -> option text -> Res obj,
   jarray_to_obj_list, jobject_to_choice, jtoken_to_list_definitions,
   jobject_to_hashmap_values, jobject_to_int_hashmap.                         *)
From Ink.Data Require Export Types Path.
From Ink.Gen Require Import PathGen LoadGen.

(* Path::new_with_components_string with the regenerated cache switch *)
Definition path_parse (o : option text) : path := path_of_string_gen cache_input o.

(* ---------- numbers ---------- *)
(* i64 -> i32 `try_into()` *)
Definition i64_to_i32 (z : Z) : option Z := if in_i32 z then Some z else None.

(* `token.as_f64().unwrap() as f32` for an integer token that does not fit i64
   (serde keeps u64 values as integers; larger literals arrive as JFloat from
   the translator, the function is total on them anyway): round to nearest-even
   to 53 bits (u64 -> f64), then to 24 bits (f64 -> f32).
   LOCAL HELPER — to be replaced by Base/F32.v once that file is stable. *)
Definition round_ne_bits (prec m : Z) : Z :=
  (if m <=? 0 then 0 else
   let e := Z.log2 m + 1 - prec in
   if e <=? 0 then m else
   let q := Z.shiftr m e in
   let r := m - Z.shiftl q e in
   let half := Z.shiftl 1 (e - 1) in
   let q' := if (half <? r) || ((r =? half) && Z.odd q) then q + 1 else q in
   Z.shiftl q' e)%Z.

Definition f32_bits_of_pos (m : Z) : Z :=
  (let v := round_ne_bits 24 (round_ne_bits 53 m) in
   if v <=? 0 then 0 else
   let n := Z.log2 v in
   if 128 <=? n then 2139095040          (* +inf *)
   else let mant := (if 23 <=? n then Z.shiftr v (n - 23) else Z.shiftl v (23 - n)) - 8388608 in
        (n + 127) * 8388608 + mant)%Z.

Definition f32_bits_of_Z (z : Z) : Z :=
  (if z <? 0 then 2147483648 + f32_bits_of_pos (- z) else f32_bits_of_pos z)%Z.

(* ---------- name tables (MARKED FOR REPLACEMENT by Data/Native.v) ---------- *)
Fixpoint lookup_name {A} (tbl : list (string * A)) (s : text) : option A :=
  match tbl with
  | [] => None
  | (n, a) :: r => if text_eqb s (T n) then Some a else lookup_name r s
  end.
Definition cmd_of_name (s : text) : option cmd := lookup_name cmd_names s.
Definition nop_of_name (s : text) : option nop := lookup_name nop_names s.

(* ---------- list items ---------- *)
(* InkListItem::from_full_name: split('.'), origin = first part if there are
   several, item = last part *)
Definition item_of_full_name (k : text) : listitem :=
  let parts := split_on c_dot k in
  mkItem (match parts with a :: _ :: _ => Some a | _ => None end) (last parts []).

Definition opt_text_eqb (a b : option text) : bool :=
  match a, b with
  | Some x, Some y => text_eqb x y
  | None, None => true
  | _, _ => false
  end.
Definition item_eqb (a b : listitem) : bool :=
  opt_text_eqb (it_origin a) (it_origin b) && text_eqb (it_name a) (it_name b).

(* HashMap<InkListItem,i32>::insert *)
Fixpoint items_insert (it : listitem) (v : Z) (l : list (listitem * Z)) : list (listitem * Z) :=
  match l with
  | [] => [(it, v)]
  | (it', v') :: r => if item_eqb it it' then (it, v) :: r else (it', v') :: items_insert it v r
  end.

(* ---------- Container::new ---------- *)
(* terminator state of jarray_to_container *)
Record tstate := mkT { t_flags : Z; t_name : option text; t_named : list (text * container) }.

(* count flags: (value & 1) > 0, (value & 2) > 0, (value & 4) > 0 on an i32 *)
Definition mk_container (name : option text) (flags : Z) (content : list obj)
           (named_only : list (text * container)) : container :=
  Cont name (Z.testbit flags 0) (Z.testbit flags 1) (Z.testbit flags 2) content named_only.

Definition tstate0 (name : option text) : tstate := mkT 0 name [].

(* Map::get with a literal key *)
Definition aget (o : list (text * json)) (k : string) : option json := assoc (T k) o.

Section Load.
Variable panics : lsite -> bool.

Definition bad {A} (msg : string) : Res A := Err BadJson (T msg).

(* a modelled unwrap site *)
Definition site {A} (s : lsite) (o : option A) : Res A :=
  match o with
  | Some a => Ok a
  | None => if panics s then Panic (T (lsite_name s)) else Err BadJson (T (lsite_name s))
  end.

(* ---------- strings (jtoken_to_runtime_object, String arm) ---------- *)
Definition jstr_to_obj (s : text) : Res obj :=
  match s with
  | [] => site L_str_first_char None                  (* chars().next().unwrap() *)
  | c :: r =>
      if c =? c_caret then Ok (OVal (VString r))      (* &str[1..] *)
      else if (c =? c_nl) && (utf8_len s =? 1) then Ok (OVal (VString [c_nl]))
      else if text_eqb s (T "<>") then Ok OGlue
      else match cmd_of_name s with
           | Some k => Ok (OCmd k)
           | None =>
               let call := if text_eqb s (T "L^") then T "^" else s in
               match nop_of_name call with
               | Some n => Ok (ONative n)
               | None => if text_eqb s (T "void") then Ok OVoid
                         else bad "Failed to convert token to runtime RTObject"
               end
           end
  end.

(* ---------- saved choices (jobject_to_choice_gen, jarray_to_tags_gen) ---------- *)
Definition jarray_to_tags_gen (o : list (text * json)) : Res (list text) :=
  match assoc (T "tags") o with
  | None => Ok []
  | Some pv =>
      do arr <- site L_tags_arr (j_as_arr pv);
      mapM (fun t => site L_tag_str (j_as_str t)) arr
  end.

Definition jobject_to_choice_gen (o : list (text * json)) : Res obj :=
  do tj <- site L_choice_text_get (aget o "text");
  do text_ <- site L_choice_text_str (j_as_str tj);
  do ij <- site L_choice_index_get (aget o "index");
  do index <- site L_choice_index_u64 (j_as_u64 ij);
  do sj <- site L_choice_ocp_get (aget o "originalChoicePath");
  do source <- site L_choice_ocp_str (j_as_str sj);
  do oj <- site L_choice_oti_get (aget o "originalThreadIndex");
  do oti <- site L_choice_oti_i64 (j_as_i64 oj);
  do pj <- site L_choice_tp_get (aget o "targetPath");
  do target <- site L_choice_tp_str (j_as_str pj);
  do tags <- jarray_to_tags_gen o;
  Ok (OChoice (mkSavedChoice text_ index source (to_u64 oti) (path_parse (Some target)) tags)).

(* ---------- objects (jtoken_to_runtime_object, Object arm) ---------- *)
(* keys are tried in exactly the order of the Rust code *)
Definition jlist_to_obj (o : list (text * json)) (pv : json) : Res obj :=
  do content <- site L_list_obj (j_as_obj pv);
  do names <- match assoc (T "origins") o with
              | None => Ok []
              | Some oj =>
                  do arr <- site L_list_origins_arr (j_as_arr oj);
                  mapM (fun e => site L_list_origin_str (j_as_str e)) arr
              end;
  do items <- foldM (fun acc kv =>
                       do z <- site L_list_item_val (j_as_i64 (snd kv));
                       Ok (items_insert (item_of_full_name (fst kv)) (wrap32 z) acc))
                    content [];
  Ok (OVal (VList (mkList items [] names))).

Definition jdivert_to_obj (o : list (text * json)) (v : json)
           (pushes : bool) (ty : pushpop) (ext : bool) : Res obj :=
  do target <- site L_divert_target (j_as_str v);
  let isvar := assoc_mem (T "var") o in
  let cond := assoc_mem (T "c") o in
  do exargs <- (if ext then
                  match assoc (T "exArgs") o with
                  | Some a => do z <- site L_divert_exargs (j_as_i64 a); Ok (to_u64 z)   (* as usize *)
                  | None => Ok 0%Z
                  end
                else Ok 0%Z);
  Ok (ODivert (mkDivert (if isvar then None else Some (path_parse (Some target)))
                        (if isvar then Some target else None)
                        pushes ty ext exargs cond)).

Definition jobj_to_obj (o : list (text * json)) : Res obj :=
  match aget o "^->" with
  | Some v => Ok (OVal (VDivert (path_parse (j_as_str v))))
  | None =>
  match aget o "^var" with
  | Some v =>
      do name <- site L_varptr_name (j_as_str v);
      do ci <- match aget o "ci" with
               | Some c => do z <- site L_varptr_ci (j_as_i64 c); Ok (wrap32 z)
               | None => Ok (-1)%Z
               end;
      Ok (OVal (VVarPtr name ci))
  | None =>
  match aget o "->" with
  | Some v => jdivert_to_obj o v false PFunction false
  | None =>
  match aget o "f()" with
  | Some v => jdivert_to_obj o v true PFunction false
  | None =>
  match aget o "->t->" with
  | Some v => jdivert_to_obj o v true PTunnel false
  | None =>
  match aget o "x()" with
  | Some v => jdivert_to_obj o v false PFunction true
  | None =>
  match aget o "*" with
  | Some cp =>
      do ps <- site L_choice_path (j_as_str cp);
      do flags <- match aget o "flg" with
                  | Some f => site L_choice_flg (j_as_u64 f)
                  | None => Ok 0%Z
                  end;
      Ok (OChoicePoint (wrap32 flags) (path_parse (Some ps)))        (* flags as i32 *)
  | None =>
  match aget o "VAR?" with
  | Some n => do name <- site L_varref_name (j_as_str n); Ok (OVarRef name)
  | None =>
  match aget o "CNT?" with
  | Some v => do p <- site L_readcount_path (j_as_str v); Ok (OReadCount (path_parse (Some p)))
  | None =>
  let va := match aget o "VAR=" with
            | Some v => Some (v, true)
            | None => match aget o "temp=" with Some v => Some (v, false) | None => None end
            end in
  match va with
  | Some (v, is_global) =>
      do name <- site L_varass_name (j_as_str v);
      Ok (OVarAss name (negb (assoc_mem (T "re") o)) is_global)
  | None =>
  match aget o "#" with
  | Some v => do t <- site L_tag_text (j_as_str v); Ok (OTag t)
  | None =>
  match aget o "list" with
  | Some pv => jlist_to_obj o pv
  | None =>
  match aget o "originalChoicePath" with
  | Some _ => jobject_to_choice_gen o
  | None => bad "Failed to convert token to runtime RTObject"
  end end end end end end end end end end end end end.

(* ---------- arrays (jarray_to_container + jarray_to_runtime_obj_list) ---------- *)
Section Arr.
  (* the recursive call jtoken_to_runtime_object *)
  Variable rec : json -> option text -> Res obj.

  (* one entry of the terminating object *)
  Definition term_entry (st : tstate) (k : text) (v : json) : Res tstate :=
    if text_eqb k (T "#f") then
      do z <- site L_cont_flags_i64 (j_as_i64 v);
      do f <- site L_cont_flags_i32 (i64_to_i32 z);
      Ok (mkT f (t_name st) (t_named st))
    else if text_eqb k (T "#n") then
      do n <- site L_cont_name (j_as_str v);
      Ok (mkT (t_flags st) (Some n) (t_named st))
    else
      (* jtoken_to_runtime_object(v, Some(k)).unwrap(): an Err becomes a panic *)
      do o <- match rec v (Some k) with
              | Ok o => Ok o
              | Err e m => if panics L_named_item_err then Panic (T (lsite_name L_named_item_err))
                           else Err e m
              | Panic s => Panic s
              end;
      do c <- site L_named_item_cont (match o with OCont c => Some c | _ => None end);
      Ok (mkT (t_flags st) (t_name st) (assoc_set k c (t_named st))).

  Fixpoint term_fold (kvs : list (text * json)) (st : tstate) : Res tstate :=
    match kvs with
    | [] => Ok st
    | (k, v) :: r => do st' <- term_entry st k v; term_fold r st'
    end.

  (* jarray[len-1].as_object(): only an object contributes *)
  Definition terminator (x : json) (name : option text) : Res tstate :=
    match x with
    | JObj kvs => term_fold kvs (tstate0 name)
    | _ => Ok (tstate0 name)
    end.

  (* walks a NON-EMPTY array once: (terminator result of the last element,
     runtime objects of all the others = jarray_to_runtime_obj_list(_, true)) *)
  Fixpoint arr_walk (l : list json) (name : option text) : Res tstate * Res (list obj) :=
    match l with
    | [] => (Ok (tstate0 name), Ok [])
    | x :: r =>
        match r with
        | [] => (terminator x name, Ok [])
        | _ :: _ =>
            let tc := arr_walk r name in
            (fst tc, do o <- rec x None; do os <- snd tc; Ok (o :: os))
        end
    end.

  Definition jarray_to_container (l : list json) (name : option text) : Res obj :=
    match l with
    | [] => site L_arr_last None                    (* jarray[jarray.len() - 1] *)
    | _ :: _ =>
        let tc := arr_walk l name in
        do st <- fst tc;                             (* terminator first, unwraps and all *)
        do content <- snd tc;                        (* then the content, with `?` *)
        Ok (OCont (mk_container (t_name st) (t_flags st) content (t_named st)))
    end.
End Arr.

Fixpoint jtoken_to_obj_gen (j : json) (name : option text) {struct j} : Res obj :=
  match j with
  | JNull => bad "Failed to convert token to runtime RTObject"
  | JBool b => Ok (OVal (VBool b))
  | JInt z =>
      match j_as_i64 j with                           (* token.is_i64() *)
      | Some z' => do v <- site L_int_i32 (i64_to_i32 z'); Ok (OVal (VInt v))
      | None => Ok (OVal (VFloat (f32_bits_of_Z z)))
      end
  | JFloat b => Ok (OVal (VFloat b))
  | JStr s => jstr_to_obj s
  | JArr l => jarray_to_container jtoken_to_obj_gen l name
  | JObj o => jobj_to_obj o
  end.

(* pub fn jarray_to_runtime_obj_list(jarray, skip_last) *)
Definition jarray_to_obj_list_gen (l : list json) (skip_last : bool) : Res (list obj) :=
  if skip_last then
    match l with
    | [] => site L_objlist_skip_last None           (* count -= 1 on usize 0 *)
    | _ => mapM (fun j => jtoken_to_obj_gen j None) (removelast l)
    end
  else mapM (fun j => jtoken_to_obj_gen j None) l.

(* ---------- list definitions ---------- *)
Definition jtoken_to_list_definitions_gen (def : json) : Res listdefs :=
  do o <- site L_listdefs_obj (j_as_obj def);
  mapM (fun nd : text * json =>
          do items <- site L_listdef_obj (j_as_obj (snd nd));
          do its <- foldM (fun acc kv =>
                             do z <- site L_listdef_val (j_as_u64 (snd kv));
                             Ok (assoc_set (fst kv) (wrap32 z) acc))       (* as i32 *)
                          items [];
          Ok (fst nd, its)) o.

(* ---------- helpers used by the save-state loader ---------- *)
Definition jobject_to_hashmap_values_gen (o : list (text * json)) : Res (list (text * value)) :=
  foldM (fun acc kv =>
           do ob <- jtoken_to_obj_gen (snd kv) None;
           do v <- site L_hashmap_value (match ob with OVal v => Some v | _ => None end);
           Ok (assoc_set (fst kv) v acc)) o [].

Definition jobject_to_int_hashmap_gen (o : list (text * json)) : Res (list (text * Z)) :=
  foldM (fun acc kv =>
           do z <- site L_int_hashmap_val (j_as_i64 (snd kv));
           Ok (assoc_set (fst kv) (wrap32 z) acc)) o [].

(* ---------- load_from_string, after serde_json::from_str ---------- *)
Definition load_story_gen (j : json) : Res story :=
  match jget "inkVersion" j with
  | None => bad "ink version number not found"
  | Some vj =>
      if negb (j_is_number vj) then bad "ink version number not found"
      else
        do v64 <- site L_ver_as_i64 (j_as_i64 vj);
        do version <- site L_ver_i32 (i64_to_i32 v64);
        if (ink_version_current <? version)%Z then bad "story version newer than engine"
        else if (version <? ink_version_min)%Z then bad "story version too old"
        else
          match jget "root" j with
          | None => bad "Root node for ink not found"
          | Some root_token =>
              match jget "listDefs" j with
              | None => bad "List Definitions node for ink not found"
              | Some def =>
                  do defs <- jtoken_to_list_definitions_gen def;
                  do root <- jtoken_to_obj_gen root_token None;
                  match root with
                  | OCont c => Ok (mkStory version c defs)
                  | _ => bad "Root node for ink is not a container?"
                  end
              end
          end
  end.

End Load.

(* ---------- the instances for the source as it is now ---------- *)
Definition jtoken_to_obj : json -> option text -> Res obj := jtoken_to_obj_gen lsite_panics.
Definition jarray_to_obj_list : list json -> bool -> Res (list obj) := jarray_to_obj_list_gen lsite_panics.
Definition jobject_to_choice : list (text * json) -> Res obj := jobject_to_choice_gen lsite_panics.
Definition jtoken_to_list_definitions : json -> Res listdefs := jtoken_to_list_definitions_gen lsite_panics.
Definition jobject_to_hashmap_values : list (text * json) -> Res (list (text * value)) :=
  jobject_to_hashmap_values_gen lsite_panics.
Definition jobject_to_int_hashmap : list (text * json) -> Res (list (text * Z)) :=
  jobject_to_int_hashmap_gen lsite_panics.
Definition load_story : json -> Res story := load_story_gen lsite_panics.

(* the same code with every site repaired (each unwrap replaced by a BadJson return) *)
Definition no_panics (s : lsite) : bool := false.
Definition load_story_repaired : json -> Res story := load_story_gen no_panics.
