(* Json/Classify.v — how the two loaders decide what kind of runtime object a
   JSON object is (jtoken_to_runtime_object, the object arm).  Model file.

   json_read.rs        asks `obj.get(K)` for a fixed sequence of keys K and
                       takes the first hit: a PRIORITY order, independent of
                       the order of the keys in the document;
   json_read_stream.rs reads the FIRST key of the object and compares it with
                       the same keys (`prop == K`); anything else makes the
                       object the terminating element of its array.
   The two sequences of key tests are regenerated from the sources
   (Gen/ClassifyGen.v); Json/ClassifyTie.v checks that, attribute look-ups
   aside, they are the same sequence.                                        *)
From Ink.Data Require Import Types.

(* keys that are only looked up after the object has been classified *)
Definition attr_keys : list text :=
  [T "ci"; T "var"; T "c"; T "exArgs"; T "flg"; T "re"; T "origins"].

Definition tmem (k : text) (keys : list text) : bool := existsb (text_eqb k) keys.
Definition discriminators (tests : list text) : list text :=
  filter (fun k => negb (tmem k attr_keys)) tests.

(* result: the discriminating key that decides the kind; None = no such key
   (serde loader: "Failed to convert token", unless the object is the last
   element of its array; streaming loader: terminating element) *)
Definition std_classify (prio : list text) (keys : list text) : option text :=
  find (fun k => tmem k keys) prio.

Definition stream_classify (prio : list text) (keys : list text) : option text :=
  match keys with
  | k1 :: _ => if tmem k1 prio then Some k1 else None
  | [] => None
  end.
