(* Json/TokenizerCore.v — model of runtime/src/json/json_tokenizer.rs (the tokenizer
   of the streaming loader, cargo feature stream-json-parser).  Model file: no
   proofs.

   The input is a Rust &str, i.e. valid UTF-8, so read_utf8_char always yields
   the next scalar value: the model works on [text] directly.
   An io::Error is data ([ioerr]); the tokenizer state survives an error,
   because the callers keep using it (`while let Ok(c) = self.read()`,
   `let s = self.read_string(); self.expect(':')?; s`).

   The escape arms of read_string are NOT written here: this file is generic
   in [act], what the `match c` does with the character after a backslash.
   Json/Tokenizer.v instantiates it with the regenerated table Gen/TokGen.v
   (tok_escapes, tok_unknown, tok_unicode), so every theorem about
   [read_string] is re-checked against the source.                           *)
From Ink.Data Require Import Types.
From Ink.Json Require Import JsonStd.

Record tok := mkTok {
  tk_rest : text;            (* json: &[u8], not yet read *)
  tk_look : option N;        (* lookahead *)
  tk_skip : bool             (* skip_whitespaces *)
}.

Definition tok_new (s : text) : tok := mkTok s None true.      (* new_from_str *)

Inductive ioerr :=
| EofErr        (* io::ErrorKind::UnexpectedEof *)
| DataErr       (* io::ErrorKind::InvalidData *)
| FuelErr.      (* model artefact: loop fuel exhausted (never happens, see TokenizerProofs) *)

Inductive ior (A : Type) := IOk (a : A) | IErr (e : ioerr).
Arguments IOk {A} a.
Arguments IErr {A} e.

Definition set_rest (st : tok) (r : text) : tok := mkTok r (tk_look st) (tk_skip st).
Definition set_look (st : tok) (l : option N) : tok := mkTok (tk_rest st) l (tk_skip st).
Definition set_skip (st : tok) (b : bool) : tok := mkTok (tk_rest st) (tk_look st) b.

(* read_no_lookahead (+ read_utf8_char): next character, skipping Unicode
   white space (char::is_whitespace) while skip_whitespaces is set *)
Fixpoint read_nl_aux (skip : bool) (rest : text) : ior N * text :=
  match rest with
  | [] => (IErr EofErr, [])
  | c :: r => if skip && is_unicode_ws c then read_nl_aux skip r else (IOk c, r)
  end.

(* json_tokenizer.rs:read *)
Definition read (st : tok) : ior N * tok :=
  match tk_look st with
  | Some c => (IOk c, set_look st None)
  | None => let (r, rest') := read_nl_aux (tk_skip st) (tk_rest st) in (r, set_rest st rest')
  end.

(* json_tokenizer.rs:peek *)
Definition peek (st : tok) : ior N * tok :=
  match tk_look st with
  | Some c => (IOk c, st)
  | None =>
      match read_nl_aux (tk_skip st) (tk_rest st) with
      | (IOk c, rest') => (IOk c, mkTok rest' (Some c) (tk_skip st))
      | (IErr e, rest') => (IErr e, set_rest st rest')
      end
  end.

(* number of reads a loop can make before the input is exhausted *)
Definition loop_fuel (st : tok) : nat := S (S (length (tk_rest st))).

(* json_tokenizer.rs:expect *)
Fixpoint expect_loop (fuel : nat) (c : N) (st : tok) : ior unit * tok :=
  match fuel with
  | O => (IErr FuelErr, st)
  | S f =>
      match read st with
      | (IOk c2, st1) =>
          if is_unicode_ws c2 then expect_loop f c st1
          else if N.eqb c2 c then (IOk tt, st1)
          else (IErr DataErr, st1)
      | (IErr _, st1) => (IErr EofErr, st1)
      end
  end.
Definition expect (c : N) (st : tok) : ior unit * tok := expect_loop (loop_fuel st) c st.

(* ---------- strings ---------- *)
Inductive esc_action := EPush (v : N) | EDrop | EError | EUnicode.

(* the escape arms of read_string as the generated table describes them *)
Definition esc_action_of (escapes : list (N * N)) (unknown : N) (unicode : bool) (c : N) : esc_action :=
  match lookup_esc c escapes with
  | Some v => EPush v                                  (* 'c' => result.push('v') *)
  | None =>
      if unicode && N.eqb c c_u then EUnicode          (* 'u' => result.push(self.read_unicode_escape()?) *)
      else if N.eqb unknown 0 then EDrop               (* _ => {} *)
      else if N.eqb unknown 1 then EPush c             (* _ => result.push(c) *)
      else EError                                      (* _ => return Err(..) *)
  end.

(* read_hex4: four times `self.read()?.to_digit(16)` *)
Fixpoint read_hex_n (n : nat) (acc : N) (st : tok) : ior N * tok :=
  match n with
  | O => (IOk acc, st)
  | S k =>
      match read st with
      | (IErr e, st1) => (IErr e, st1)
      | (IOk c, st1) =>
          match hex_val c with
          | None => (IErr DataErr, st1)
          | Some d => read_hex_n k (acc * 16 + d) st1
          end
      end
  end.
Definition read_hex4 (st : tok) : ior N * tok := read_hex_n 4 0 st.

(* read_unicode_escape *)
Definition read_unicode_escape (st : tok) : ior N * tok :=
  match read_hex4 st with
  | (IErr e, st1) => (IErr e, st1)
  | (IOk first, st1) =>
      if is_hi_surrogate first then
        match read st1 with
        | (IErr e, st2) => (IErr e, st2)
        | (IOk b, st2) =>
            if negb (N.eqb b c_bslash) then (IErr DataErr, st2)
            else
              match read st2 with
              | (IErr e, st3) => (IErr e, st3)
              | (IOk v, st3) =>
                  if negb (N.eqb v c_u) then (IErr DataErr, st3)
                  else
                    match read_hex4 st3 with
                    | (IErr e, st4) => (IErr e, st4)
                    | (IOk second, st4) =>
                        if is_lo_surrogate second
                        then (IOk (combine_surrogates first second), st4)
                        else (IErr DataErr, st4)
                    end
              end
        end
      else if is_lo_surrogate first then (IErr DataErr, st1)     (* char::from_u32 = None *)
      else (IOk first, st1)
  end.

Section Escapes.
  (* what the `match c` of read_string does with the character after a backslash *)
  Variable act : N -> esc_action.

  (* the `while let Ok(c) = self.read()` loop of read_string; acc is reversed *)
  Fixpoint read_string_loop (fuel : nat) (st : tok) (escape : bool) (acc : text)
    : ior text * tok :=
    match fuel with
    | O => (IErr FuelErr, st)
    | S f =>
        match read st with
        | (IErr _, st1) =>
            (* loop ends; `if !escape { Ok(result) } else { Err("Unterminated string") }` *)
            if escape then (IErr DataErr, st1) else (IOk (rev acc), st1)
        | (IOk c, st1) =>
            if escape then
              match act c with
              | EPush v => read_string_loop f st1 false (v :: acc)
              | EDrop => read_string_loop f st1 false acc
              | EError => (IErr DataErr, st1)
              | EUnicode =>
                  match read_unicode_escape st1 with
                  | (IOk v, st2) => read_string_loop f st2 false (v :: acc)
                  | (IErr e, st2) => (IErr e, st2)
                  end
              end
            else if N.eqb c c_bslash then read_string_loop f st1 true acc
            else if N.eqb c c_quote then (IOk (rev acc), set_skip st1 true)
            else read_string_loop f st1 false (c :: acc)
        end
    end.

  (* json_tokenizer.rs:read_string *)
  Definition read_string_gen (st : tok) : ior text * tok :=
    match expect c_quote st with
    | (IErr e, st1) => (IErr e, st1)
    | (IOk _, st1) =>
        let st2 := set_skip st1 false in
        read_string_loop (loop_fuel st2) st2 false []
    end.

  (* a complete string literal: what the theorems of C14 are stated about *)
  Definition read_string_text_gen (t : text) : option text :=
    match read_string_gen (tok_new t) with
    | (IOk s, _) => Some s
    | (IErr _, _) => None
    end.
End Escapes.

(* the arms decode every escape of RFC 8259 section 7 *)
Definition is_push (a : esc_action) (v : N) : bool :=
  match a with EPush v' => N.eqb v' v | _ => false end.
Definition act_complete (act : N -> esc_action) : bool :=
  forallb (fun ev => is_push (act (fst ev)) (snd ev)) std_escapes
  && match act c_u with EUnicode => true | _ => false end.

(* a string body the arms get wrong, when they are not complete *)
Definition act_witness (act : N -> esc_action) : text :=
  match find (fun ev => negb (is_push (act (fst ev)) (snd ev))) std_escapes with
  | Some (e, _) => [c_bslash; e]
  | None => [c_bslash; c_u; 48; 48; 52; 49]          (* \u0041 *)
  end.

(* ---------- separators, numbers, literals ---------- *)
Definition is_separator (c : N) : bool := N.eqb c 44 || N.eqb c 125 || N.eqb c 93.

(* read_until_separator's loop: `while !self.next_is_separator() { result.push(self.read()?) }` *)
Fixpoint until_sep_loop (fuel : nat) (st : tok) (acc : text) : ior text * tok :=
  match fuel with
  | O => (IErr FuelErr, st)
  | S f =>
      match peek st with
      | (IErr _, st1) => (IOk (rev acc), st1)                 (* Err(_) => true *)
      | (IOk c, st1) =>
          if is_separator c then (IOk (rev acc), st1)
          else
            match read st1 with
            | (IOk c', st2) => until_sep_loop f st2 (c' :: acc)
            | (IErr e, st2) => (IErr e, st2)
            end
      end
  end.

Definition read_until_separator (st : tok) : ior text * tok :=
  let st0 := set_skip st false in
  match until_sep_loop (loop_fuel st0) st0 [] with
  | (IOk s, st1) => (IOk s, set_skip st1 true)
  | (IErr e, st1) => (IErr e, st1)
  end.

Inductive number := NInt (z : Z) | NFloat (bits : Z).

Inductive jvalue :=
| JVArray | JVObject | JVString (s : text) | JVNumber (n : number) | JVBoolean (b : bool) | JVNull.

Section WithFloat.
  (* Rust `str::parse::<f32>` (accepts more than JSON: inf, nan, .5, 5., +1) *)
  Variable f32_parse : text -> option Z.

  (* json_tokenizer.rs:read_number *)
  Definition read_number (st : tok) : ior number * tok :=
    match read_until_separator st with
    | (IErr e, st1) => (IErr e, st1)
    | (IOk s, st1) =>
        let s' := trim s in
        match parse_i32 s' with
        | Some z => (IOk (NInt z), st1)
        | None =>
            match f32_parse s' with
            | Some b => (IOk (NFloat b), st1)
            | None => (IErr DataErr, st1)
            end
        end
    end.

  (* json_tokenizer.rs:read_boolean / read_null *)
  Definition read_boolean (st : tok) : ior bool * tok :=
    match read_until_separator st with
    | (IErr e, st1) => (IErr e, st1)
    | (IOk s, st1) =>
        if text_eqb (trim s) (T "true") then (IOk true, st1)
        else if text_eqb (trim s) (T "false") then (IOk false, st1)
        else (IErr DataErr, st1)
    end.

  Definition read_null (st : tok) : ior unit * tok :=
    match read_until_separator st with
    | (IErr e, st1) => (IErr e, st1)
    | (IOk s, st1) =>
        if text_eqb (trim s) (T "null") then (IOk tt, st1) else (IErr DataErr, st1)
    end.

End WithFloat.

Section Values.
  Variable act : N -> esc_action.
  Variable f32_parse : text -> option Z.
  Let read_string := read_string_gen act.

  (* json_tokenizer.rs:read_obj_key — the string is read, then ':' is expected
     whether or not the string was read successfully *)
  Definition read_obj_key_gen (st : tok) : ior text * tok :=
    let (s, st1) := read_string st in
    match expect c_colon st1 with
    | (IErr e, st2) => (IErr e, st2)
    | (IOk _, st2) => (s, st2)
    end.

  (* json_tokenizer.rs:expect_obj_key — the result of expect(':') is discarded *)
  Definition expect_obj_key_gen (expected : text) (st : tok) : ior unit * tok :=
    match read_string st with
    | (IErr e, st1) => (IErr e, st1)
    | (IOk s, st1) =>
        if negb (text_eqb s expected) then (IErr DataErr, st1)
        else let (_, st2) := expect c_colon st1 in (IOk tt, st2)
    end.

  (* json_tokenizer.rs:read_value *)
  Definition read_value_gen (st : tok) : ior jvalue * tok :=
    match peek st with
    | (IErr e, st1) => (IErr e, st1)
    | (IOk c, st1) =>
        if N.eqb c c_lbracket then
          match read st1 with (IOk _, st2) => (IOk JVArray, st2) | (IErr e, st2) => (IErr e, st2) end
        else if N.eqb c c_lbrace then
          match read st1 with (IOk _, st2) => (IOk JVObject, st2) | (IErr e, st2) => (IErr e, st2) end
        else if N.eqb c c_quote then
          match read_string st1 with
          | (IOk s, st2) => (IOk (JVString s), st2)
          | (IErr e, st2) => (IErr e, st2)
          end
        else if N.eqb c 116 || N.eqb c 102 then
          match read_boolean st1 with
          | (IOk b, st2) => (IOk (JVBoolean b), st2)
          | (IErr e, st2) => (IErr e, st2)
          end
        else if N.eqb c 110 then
          match read_null st1 with
          | (IOk _, st2) => (IOk JVNull, st2)
          | (IErr e, st2) => (IErr e, st2)
          end
        else
          match read_number f32_parse st1 with
          | (IOk n, st2) => (IOk (JVNumber n), st2)
          | (IErr e, st2) => (IErr e, st2)
          end
    end.
End Values.

(* Number::as_integer / as_float / is_integer;  `f as i32` saturates: supplied
   by the caller (Base/F32) when needed *)
Definition number_is_integer (n : number) : bool :=
  match n with NInt _ => true | NFloat _ => false end.
