(* Json/TokenizerProofs.v — lemmas about the tokenizer model (Tokenizer.v):
   read_string decodes every valid string body exactly as JsonStd.unescape
   when the escape arms are complete, and a counterexample when they are not;
   white space; integer literals. *)
From Ink.Data Require Import Types.
From Ink.Json Require Import JsonStd JsonStdProofs TokenizerCore.
From Coq Require Import Lia.

(* the tokenizer inside a string literal: no lookahead, no white-space skipping *)
Definition st_in (r : text) : tok := mkTok r None false.
(* ... and between tokens *)
Definition st_out (r : text) : tok := mkTok r None true.

Lemma read_in c r : read (st_in (c :: r)) = (IOk c, st_in r).
Proof. reflexivity. Qed.

Lemma read_in_eof : read (st_in []) = (IErr EofErr, st_in []).
Proof. reflexivity. Qed.

(* ---------- \uXXXX ---------- *)
Lemma read_hex4_in h1 h2 h3 h4 r u : hex4 h1 h2 h3 h4 = Some u ->
  read_hex4 (st_in (h1 :: h2 :: h3 :: h4 :: r)) = (IOk u, st_in r).
Proof.
  unfold hex4, read_hex4. intros H.
  destruct (hex_val h1) as [x|] eqn:E1; [|discriminate].
  destruct (hex_val h2) as [y|] eqn:E2; [|discriminate].
  destruct (hex_val h3) as [z|] eqn:E3; [|discriminate].
  destruct (hex_val h4) as [w|] eqn:E4; [|discriminate].
  injection H as <-.
  cbn [read_hex_n].
  rewrite read_in. cbv iota. rewrite E1.
  rewrite read_in. cbv iota. rewrite E2.
  rewrite read_in. cbv iota. rewrite E3.
  rewrite read_in. cbv iota. rewrite E4.
  reflexivity.
Qed.

Lemma read_unicode_u4 h1 h2 h3 h4 r u :
  hex4 h1 h2 h3 h4 = Some u -> is_hi_surrogate u = false -> is_lo_surrogate u = false ->
  read_unicode_escape (st_in (h1 :: h2 :: h3 :: h4 :: r)) = (IOk u, st_in r).
Proof.
  intros H1 H2 H3. unfold read_unicode_escape. rewrite (read_hex4_in _ _ _ _ _ _ H1), H2, H3.
  reflexivity.
Qed.

Lemma read_unicode_pair h1 h2 h3 h4 l1 l2 l3 l4 r hi lo :
  hex4 h1 h2 h3 h4 = Some hi -> is_hi_surrogate hi = true ->
  hex4 l1 l2 l3 l4 = Some lo -> is_lo_surrogate lo = true ->
  read_unicode_escape (st_in (h1 :: h2 :: h3 :: h4 :: c_bslash :: c_u :: l1 :: l2 :: l3 :: l4 :: r))
  = (IOk (combine_surrogates hi lo), st_in r).
Proof.
  intros H1 H2 H3 H4. unfold read_unicode_escape.
  rewrite (read_hex4_in _ _ _ _ _ _ H1), H2, read_in. ground_eqb. cbn [negb]. cbv iota.
  rewrite read_in. ground_eqb. cbn [negb]. cbv iota.
  rewrite (read_hex4_in _ _ _ _ _ _ H3), H4. reflexivity.
Qed.

(* ---------- read_string on valid bodies, complete arms ---------- *)
Lemma lookup_esc_In e v l : lookup_esc e l = Some v -> In (e, v) l.
Proof.
  induction l as [|[k w] l IH]; cbn [lookup_esc]; [discriminate|].
  destruct (N.eqb_spec e k) as [->|_]; intros H.
  - injection H as ->. now left.
  - right. now apply IH.
Qed.

Lemma is_push_eq a v : is_push a v = true -> a = EPush v.
Proof. destruct a; cbn [is_push]; try discriminate. intros H. apply N.eqb_eq in H. now subst. Qed.

Section Complete.
  Variable act : N -> esc_action.
  Hypothesis Hact : act_complete act = true.

  Lemma act_simple e v : lookup_esc e std_escapes = Some v -> act e = EPush v.
  Proof.
    intros H. apply lookup_esc_In in H.
    unfold act_complete in Hact. apply andb_prop in Hact as [Hf _].
    rewrite forallb_forall in Hf. specialize (Hf _ H). cbn [fst snd] in Hf.
    now apply is_push_eq.
  Qed.

  Lemma act_u : act c_u = EUnicode.
  Proof.
    unfold act_complete in Hact. apply andb_prop in Hact as [_ Hu].
    destruct (act c_u); try discriminate. reflexivity.
  Qed.

  (* one step of the body = at most two iterations of the loop *)
  Lemma loop_body_step t v r rest : body_step t v r ->
    exists k, (k <= length t - length r)%nat /\
      forall f acc, read_string_loop act (k + f) (st_in (t ++ rest)) false acc
                    = read_string_loop act f (st_in (r ++ rest)) false (v :: acc).
  Proof.
    intros H. destruct H as [c r Hq Hb Hlt | e r v He Hl | h1 h2 h3 h4 r u Hh Hhi Hlo
                            | h1 h2 h3 h4 l1 l2 l3 l4 r hi lo Hh Hhi Hl Hlo].
    - exists 1%nat. split; [cbn [length]; lia|]. intros f acc.
      cbn [Nat.add app read_string_loop]. rewrite read_in. cbv iota. rewrite Hb, Hq. reflexivity.
    - exists 2%nat. split; [cbn [length]; lia|]. intros f acc.
      cbn [Nat.add app read_string_loop]. rewrite read_in. cbv iota. ground_eqb. cbv iota.
      rewrite read_in. cbv iota. rewrite (act_simple _ _ Hl). reflexivity.
    - exists 2%nat. split; [cbn [length]; lia|]. intros f acc.
      cbn [Nat.add app read_string_loop]. rewrite read_in. cbv iota. ground_eqb. cbv iota.
      rewrite read_in. cbv iota. rewrite act_u.
      rewrite (read_unicode_u4 _ _ _ _ _ _ Hh Hhi Hlo). reflexivity.
    - exists 2%nat. split; [cbn [length]; lia|]. intros f acc.
      cbn [Nat.add app read_string_loop]. rewrite read_in. cbv iota. ground_eqb. cbv iota.
      rewrite read_in. cbv iota. rewrite act_u.
      rewrite (read_unicode_pair _ _ _ _ _ _ _ _ _ _ _ Hh Hhi Hl Hlo). reflexivity.
  Qed.

  Lemma loop_valid_body rest body s : unescape body = Some s ->
    forall fuel acc, (length body < fuel)%nat ->
      read_string_loop act fuel (st_in (body ++ c_quote :: rest)) false acc
      = (IOk (rev acc ++ s), st_out rest).
  Proof.
    revert body s.
    apply (body_ind (fun body s => forall fuel acc, (length body < fuel)%nat ->
      read_string_loop act fuel (st_in (body ++ c_quote :: rest)) false acc
      = (IOk (rev acc ++ s), st_out rest))).
    - intros fuel acc Hf. destruct fuel as [|f]; [cbn [length] in Hf; lia|].
      cbn [app read_string_loop]. rewrite read_in. cbv iota. ground_eqb. cbv iota.
      rewrite app_nil_r. reflexivity.
    - intros t v r s Hbs _ IH fuel acc Hf.
      destruct (loop_body_step t v r (c_quote :: rest) Hbs) as (k & Hk & Hloop).
      pose proof (body_step_shorter _ _ _ Hbs) as Hsh.
      replace fuel with (k + (fuel - k))%nat by lia.
      rewrite Hloop, IH by lia.
      cbn [rev]. rewrite <- app_assoc. reflexivity.
  Qed.

  (* read_string from a fresh tokenizer positioned on the opening quote *)
  Lemma read_string_valid body s rest : unescape body = Some s ->
    read_string_gen act (tok_new (quote body ++ rest)) = (IOk s, st_out rest).
  Proof.
    intros H. unfold read_string_gen, quote, tok_new, expect, loop_fuel.
    cbn [tk_rest app expect_loop]. unfold read. cbn [tk_look tk_skip tk_rest read_nl_aux].
    change (is_unicode_ws c_quote) with false. cbn [andb]. cbv iota.
    change (is_unicode_ws c_quote) with false. cbv iota. ground_eqb. cbv iota.
    unfold set_rest, set_skip. cbn [tk_rest tk_look tk_skip].
    rewrite <- app_assoc. cbn [app].
    change (mkTok (body ++ c_quote :: rest) None false) with (st_in (body ++ c_quote :: rest)).
    rewrite (loop_valid_body rest body s H).
    - reflexivity.
    - unfold loop_fuel, st_in. cbn [tk_rest]. rewrite app_length. lia.
  Qed.

  Lemma read_string_text_valid body : json_string_body body ->
    read_string_text_gen act (quote body) = unescape body.
  Proof.
    unfold json_string_body. intros H. destruct (unescape body) as [s|] eqn:E; [|congruence].
    unfold read_string_text_gen. rewrite <- (app_nil_r (quote body)).
    rewrite (read_string_valid body s [] E). reflexivity.
  Qed.
End Complete.

(* ---------- incomplete arms: a counterexample ---------- *)
Lemma act_witness_simple act e v : In (e, v) std_escapes -> is_push (act e) v = false ->
  json_string_body [c_bslash; e] /\
  read_string_text_gen act (quote [c_bslash; e]) <> unescape [c_bslash; e].
Proof.
  intros HIn Hp. cbn [In std_escapes] in HIn.
  repeat (destruct HIn as [HIn|HIn]; [injection HIn as <- <-|]); try contradiction;
    (split; [vm_compute; discriminate|]);
    vm_compute; match goal with |- context [act ?k] => destruct (act k) as [v'| | |] eqn:Ea end;
    try discriminate;
    intros Heq; injection Heq as ->; vm_compute in Hp; discriminate.
Qed.

Lemma act_witness_unicode act : (match act c_u with EUnicode => true | _ => false end) = false ->
  json_string_body [c_bslash; c_u; 48; 48; 52; 49] /\
  read_string_text_gen act (quote [c_bslash; c_u; 48; 48; 52; 49])
  <> unescape [c_bslash; c_u; 48; 48; 52; 49].
Proof.
  intros Hu. split; [vm_compute; discriminate|].
  vm_compute. vm_compute in Hu. destruct (act 117) as [v'| | |]; try discriminate.
Qed.

Lemma act_incomplete_witness act : act_complete act = false ->
  json_string_body (act_witness act) /\
  read_string_text_gen act (quote (act_witness act)) <> unescape (act_witness act).
Proof.
  intros Hc. unfold act_witness.
  destruct (find (fun ev => negb (is_push (act (fst ev)) (snd ev))) std_escapes) as [[e v]|] eqn:F.
  - apply find_some in F as [HIn Hn]. cbn [fst snd] in Hn. apply negb_true_iff in Hn.
    now apply act_witness_simple with (v := v).
  - apply act_witness_unicode.
    unfold act_complete in Hc. apply andb_false_iff in Hc as [Hc|Hc]; [|exact Hc].
    exfalso. apply Bool.not_true_iff_false in Hc. apply Hc. apply forallb_forall. intros x Hx.
    pose proof (find_none _ _ F x Hx) as Hn. now apply negb_false_iff in Hn.
Qed.

(* ---------- white space ---------- *)
Lemma json_ws_unicode_ws c : is_json_ws c = true -> is_unicode_ws c = true.
Proof.
  unfold is_json_ws. intros H.
  repeat (apply orb_prop in H as [H|H]); apply N.eqb_eq in H; subst c; reflexivity.
Qed.

Definition all_json_ws (w : text) : Prop := Forall (fun c => is_json_ws c = true) w.

Lemma read_nl_skip_json_ws w t : all_json_ws w -> read_nl_aux true (w ++ t) = read_nl_aux true t.
Proof.
  induction 1 as [|c w Hc _ IH]; [reflexivity|].
  cbn [app read_nl_aux]. rewrite (json_ws_unicode_ws _ Hc). cbn [andb]. exact IH.
Qed.

Lemma skip_ws_json_ws w t : all_json_ws w -> skip_ws (w ++ t) = skip_ws t.
Proof.
  induction 1 as [|c w Hc _ IH]; [reflexivity|].
  unfold skip_ws in *. cbn [app drop_while]. rewrite Hc. exact IH.
Qed.

(* on RFC 8259 white space both readers skip the same characters and stop at
   the same one *)
Lemma ws_eq_std_lemma w c r : all_json_ws w -> is_unicode_ws c = false ->
  read (tok_new (w ++ c :: r)) = (IOk c, st_out r) /\ skip_ws (w ++ c :: r) = c :: r.
Proof.
  intros Hw Hc. split.
  - unfold read, tok_new. cbn [tk_look tk_skip tk_rest]. rewrite (read_nl_skip_json_ws _ _ Hw).
    cbn [read_nl_aux]. rewrite Hc. reflexivity.
  - rewrite (skip_ws_json_ws _ _ Hw). unfold skip_ws. cbn [drop_while].
    destruct (is_json_ws c) eqn:E; [|reflexivity].
    apply json_ws_unicode_ws in E. congruence.
Qed.

(* the tokenizer skips MORE than RFC white space (char::is_whitespace): only
   ill-formed documents are affected — serde_json rejects them *)
Lemma ws_superset_witness :
  fst (read (tok_new [160; 49])) = IOk 49 /\ skip_ws [160; 49] = [160; 49].
Proof. split; reflexivity. Qed.

(* ---------- numbers: refuted agreements ---------- *)
Section Numbers.
  Variable f32_parse : text -> option Z.
  Variable f32_of_decimal : text -> option Z.

  (* "-0": the tokenizer makes it the integer 0, serde_json the float -0.0 *)
  Lemma neg_zero_differs :
    fst (read_number f32_parse (tok_new (T "-0,"))) = IOk (NInt 0)
    /\ parse_json f32_of_decimal (T "-0") = Some (JFloat f32_neg_zero_bits).
  Proof. split; reflexivity. Qed.

  (* an integer literal outside i32: the tokenizer never yields an integer
     (it falls through to parse::<f32>), serde_json keeps the integer — which
     json_read.rs then converts with try_into().unwrap() *)
  Lemma int_out_of_range_differs :
    (forall z, fst (read_number f32_parse (tok_new (T "2147483648,"))) <> IOk (NInt z))
    /\ parse_json f32_of_decimal (T "2147483648") = Some (JInt 2147483648)
    /\ in_i32 2147483648 = false.
  Proof.
    split; [|split; reflexivity].
    intros z. vm_compute. destruct (f32_parse _); discriminate.
  Qed.
End Numbers.

(* ---------- integer literals ---------- *)
Definition digits_only (ds : text) : Prop := Forall (fun c => is_digit c = true) ds.

Lemma digit_cases c : is_digit c = true ->
  c = 48 \/ c = 49 \/ c = 50 \/ c = 51 \/ c = 52 \/ c = 53 \/ c = 54 \/ c = 55 \/ c = 56 \/ c = 57.
Proof.
  unfold is_digit. intros H. apply andb_prop in H as [H1 H2].
  apply N.leb_le in H1, H2. lia.
Qed.

Ltac digit_split H :=
  destruct (digit_cases _ H) as [->|[->|[->|[->|[->|[->|[->|[->|[->| ->]]]]]]]]].

Lemma uint_of_text_digits ds : digits_only ds -> exists u, uint_of_text ds = Some u.
Proof.
  induction 1 as [|c ds Hc _ [u IH]]; [eexists; reflexivity|].
  cbn [uint_of_text]. rewrite IH. digit_split Hc; eexists; reflexivity.
Qed.

Lemma digit_not_sep c : is_digit c = true -> is_separator c = false.
Proof. intros H. digit_split H; reflexivity. Qed.

Lemma digit_not_ws c : is_digit c = true -> is_unicode_ws c = false.
Proof. intros H. digit_split H; reflexivity. Qed.

Lemma span_digits_app ds t : digits_only ds ->
  match t with c :: _ => is_digit c = false | [] => True end ->
  span_digits (ds ++ t) = (ds, t).
Proof.
  intros Hd Ht. induction Hd as [|c ds Hc _ IH]; cbn [app span_digits].
  - destruct t as [|c t]; [reflexivity|]. cbn [span_digits]. rewrite Ht. reflexivity.
  - rewrite Hc, IH. reflexivity.
Qed.

(* a JSON integer literal: optional minus, digits, no leading zero *)
Definition int_literal_text (neg : bool) (ds : text) : text :=
  (if neg then [c_minus] else []) ++ ds.
Definition int_literal_value (neg : bool) (ds : text) : Z :=
  if neg then (- digits_to_Z ds)%Z else digits_to_Z ds.
Definition int_literal (neg : bool) (ds : text) : Prop :=
  ds <> [] /\ digits_only ds /\ (forall more, ds = 48 :: more -> more = []).
(* ... whose value is an i32 and which is not the literal -0 *)
Definition i32_literal (neg : bool) (ds : text) : Prop :=
  int_literal neg ds /\ in_i32 (int_literal_value neg ds) = true
  /\ (neg = true -> digits_to_Z ds <> 0%Z).

Lemma sep_facts sep : is_separator sep = true ->
  is_digit sep = false /\ N.eqb sep 46 = false /\ N.eqb sep 101 = false /\ N.eqb sep 69 = false.
Proof.
  unfold is_separator. intros H.
  repeat (apply orb_prop in H as [H|H]); apply N.eqb_eq in H; subst sep; repeat split; reflexivity.
Qed.

Lemma lex_number_int neg ds sep rest : int_literal neg ds -> is_separator sep = true ->
  lex_number (int_literal_text neg ds ++ sep :: rest) = Some (mkNum neg ds None None, sep :: rest).
Proof.
  intros (Hne & Hd & Hz) Hsep. destruct (sep_facts _ Hsep) as (Hs1 & Hs2 & Hs3 & Hs4).
  destruct ds as [|d more]; [congruence|].
  assert (Hdd : is_digit d = true) by (inversion Hd; assumption).
  assert (Hspan : span_digits ((d :: more) ++ sep :: rest) = (d :: more, sep :: rest))
    by (apply span_digits_app; assumption).
  cbn [app] in Hspan.
  assert (Hlead : N.eqb d 48 && negb (is_nil more) = false).
  { destruct (N.eqb_spec d 48) as [->|_]; [|reflexivity]. rewrite (Hz more eq_refl). reflexivity. }
  unfold lex_number, int_literal_text. destruct neg.
  - cbn [app]. ground_eqb. cbv iota. rewrite Hspan, Hlead.
    unfold lex_frac, lex_exp. rewrite Hs2, Hs3, Hs4. reflexivity.
  - cbn [app] in *. assert (Hm : N.eqb d c_minus = false) by (digit_split Hdd; reflexivity).
    rewrite Hm, Hspan, Hlead. unfold lex_frac, lex_exp. rewrite Hs2, Hs3, Hs4. reflexivity.
Qed.

Section IntLiterals.
  Variable f32_parse : text -> option Z.
  Variable f32_of_decimal : text -> option Z.

  (* serde side: a value position holding the literal yields the integer *)
  Lemma parse_value_number fuel depth c r :
    (c = c_minus \/ is_digit c = true) ->
    parse_value f32_of_decimal (S fuel) depth (c :: r)
    = match lex_number (c :: r) with
      | Some (n, r') => match number_value f32_of_decimal n with
                        | Some v => Some (v, r') | None => None end
      | None => None
      end.
  Proof.
    intros [->|H]; [reflexivity|]. digit_split H; reflexivity.
  Qed.

  Lemma std_int_literal neg ds sep rest fuel depth : i32_literal neg ds -> is_separator sep = true ->
    parse_value f32_of_decimal (S fuel) depth (int_literal_text neg ds ++ sep :: rest)
    = Some (JInt (int_literal_value neg ds), sep :: rest).
  Proof.
    intros (Hlit & _ & Hnz) Hsep.
    pose proof (lex_number_int neg ds sep rest Hlit Hsep) as Hlex.
    destruct Hlit as (Hne & Hd & _).
    destruct ds as [|d more]; [congruence|].
    assert (Hdd : is_digit d = true) by (inversion Hd; assumption).
    assert (Hhead : exists c r, int_literal_text neg (d :: more) ++ sep :: rest = c :: r
                                /\ (c = c_minus \/ is_digit c = true)).
    { destruct neg; cbn [int_literal_text app]; eexists _, _; split; try reflexivity; auto. }
    destruct Hhead as (c & r & Hcr & Hc). rewrite Hcr in *.
    rewrite (parse_value_number fuel depth c r Hc), Hlex.
    unfold number_value, numlit_is_int, int_literal_value. cbn [nl_frac nl_exp nl_neg nl_int].
    destruct neg; [|reflexivity].
    destruct (Z.eqb_spec (digits_to_Z (d :: more)) 0) as [E|_]; [now apply Hnz in E|reflexivity].
  Qed.

  (* tokenizer side *)
  Lemma until_sep_chars cs sep rest : Forall (fun c => is_separator c = false) cs ->
    is_separator sep = true ->
    forall fuel acc, (length cs < fuel)%nat ->
      until_sep_loop fuel (st_in (cs ++ sep :: rest)) acc
      = (IOk (rev acc ++ cs), mkTok rest (Some sep) false).
  Proof.
    intros Hcs Hsep. induction Hcs as [|c cs Hc _ IH]; intros fuel acc Hf.
    - destruct fuel as [|f]; [cbn [length] in Hf; lia|].
      cbn [app until_sep_loop]. unfold peek, st_in. cbn [tk_look tk_skip tk_rest read_nl_aux andb].
      rewrite Hsep, app_nil_r. reflexivity.
    - destruct fuel as [|f]; [cbn [length] in Hf; lia|].
      cbn [app until_sep_loop]. unfold peek, st_in. cbn [tk_look tk_skip tk_rest read_nl_aux andb].
      rewrite Hc. unfold read. cbn [tk_look]. unfold set_look. cbn [tk_rest tk_skip].
      change (mkTok (cs ++ sep :: rest) None false) with (st_in (cs ++ sep :: rest)).
      rewrite IH by (cbn [length] in Hf; lia).
      cbn [rev]. rewrite <- app_assoc. reflexivity.
  Qed.

  Lemma trim_no_ws t : Forall (fun c => is_unicode_ws c = false) t -> trim t = t.
  Proof.
    intros H. unfold trim, trim_start, trim_end.
    assert (Hdw : forall l, Forall (fun c => is_unicode_ws c = false) l -> drop_while is_unicode_ws l = l).
    { intros l Hl. destruct Hl as [|c l Hc _]; [reflexivity|]. cbn [drop_while]. rewrite Hc. reflexivity. }
    rewrite (Hdw _ H). rewrite Hdw; [apply rev_involutive|].
    apply Forall_forall. intros x Hx. apply in_rev in Hx.
    rewrite Forall_forall in H. now apply H.
  Qed.

  Lemma digits_val_some ds : digits_only ds -> exists n, digits_val ds 0 = Some n.
  Proof. intros H. destruct (uint_of_text_digits ds H) as [u Hu]. unfold digits_val. rewrite Hu. eauto. Qed.

  Lemma parse_i32_literal neg ds : i32_literal neg ds ->
    parse_i32 (int_literal_text neg ds) = Some (int_literal_value neg ds).
  Proof.
    intros ((Hne & Hd & _) & Hr & _).
    destruct (digits_val_some ds Hd) as [n Hn].
    unfold int_literal_value, digits_to_Z in *. rewrite Hn in *.
    destruct ds as [|d more]; [congruence|].
    assert (Hdd : is_digit d = true) by (inversion Hd; assumption).
    unfold in_i32, i32_min, i32_max in Hr. apply andb_prop in Hr as [Hr1 Hr2].
    apply Z.leb_le in Hr1, Hr2.
    destruct neg; unfold int_literal_text; cbn [app].
    - cbn [parse_i32]. rewrite Hn. destruct (N.leb_spec n 2147483648) as [_|Hgt]; [reflexivity|lia].
    - assert (E : parse_i32 (d :: more)
                  = match digits_val (d :: more) 0 with
                    | Some v => if v <=? 2147483647 then Some (Z.of_N v) else None
                    | None => None
                    end) by (digit_split Hdd; reflexivity).
      rewrite E, Hn. destruct (N.leb_spec n 2147483647) as [_|Hgt]; [reflexivity|lia].
  Qed.

  Lemma literal_chars neg ds : int_literal neg ds ->
    Forall (fun c => is_separator c = false) (int_literal_text neg ds)
    /\ Forall (fun c => is_unicode_ws c = false) (int_literal_text neg ds).
  Proof.
    intros (_ & Hd & _). unfold int_literal_text.
    assert (H1 : Forall (fun c => is_separator c = false) ds)
      by (eapply Forall_impl; [|exact Hd]; intros a; apply digit_not_sep).
    assert (H2 : Forall (fun c => is_unicode_ws c = false) ds)
      by (eapply Forall_impl; [|exact Hd]; intros a; apply digit_not_ws).
    destruct neg; cbn [app]; split; try assumption; constructor; try assumption; reflexivity.
  Qed.

  Lemma tok_int_literal neg ds sep rest : i32_literal neg ds -> is_separator sep = true ->
    read_number f32_parse (tok_new (int_literal_text neg ds ++ sep :: rest))
    = (IOk (NInt (int_literal_value neg ds)), mkTok rest (Some sep) true).
  Proof.
    intros Hlit Hsep. pose proof Hlit as (Hint & _).
    destruct (literal_chars neg ds Hint) as [Hns Hnw].
    unfold read_number, read_until_separator, tok_new, set_skip.
    cbn [tk_rest tk_look tk_skip].
    change (mkTok (int_literal_text neg ds ++ sep :: rest) None false)
      with (st_in (int_literal_text neg ds ++ sep :: rest)).
    rewrite (until_sep_chars _ sep rest Hns Hsep).
    - cbn [rev app tk_rest tk_look]. rewrite (trim_no_ws _ Hnw), (parse_i32_literal _ _ Hlit).
      reflexivity.
    - unfold loop_fuel, st_in. cbn [tk_rest]. rewrite app_length. lia.
  Qed.
End IntLiterals.

(* non-vacuity *)
Example i32_literal_example :
  i32_literal true [50; 49; 52; 55; 52; 56; 51; 54; 52; 56] /\ i32_literal false [48].
Proof.
  unfold i32_literal, int_literal, digits_only. repeat split; try discriminate;
    try (repeat constructor; fail); try reflexivity.
  intros more E. injection E as <-. reflexivity.
Qed.
