(* Json/LoadRun.v — entry points of the loader model for the correspondence
   check (tools/props/c15.py).  Results are rendered as text. *)
From Ink.Json Require Import StdLoad.
From Ink.Gen Require Import LoadGen.

Definition show_res {A} (r : Res A) : text :=
  match r with
  | Ok _ => T "ok"
  | Err BadJson _ => T "err(BadJson)"
  | Err InvalidState _ => T "err(InvalidState)"
  | Err BadArgument _ => T "err(BadArgument)"
  | Panic s => T "panic:" ++ s
  end.

(* load outcome of the code as it is now / of the code with every site repaired *)
Definition run_load (j : json) : text := show_res (load_story j).
Definition run_load_repaired (j : json) : text := show_res (load_story_repaired j).
