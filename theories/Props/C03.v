(* Props/C03.v — determinism: nothing but the program, the seed and the host calls
   decides what a story does; in particular no result depends on HashMap iteration
   order.  Only statements, `exact`, Check and Print Assumptions.

   The model is a function, so the content of the property is invariance under the
   iteration-order oracle [order_oracle] (any permutation: [ord_ok]) at every iteration
   site.  PART 1: the value layer.  The theorems are about the code AS WRITTEN NOW
   (NativeGen.tie_break_now is read from ink_list.rs / list_definition.rs /
   control_logic.rs on every check): `eq_refl : tie_break_now = TieTotal` type-checks
   exactly when ties between list entries are resolved by the total order
   (value, origin name, item name).  PART 2: the map-to-map loops of the engine. *)
From Coq Require Import Permutation.
From Ink.Data Require Import Types InkList IntSem Value Native InkListProofs NativeProofs NativeOrder AssocOrder.
From Ink.Gen Require Import NativeGen.
From Ink.Engine Require Import Vars OrderIndep.
Local Open Scope Z_scope.

(* ---------------- PART 1: values, lists, native functions ---------------- *)
(* sites get_max_item / get_min_item (LIST_MAX, LIST_MIN, LIST_VALUE, casts, LIST_RANGE bounds) *)
Theorem site_get_max_item_order_independent : forall oo1 oo2 l, ord_ok oo1 -> ord_ok oo2 ->
  get_max_item oo1 l = get_max_item oo2 l /\ get_min_item oo1 l = get_min_item oo2 l.
Proof. exact (fun oo1 oo2 l H1 H2 => conj (get_max_item_oi eq_refl oo1 oo2 H1 H2 l) (get_min_item_oi eq_refl oo1 oo2 H1 H2 l)). Qed.
Check site_get_max_item_order_independent : forall oo1 oo2 l, ord_ok oo1 -> ord_ok oo2 ->
  get_max_item oo1 l = get_max_item oo2 l /\ get_min_item oo1 l = get_min_item oo2 l.
Print Assumptions site_get_max_item_order_independent.

(* site ListDefinition::get_item_with_value (list-from-int, list +- int) *)
Theorem site_get_item_with_value_order_independent : forall oo1 oo2 d v, ord_ok oo1 -> ord_ok oo2 ->
  def_item_with_value oo1 d v = def_item_with_value oo2 d v.
Proof. exact (fun oo1 oo2 d v H1 H2 => def_item_with_value_oi eq_refl oo1 oo2 H1 H2 d v). Qed.
Check site_get_item_with_value_order_independent : forall oo1 oo2 d v, ord_ok oo1 -> ord_ok oo2 ->
  def_item_with_value oo1 d v = def_item_with_value oo2 d v.
Print Assumptions site_get_item_with_value_order_independent.

(* sites get_ordered_items / Display of a list / LIST_RANGE *)
Theorem site_display_order_independent : forall oo1 oo2 fo v, ord_ok oo1 -> ord_ok oo2 -> value_wf v ->
  value_display_o oo1 fo v = value_display_o oo2 fo v.
Proof. exact (fun oo1 oo2 fo v H1 H2 => value_display_oi eq_refl oo1 oo2 H1 H2 fo v). Qed.
Check site_display_order_independent : forall oo1 oo2 fo v, ord_ok oo1 -> ord_ok oo2 -> value_wf v ->
  value_display_o oo1 fo v = value_display_o oo2 fo v.
Print Assumptions site_display_order_independent.

Theorem site_list_range_order_independent : forall oo1 oo2 cm l a b, ord_ok oo1 -> ord_ok oo2 ->
  keys_nodup (l_items l) -> list_with_sub_range oo1 cm l a b = list_with_sub_range oo2 cm l a b.
Proof. exact (fun oo1 oo2 cm l a b H1 H2 => list_with_sub_range_oi eq_refl oo1 oo2 H1 H2 cm l a b). Qed.
Check site_list_range_order_independent : forall oo1 oo2 cm l a b, ord_ok oo1 -> ord_ok oo2 ->
  keys_nodup (l_items l) -> list_with_sub_range oo1 cm l a b = list_with_sub_range oo2 cm l a b.
Print Assumptions site_list_range_order_independent.

(* site LIST_RANDOM ("sorted for predictability") and list-from-int *)
Theorem site_list_random_order_independent : forall oo1 oo2 defs l n, ord_ok oo1 -> ord_ok oo2 ->
  keys_nodup (l_items l) -> list_random_pick_o oo1 defs l n = list_random_pick_o oo2 defs l n.
Proof. exact (fun oo1 oo2 defs l n H1 H2 => list_random_pick_oi eq_refl oo1 oo2 H1 H2 defs l n). Qed.
Check site_list_random_order_independent : forall oo1 oo2 defs l n, ord_ok oo1 -> ord_ok oo2 ->
  keys_nodup (l_items l) -> list_random_pick_o oo1 defs l n = list_random_pick_o oo2 defs l n.
Print Assumptions site_list_random_order_independent.

Theorem site_list_from_int_order_independent : forall oo1 oo2 defs n s, ord_ok oo1 -> ord_ok oo2 ->
  list_from_int_o oo1 defs n s = list_from_int_o oo2 defs n s.
Proof. exact (fun oo1 oo2 defs n s H1 H2 => list_from_int_oi eq_refl oo1 oo2 H1 H2 defs n s). Qed.
Check site_list_from_int_order_independent : forall oo1 oo2 defs n s, ord_ok oo1 -> ord_ok oo2 ->
  list_from_int_o oo1 defs n s = list_from_int_o oo2 defs n s.
Print Assumptions site_list_from_int_order_independent.

(* NativeFunctionCall::call, all 31 operators, any operands.  PARTIAL: `list +- int`
   builds its result by iterating the list, so its result is order independent as a map
   only; that one operand shape is excluded here (correspondence runs cover it). *)
Theorem native_call_order_independent_partial : forall oo1 oo2 sem ovf fo defs op args,
  ord_ok oo1 -> ord_ok oo2 -> not_increment op args ->
  call_native_g oo1 sem ovf fo defs op args = call_native_g oo2 sem ovf fo defs op args.
Proof. exact (fun oo1 oo2 sem ovf fo defs op args H1 H2 => call_native_oi_partial eq_refl oo1 oo2 H1 H2 sem ovf fo defs op args). Qed.
Check native_call_order_independent_partial : forall oo1 oo2 sem ovf fo defs op args,
  ord_ok oo1 -> ord_ok oo2 -> not_increment op args ->
  call_native_g oo1 sem ovf fo defs op args = call_native_g oo2 sem ovf fo defs op args.
Print Assumptions native_call_order_independent_partial.

Example native_call_order_example :
  ord_ok ord_id /\ ord_ok ord_rev /\ not_increment NListMax [OVal (VList tie_list)] /\ value_wf (VList tie_list).
Proof.
  split; [apply ord_id_ok|]. split; [apply ord_rev_ok|]. split; [exact I|].
  repeat constructor; cbn; intuition discriminate.
Qed.

(* the comparisons and the extreme VALUE never depended on the order, whatever the tie-break *)
Theorem site_list_comparisons_order_independent : forall oo1 oo2 a b, ord_ok oo1 -> ord_ok oo2 ->
  list_greater_than oo1 a b = list_greater_than oo2 a b /\
  list_greater_than_or_equals oo1 a b = list_greater_than_or_equals oo2 a b /\
  list_less_than oo1 a b = list_less_than oo2 a b /\
  list_less_than_or_equals oo1 a b = list_less_than_or_equals oo2 a b.
Proof. exact list_comparisons_order_independent. Qed.
Check site_list_comparisons_order_independent : forall oo1 oo2 a b, ord_ok oo1 -> ord_ok oo2 ->
  list_greater_than oo1 a b = list_greater_than oo2 a b /\
  list_greater_than_or_equals oo1 a b = list_greater_than_or_equals oo2 a b /\
  list_less_than oo1 a b = list_less_than oo2 a b /\
  list_less_than_or_equals oo1 a b = list_less_than_or_equals oo2 a b.
Print Assumptions site_list_comparisons_order_independent.

(* what the iteration-order tie-break did (defect D18): LIST_MAX(a + x) with L.a = M.x = 1,
   LIST K = p = 1, q = 1 printed or converted from 1, LIST_RANDOM of a tie *)
Theorem iteration_tie_break_refuted :
  (exists oo1 oo2 l, ord_ok oo1 /\ ord_ok oo2 /\ get_max_item_tb oo1 TieIteration l <> get_max_item_tb oo2 TieIteration l) /\
  (exists oo1 oo2 d v, ord_ok oo1 /\ ord_ok oo2 /\ def_item_with_value_tb oo1 TieIteration d v <> def_item_with_value_tb oo2 TieIteration d v) /\
  (exists oo1 oo2 l, ord_ok oo1 /\ ord_ok oo2 /\ list_display_tb TieIteration oo1 l <> list_display_tb TieIteration oo2 l) /\
  (exists oo1 oo2 defs l n, ord_ok oo1 /\ ord_ok oo2 /\
     list_random_pick_tb oo1 TieIteration defs l n <> list_random_pick_tb oo2 TieIteration defs l n).
Proof. exact (conj get_max_item_order_refuted (conj def_item_with_value_order_refuted (conj list_display_order_refuted list_random_pick_order_refuted))). Qed.
Check iteration_tie_break_refuted :
  (exists oo1 oo2 l, ord_ok oo1 /\ ord_ok oo2 /\ get_max_item_tb oo1 TieIteration l <> get_max_item_tb oo2 TieIteration l) /\
  (exists oo1 oo2 d v, ord_ok oo1 /\ ord_ok oo2 /\ def_item_with_value_tb oo1 TieIteration d v <> def_item_with_value_tb oo2 TieIteration d v) /\
  (exists oo1 oo2 l, ord_ok oo1 /\ ord_ok oo2 /\ list_display_tb TieIteration oo1 l <> list_display_tb TieIteration oo2 l) /\
  (exists oo1 oo2 defs l n, ord_ok oo1 /\ ord_ok oo2 /\
     list_random_pick_tb oo1 TieIteration defs l n <> list_random_pick_tb oo2 TieIteration defs l n).
Print Assumptions iteration_tie_break_refuted.

(* ---------------- PART 2: the engine's map-to-map loops ---------------- *)
(* "for (k, v) in &src { dst.insert(k, v) }" — apply_patch (globals, visit counts, turn
   indices), snapshot_default_globals, load_json of the globals, write_json of maps *)
Theorem site_insert_all_order_independent : forall V (src src' dst dst' : list (text * V)),
  NoDup (map fst src) -> Permutation src src' -> assoc_equiv dst dst' ->
  assoc_equiv (insert_all src dst) (insert_all src' dst').
Proof. exact insert_all_order_independent. Qed.
Check site_insert_all_order_independent : forall V (src src' dst dst' : list (text * V)),
  NoDup (map fst src) -> Permutation src src' -> assoc_equiv dst dst' ->
  assoc_equiv (insert_all src dst) (insert_all src' dst').
Print Assumptions site_insert_all_order_independent.

Theorem site_snapshot_default_globals_order_independent : forall v v',
  NoDup (map fst (vs_globals v)) -> Permutation (vs_globals v) (vs_globals v') ->
  assoc_equiv (vs_defaults v) (vs_defaults v') ->
  assoc_equiv (vs_defaults (vs_snapshot_defaults v)) (vs_defaults (vs_snapshot_defaults v')).
Proof. exact snapshot_defaults_order_independent. Qed.
Check site_snapshot_default_globals_order_independent : forall v v',
  NoDup (map fst (vs_globals v)) -> Permutation (vs_globals v) (vs_globals v') ->
  assoc_equiv (vs_defaults v) (vs_defaults v') ->
  assoc_equiv (vs_defaults (vs_snapshot_defaults v)) (vs_defaults (vs_snapshot_defaults v')).
Print Assumptions site_snapshot_default_globals_order_independent.

Theorem site_apply_patch_order_independent : forall v v' p p',
  vs_patch v = Some p -> vs_patch v' = Some p' ->
  NoDup (map fst (pa_globals p)) -> Permutation (pa_globals p) (pa_globals p') ->
  assoc_equiv (vs_globals v) (vs_globals v') ->
  exists r r', vs_apply_patch v = Ok r /\ vs_apply_patch v' = Ok r' /\
               assoc_equiv (vs_globals r) (vs_globals r').
Proof. exact apply_patch_order_independent. Qed.
Check site_apply_patch_order_independent : forall v v' p p',
  vs_patch v = Some p -> vs_patch v' = Some p' ->
  NoDup (map fst (pa_globals p)) -> Permutation (pa_globals p) (pa_globals p') ->
  assoc_equiv (vs_globals v) (vs_globals v') ->
  exists r r', vs_apply_patch v = Ok r /\ vs_apply_patch v' = Ok r' /\
               assoc_equiv (vs_globals r) (vs_globals r').
Print Assumptions site_apply_patch_order_independent.

(* complete_variable_observation: the notification map is a function of the changed SET *)
Theorem site_variable_observation_order_independent : forall (g : list (text * value)) names names' m m',
  Permutation names names' -> assoc_equiv m m' ->
  assoc_equiv (fold_left (fun acc n => match assoc n g with Some x => assoc_set n x acc | None => acc end) names m)
              (fold_left (fun acc n => match assoc n g with Some x => assoc_set n x acc | None => acc end) names' m').
Proof. exact observation_batch_order_independent. Qed.
Check site_variable_observation_order_independent : forall (g : list (text * value)) names names' m m',
  Permutation names names' -> assoc_equiv m m' ->
  assoc_equiv (fold_left (fun acc n => match assoc n g with Some x => assoc_set n x acc | None => acc end) names m)
              (fold_left (fun acc n => match assoc n g with Some x => assoc_set n x acc | None => acc end) names' m').
Print Assumptions site_variable_observation_order_independent.

(* a map lookup never depends on the arrangement of a duplicate-free map (get_variable,
   visit_count, turn index lookups, validate_external_bindings membership) *)
Theorem site_lookup_order_independent : forall V (m m' : list (text * V)) k,
  NoDup (map fst m) -> Permutation m m' -> assoc k m = assoc k m'.
Proof. exact assoc_perm. Qed.
Check site_lookup_order_independent : forall V (m m' : list (text * V)) k,
  NoDup (map fst m) -> Permutation m m' -> assoc k m = assoc k m'.
Print Assumptions site_lookup_order_independent.
