(* Props/C17.v — resetting a story is equivalent to constructing it afresh. *)
From Ink.Engine Require Import Api Tie.
From Ink.Shell Require Import ResetProofs.
From Ink.Gen Require Import SaveGen.
From Ink.Engine Require Import Save.
From Ink.Shell Require Import HostFrame HostFrameLoad.

Theorem reset_ignores_state : forall (I : iface) (seed : Z) (w : world) (s' : sstate),
  w_async w = false ->
  reset_state I sw_now seed (w <| w_state := s' |>) = reset_state I sw_now seed w.
Proof. exact ResetProofs.reset_ignores_state. Qed.
Check reset_ignores_state : forall (I : iface) (seed : Z) (w : world) (s' : sstate),
  w_async w = false ->
  reset_state I sw_now seed (w <| w_state := s' |>) = reset_state I sw_now seed w.
Print Assumptions reset_ignores_state.

Theorem reset_is_fresh_init : forall (I : iface) (seed : Z) (w : world),
  between_calls w ->
  reset_state I sw_now seed w =
  reset_globals I sw_now (rebind w (world_init (w_story w) seed (w_fuel w))).
Proof. exact ResetProofs.reset_is_fresh_init. Qed.
Check reset_is_fresh_init : forall (I : iface) (seed : Z) (w : world),
  between_calls w ->
  reset_state I sw_now seed w =
  reset_globals I sw_now (rebind w (world_init (w_story w) seed (w_fuel w))).
Print Assumptions reset_is_fresh_init.

Theorem story_new_is_init : forall (I : iface) (st : story) (seed : Z) (fuel : N),
  st_version st = INK_VERSION_CURRENT ->
  story_new I sw_now st seed fuel =
  (let (o, w') := reset_globals I sw_now (world_init st seed fuel) in
   match o with OOk _ => (OOk tt, w') | OErr k e => (OErr k e, w') | OPanic s => (OPanic s, w') end).
Proof. exact ResetProofs.story_new_is_init. Qed.
Check story_new_is_init : forall (I : iface) (st : story) (seed : Z) (fuel : N),
  st_version st = INK_VERSION_CURRENT ->
  story_new I sw_now st seed fuel =
  (let (o, w') := reset_globals I sw_now (world_init st seed fuel) in
   match o with OOk _ => (OOk tt, w') | OErr k e => (OErr k e, w') | OPanic s => (OPanic s, w') end).
Print Assumptions story_new_is_init.

(* ---------------- the host's registrations stay in place ---------------- *)
(* observers, external bindings, the error handler, the fallbacks flag and the program are changed
   by no story operation (continue in all forms, choose, jump, evaluate, set a variable, switch /
   remove flows, RESET) and by no load, however the call ends — for the whole engine model *)
Theorem registrations_survive_story_operations :
  forall (I : iface) (sw : switches) (ops : list story_op) (w : world),
    host_regs (run_story_ops I sw ops w) = host_regs w.
Proof. exact HostFrame.registrations_survive. Qed.
Check registrations_survive_story_operations :
  forall (I : iface) (sw : switches) (ops : list story_op) (w : world),
    host_regs (run_story_ops I sw ops w) = host_regs w.
Print Assumptions registrations_survive_story_operations.

Theorem registrations_survive_load :
  forall (sp : ssite -> bool) (ssw : save_switches) (w : world) (j : json),
    host_regs (snd (load_state sp ssw w j)) = host_regs w.
Proof. exact HostFrameLoad.load_keeps_registrations. Qed.
Check registrations_survive_load :
  forall (sp : ssite -> bool) (ssw : save_switches) (w : world) (j : json),
    host_regs (snd (load_state sp ssw w j)) = host_regs w.
Print Assumptions registrations_survive_load.
