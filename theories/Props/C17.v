(* Props/C17.v — resetting a story is equivalent to constructing it afresh. *)
From Ink.Engine Require Import Api Tie.
From Ink.Shell Require Import ResetProofs.
From Ink.Gen Require Import SaveGen.
From Ink.Engine Require Import Save.
From Ink.Shell Require Import HostFrame HostFrameLoad.
From Ink.Engine Require Import Api Tie.
From Ink.Shell Require Import HostFrame Balance BetweenCalls ResetProofs.

Theorem reset_ignores_state : forall (I : iface) (seed : Z) (w : world) (s' : sstate),
  w_async w = false ->
  reset_state I sw_now seed (w <| w_state := s' |>) = reset_state I sw_now seed w.
Proof. exact ResetProofs.reset_ignores_state. Qed.
Check reset_ignores_state : forall (I : iface) (seed : Z) (w : world) (s' : sstate),
  w_async w = false ->
  reset_state I sw_now seed (w <| w_state := s' |>) = reset_state I sw_now seed w.
Print Assumptions reset_ignores_state.

Theorem reset_is_fresh_init : forall (I : iface) (seed : Z) (w : world),
  between_calls w ->
  reset_state I sw_now seed w =
  reset_globals I sw_now (rebind w (world_init (w_story w) seed (w_fuel w))).
Proof. exact ResetProofs.reset_is_fresh_init. Qed.
Check reset_is_fresh_init : forall (I : iface) (seed : Z) (w : world),
  between_calls w ->
  reset_state I sw_now seed w =
  reset_globals I sw_now (rebind w (world_init (w_story w) seed (w_fuel w))).
Print Assumptions reset_is_fresh_init.

Theorem story_new_is_init : forall (I : iface) (st : story) (seed : Z) (fuel : N),
  st_version st = INK_VERSION_CURRENT ->
  story_new I sw_now st seed fuel =
  (let (o, w') := reset_globals I sw_now (world_init st seed fuel) in
   match o with OOk _ => (OOk tt, w') | OErr k e => (OErr k e, w') | OPanic s => (OPanic s, w') end).
Proof. exact ResetProofs.story_new_is_init. Qed.
Check story_new_is_init : forall (I : iface) (st : story) (seed : Z) (fuel : N),
  st_version st = INK_VERSION_CURRENT ->
  story_new I sw_now st seed fuel =
  (let (o, w') := reset_globals I sw_now (world_init st seed fuel) in
   match o with OOk _ => (OOk tt, w') | OErr k e => (OErr k e, w') | OPanic s => (OPanic s, w') end).
Print Assumptions story_new_is_init.

(* ---------------- the host's registrations stay in place ---------------- *)
(* observers, external bindings, the error handler, the fallbacks flag and the program are changed
   by no story operation (continue in all forms, choose, jump, evaluate, set a variable, switch /
   remove flows, RESET) and by no load, however the call ends — for the whole engine model *)
Theorem registrations_survive_story_operations :
  forall (I : iface) (sw : switches) (ops : list story_op) (w : world),
    host_regs (run_story_ops I sw ops w) = host_regs w.
Proof. exact HostFrame.registrations_survive. Qed.
Check registrations_survive_story_operations :
  forall (I : iface) (sw : switches) (ops : list story_op) (w : world),
    host_regs (run_story_ops I sw ops w) = host_regs w.
Print Assumptions registrations_survive_story_operations.

Theorem registrations_survive_load :
  forall (sp : ssite -> bool) (ssw : save_switches) (w : world) (j : json),
    host_regs (snd (load_state sp ssw w j)) = host_regs w.
Proof. exact HostFrameLoad.load_keeps_registrations. Qed.
Check registrations_survive_load :
  forall (sp : ssite -> bool) (ssw : save_switches) (w : world) (j : json),
    host_regs (snd (load_state sp ssw w j)) = host_regs w.
Print Assumptions registrations_survive_load.

(* ---------------- the bookkeeping invariant between host calls ---------------- *)
(* Inv w := nesting counter = 0 /\ (no time-limited continue pending -> no look-ahead snapshot /\
   rewind flag clear).  It holds for a freshly constructed story and is preserved by every story
   operation (all forms of continue, choose, jump, evaluate, set a variable, flow operations,
   reset) that does not end in a panic — whether the call returns Ok or Err.  The code fact it rests
   on is regenerated: continue_internal tests can_continue before touching the counters
   (now_cont_check_first) and decrements it before the error-delivery block (now_counter_dec_first).  Counter leaks (defect e98ca2b, seeded change C04) falsify it. *)
Theorem bookkeeping_invariant :
  forall (I : iface) (ops : list story_op) (w : world),
    Inv w -> no_panic I sw_now ops w -> Inv (run_story_ops I sw_now ops w).
Proof. exact (fun I => BetweenCalls.invariant_preserved I sw_now now_cont_check_first now_counter_dec_first). Qed.
Check bookkeeping_invariant :
  forall (I : iface) (ops : list story_op) (w : world),
    Inv w -> no_panic I sw_now ops w -> Inv (run_story_ops I sw_now ops w).
Print Assumptions bookkeeping_invariant.

Theorem between_calls_in_every_reachable_world :
  forall (I : iface) (ops : list story_op) (w : world),
    Inv w -> no_panic I sw_now ops w ->
    w_async (run_story_ops I sw_now ops w) = false ->
    between_calls (run_story_ops I sw_now ops w).
Proof. exact (fun I => BetweenCalls.between_calls_reachable I sw_now now_cont_check_first now_counter_dec_first). Qed.
Check between_calls_in_every_reachable_world :
  forall (I : iface) (ops : list story_op) (w : world),
    Inv w -> no_panic I sw_now ops w ->
    w_async (run_story_ops I sw_now ops w) = false ->
    between_calls (run_story_ops I sw_now ops w).
Print Assumptions between_calls_in_every_reachable_world.

Example fresh_world_satisfies_invariant : forall st seed fuel, Inv (world_init st seed fuel).
Proof. exact BetweenCalls.inv_world_init. Qed.

(* the property's statement for every reachable world: after ANY history of story operations from
   construction (none of which panicked), with no time-limited continue pending, reset is the
   constructor's initialisation on a blank world with the host's bindings in place *)
Theorem reset_is_fresh_after_any_history :
  forall (I : iface) (ops : list story_op) (st : story) (seed0 : Z) (fuel0 : N) (seed : Z),
    no_panic I sw_now ops (world_init st seed0 fuel0) ->
    w_async (run_story_ops I sw_now ops (world_init st seed0 fuel0)) = false ->
    reset_state I sw_now seed (run_story_ops I sw_now ops (world_init st seed0 fuel0)) =
    reset_globals I sw_now
      (rebind (run_story_ops I sw_now ops (world_init st seed0 fuel0))
              (world_init (w_story (run_story_ops I sw_now ops (world_init st seed0 fuel0))) seed
                          (w_fuel (run_story_ops I sw_now ops (world_init st seed0 fuel0))))).
Proof.
  exact (fun I ops st seed0 fuel0 seed Hnp Ha =>
           ResetProofs.reset_is_fresh_init I seed _
             (BetweenCalls.between_calls_reachable I sw_now now_cont_check_first now_counter_dec_first ops _
                (BetweenCalls.inv_world_init st seed0 fuel0) Hnp Ha)).
Qed.
Check reset_is_fresh_after_any_history :
  forall (I : iface) (ops : list story_op) (st : story) (seed0 : Z) (fuel0 : N) (seed : Z),
    no_panic I sw_now ops (world_init st seed0 fuel0) ->
    w_async (run_story_ops I sw_now ops (world_init st seed0 fuel0)) = false ->
    reset_state I sw_now seed (run_story_ops I sw_now ops (world_init st seed0 fuel0)) =
    reset_globals I sw_now
      (rebind (run_story_ops I sw_now ops (world_init st seed0 fuel0))
              (world_init (w_story (run_story_ops I sw_now ops (world_init st seed0 fuel0))) seed
                          (w_fuel (run_story_ops I sw_now ops (world_init st seed0 fuel0))))).
Print Assumptions reset_is_fresh_after_any_history.

(* ---------------- "Jumping to a path with a call-stack reset keeps variables ... but abandons all tunnels,
   threads and functions" ----------------
   choose_path_string leaves the VariablesState exactly as it was, however it ends; with reset_callstack = true,
   when it returns Ok the call stack is ONE thread holding ONE element. *)
From Ink.Shell Require Import VarsKept FramesKept PathJump.
Theorem path_jump_keeps_variables :
  forall (I : iface) (sw : switches) (p : text) (reset_cs : bool) (args : list value) (w : world),
    ss_vars (w_state (snd (choose_path_string I sw p reset_cs args w))) = ss_vars (w_state w).
Proof. exact PathJump.path_jump_keeps_variables. Qed.
Check path_jump_keeps_variables :
  forall (I : iface) (sw : switches) (p : text) (reset_cs : bool) (args : list value) (w : world),
    ss_vars (w_state (snd (choose_path_string I sw p reset_cs args w))) = ss_vars (w_state w).
Print Assumptions path_jump_keeps_variables.

Theorem path_jump_with_reset_abandons_all_frames :
  forall (I : iface) (sw : switches) (p : text) (args : list value) (w w' : world),
    choose_path_string I sw p true args w = (OOk tt, w') ->
    (exists t e, cs_threads (ss_cs (w_state w')) = [t] /\ th_cs t = [e])
    /\ ss_vars (w_state w') = ss_vars (w_state w).
Proof. exact PathJump.path_jump_reset_statement. Qed.
Check path_jump_with_reset_abandons_all_frames :
  forall (I : iface) (sw : switches) (p : text) (args : list value) (w w' : world),
    choose_path_string I sw p true args w = (OOk tt, w') ->
    (exists t e, cs_threads (ss_cs (w_state w')) = [t] /\ th_cs t = [e])
    /\ ss_vars (w_state w') = ss_vars (w_state w).
Print Assumptions path_jump_with_reset_abandons_all_frames.

(* T-gen tie of registrations_survive_*: in the Rust sources the observers, external bindings, error handler and
   fallbacks flag are written by the registration calls only — regenerated from the sources on every run *)
From Ink.Gen Require Import EngineGen.
From Ink.Shell Require Import StructureTie.
Theorem registrations_are_written_by_registration_calls_only : registrations_written_by_registration_calls = true.
Proof. exact StructureTie.now_registrations_written_by_registration_calls. Qed.
Check registrations_are_written_by_registration_calls_only : registrations_written_by_registration_calls = true.
Print Assumptions registrations_are_written_by_registration_calls_only.

(* T-gen tie of reset_ignores_state: Story::reset_state replaces the StoryState without reading the old one and then
   runs reset_globals — regenerated from the sources on every run *)
Theorem reset_state_replaces_the_state : reset_replaces_state = true.
Proof. exact StructureTie.now_reset_replaces_state. Qed.
Check reset_state_replaces_the_state : reset_replaces_state = true.
Print Assumptions reset_state_replaces_the_state.
