(* C05 — the Rust compiler agrees with the reference compiler on the corpus.
   The quantifier is finite (the translated pairs of conformance-tests/inkfiles,
   regenerated together with the output of the current compiler on every run),
   so each statement below is decided by computation inside Coq; the bound
   (choice depth <= corpus_depth = 3, at most corpus_budget = 60 nodes per story,
   seed 42, constant-0 RNG oracle shared by both stories) is part of the statement
   through Spec/CorpusEq.v.  pair_verdict known p = "p is listed in known_findings.json
   and diverges, or is not listed and agrees". *)
From Coq Require Import List.
From Ink.Spec Require Import CorpusEq CorpusAll CorpusEqProofs.
From Ink.Gen Require Import CorpusIndex.
From Ink.Gen Require Import CorpusCheck_0 CorpusCheck_1 CorpusCheck_2 CorpusCheck_3 CorpusCheck_4
     CorpusCheck_5 CorpusCheck_6 CorpusCheck_7 CorpusCheck_8 CorpusCheck_9 CorpusCheck_10
     CorpusCheck_11 CorpusCheck_12 CorpusCheck_13 CorpusCheck_14 CorpusCheck_15.
From Ink.Gen Require Import Corpus_0 Corpus_1 Corpus_2 Corpus_3 Corpus_4 Corpus_5 Corpus_6 Corpus_7
     Corpus_8 Corpus_9 Corpus_10 Corpus_11 Corpus_12 Corpus_13 Corpus_14 Corpus_15.

Theorem corpus_equiv_0 : forallb (pair_verdict known_divergent) pairs_0 = true. Proof. exact corpus_check_0. Qed.
Check corpus_equiv_0 : forallb (pair_verdict known_divergent) pairs_0 = true.
Print Assumptions corpus_equiv_0.
Theorem corpus_equiv_1 : forallb (pair_verdict known_divergent) pairs_1 = true. Proof. exact corpus_check_1. Qed.
Check corpus_equiv_1 : forallb (pair_verdict known_divergent) pairs_1 = true.
Print Assumptions corpus_equiv_1.
Theorem corpus_equiv_2 : forallb (pair_verdict known_divergent) pairs_2 = true. Proof. exact corpus_check_2. Qed.
Check corpus_equiv_2 : forallb (pair_verdict known_divergent) pairs_2 = true.
Print Assumptions corpus_equiv_2.
Theorem corpus_equiv_3 : forallb (pair_verdict known_divergent) pairs_3 = true. Proof. exact corpus_check_3. Qed.
Check corpus_equiv_3 : forallb (pair_verdict known_divergent) pairs_3 = true.
Print Assumptions corpus_equiv_3.
Theorem corpus_equiv_4 : forallb (pair_verdict known_divergent) pairs_4 = true. Proof. exact corpus_check_4. Qed.
Check corpus_equiv_4 : forallb (pair_verdict known_divergent) pairs_4 = true.
Print Assumptions corpus_equiv_4.
Theorem corpus_equiv_5 : forallb (pair_verdict known_divergent) pairs_5 = true. Proof. exact corpus_check_5. Qed.
Check corpus_equiv_5 : forallb (pair_verdict known_divergent) pairs_5 = true.
Print Assumptions corpus_equiv_5.
Theorem corpus_equiv_6 : forallb (pair_verdict known_divergent) pairs_6 = true. Proof. exact corpus_check_6. Qed.
Check corpus_equiv_6 : forallb (pair_verdict known_divergent) pairs_6 = true.
Print Assumptions corpus_equiv_6.
Theorem corpus_equiv_7 : forallb (pair_verdict known_divergent) pairs_7 = true. Proof. exact corpus_check_7. Qed.
Check corpus_equiv_7 : forallb (pair_verdict known_divergent) pairs_7 = true.
Print Assumptions corpus_equiv_7.
Theorem corpus_equiv_8 : forallb (pair_verdict known_divergent) pairs_8 = true. Proof. exact corpus_check_8. Qed.
Check corpus_equiv_8 : forallb (pair_verdict known_divergent) pairs_8 = true.
Print Assumptions corpus_equiv_8.
Theorem corpus_equiv_9 : forallb (pair_verdict known_divergent) pairs_9 = true. Proof. exact corpus_check_9. Qed.
Check corpus_equiv_9 : forallb (pair_verdict known_divergent) pairs_9 = true.
Print Assumptions corpus_equiv_9.
Theorem corpus_equiv_10 : forallb (pair_verdict known_divergent) pairs_10 = true. Proof. exact corpus_check_10. Qed.
Check corpus_equiv_10 : forallb (pair_verdict known_divergent) pairs_10 = true.
Print Assumptions corpus_equiv_10.
Theorem corpus_equiv_11 : forallb (pair_verdict known_divergent) pairs_11 = true. Proof. exact corpus_check_11. Qed.
Check corpus_equiv_11 : forallb (pair_verdict known_divergent) pairs_11 = true.
Print Assumptions corpus_equiv_11.
Theorem corpus_equiv_12 : forallb (pair_verdict known_divergent) pairs_12 = true. Proof. exact corpus_check_12. Qed.
Check corpus_equiv_12 : forallb (pair_verdict known_divergent) pairs_12 = true.
Print Assumptions corpus_equiv_12.
Theorem corpus_equiv_13 : forallb (pair_verdict known_divergent) pairs_13 = true. Proof. exact corpus_check_13. Qed.
Check corpus_equiv_13 : forallb (pair_verdict known_divergent) pairs_13 = true.
Print Assumptions corpus_equiv_13.
Theorem corpus_equiv_14 : forallb (pair_verdict known_divergent) pairs_14 = true. Proof. exact corpus_check_14. Qed.
Check corpus_equiv_14 : forallb (pair_verdict known_divergent) pairs_14 = true.
Print Assumptions corpus_equiv_14.
Theorem corpus_equiv_15 : forallb (pair_verdict known_divergent) pairs_15 = true. Proof. exact corpus_check_15. Qed.
Check corpus_equiv_15 : forallb (pair_verdict known_divergent) pairs_15 = true.
Print Assumptions corpus_equiv_15.

(* the conjunction, as the property states it: every translated pair that is not a listed
   finding has equal exploration transcripts (lines, tags, choices, end status, globals) *)
Theorem corpus_equiv :
  forall p, In p all_pairs -> mem_text (cp_name p) known_divergent = false ->
  transcripts_equal_upto gen_switches corpus_depth corpus_budget (snd (fst p)) (snd p) = true.
Proof. exact corpus_equiv_all. Qed.
Check corpus_equiv :
  forall p, In p all_pairs -> mem_text (cp_name p) known_divergent = false ->
  transcripts_equal_upto gen_switches corpus_depth corpus_budget (snd (fst p)) (snd p) = true.
Print Assumptions corpus_equiv.

Theorem corpus_equiv_satisfiable :
  exists p, In p all_pairs /\ mem_text (cp_name p) known_divergent = false.
Proof. exact corpus_has_unlisted_pair. Qed.
Check corpus_equiv_satisfiable : exists p, In p all_pairs /\ mem_text (cp_name p) known_divergent = false.
Print Assumptions corpus_equiv_satisfiable.

(* the listed findings are real: each listed pair diverges within the same bound *)
Theorem corpus_known_findings_refuted :
  forall p, In p all_pairs -> mem_text (cp_name p) known_divergent = true ->
  transcripts_equal_upto gen_switches corpus_depth corpus_budget (snd (fst p)) (snd p) = false.
Proof. exact corpus_known_divergent_refuted. Qed.
Check corpus_known_findings_refuted :
  forall p, In p all_pairs -> mem_text (cp_name p) known_divergent = true ->
  transcripts_equal_upto gen_switches corpus_depth corpus_budget (snd (fst p)) (snd p) = false.
Print Assumptions corpus_known_findings_refuted.
