(* Props/C19.v — every piece of content is addressable by its own path.
   Only statements, `exact`, Check and Print Assumptions. *)
From Ink.Data Require Import Types Path PathProofs PathTie.
From Ink.Gen Require Import PathGen.

(* (1) text round trip: printing a path built from well-formed components and
   parsing it back gives an equal path; relative stays relative. *)
Theorem path_text_roundtrip :
  forall cs rel, Forall wf_comp cs -> (cs <> [] \/ rel = false) ->
    path_eqb (path_of_string (Some (path_string (path_new cs rel)))) (path_new cs rel) = true
    /\ p_rel (path_of_string (Some (path_string (path_new cs rel)))) = rel.
Proof. exact path_text_roundtrip_lemma. Qed.
Check path_text_roundtrip :
  forall cs rel, Forall wf_comp cs -> (cs <> [] \/ rel = false) ->
    path_eqb (path_of_string (Some (path_string (path_new cs rel)))) (path_new cs rel) = true
    /\ p_rel (path_of_string (Some (path_string (path_new cs rel)))) = rel.
Print Assumptions path_text_roundtrip.

(* (2) equal paths feed the hasher the same input (Hash agrees with Eq), for
   every pair of paths that come from parsing text or from components. *)
Theorem eq_implies_same_hash_parsed :
  forall s1 s2, path_eqb (path_of_string s1) (path_of_string s2) = true ->
    path_hash_input (path_of_string s1) = path_hash_input (path_of_string s2).
Proof. exact eq_implies_same_hash_parsed_lemma. Qed.
Check eq_implies_same_hash_parsed :
  forall s1 s2, path_eqb (path_of_string s1) (path_of_string s2) = true ->
    path_hash_input (path_of_string s1) = path_hash_input (path_of_string s2).
Print Assumptions eq_implies_same_hash_parsed.

Theorem eq_implies_same_hash_mixed :
  forall s cs rel, path_eqb (path_of_string s) (path_new cs rel) = true ->
    path_hash_input (path_of_string s) = path_hash_input (path_new cs rel).
Proof. exact eq_implies_same_hash_mixed_lemma. Qed.
Check eq_implies_same_hash_mixed :
  forall s cs rel, path_eqb (path_of_string s) (path_new cs rel) = true ->
    path_hash_input (path_of_string s) = path_hash_input (path_new cs rel).
Print Assumptions eq_implies_same_hash_mixed.

(* non-vacuity: a relative path with a parent step and an index *)
Example roundtrip_example :
  Forall wf_comp [CName [c_caret]; CName (T "knot"); CIdx 3] /\
  path_string (path_new [CName [c_caret]; CName (T "knot"); CIdx 3] true) = T ".^.knot.3".
Proof. split; [|reflexivity]. repeat constructor; cbn; try discriminate; intuition discriminate. Qed.
