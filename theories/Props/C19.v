(* Props/C19.v — every piece of content is addressable by its own path.
   Only statements, `exact`, Check and Print Assumptions. *)
From Ink.Data Require Import Types Path PathProofs PathTie.
From Ink.Gen Require Import PathGen.

(* (1) text round trip: printing a path built from well-formed components and
   parsing it back gives an equal path; relative stays relative. *)
Theorem path_text_roundtrip :
  forall cs rel, Forall wf_comp cs -> (cs <> [] \/ rel = false) ->
    path_eqb (path_of_string (Some (path_string (path_new cs rel)))) (path_new cs rel) = true
    /\ p_rel (path_of_string (Some (path_string (path_new cs rel)))) = rel.
Proof. exact path_text_roundtrip_lemma. Qed.
Check path_text_roundtrip :
  forall cs rel, Forall wf_comp cs -> (cs <> [] \/ rel = false) ->
    path_eqb (path_of_string (Some (path_string (path_new cs rel)))) (path_new cs rel) = true
    /\ p_rel (path_of_string (Some (path_string (path_new cs rel)))) = rel.
Print Assumptions path_text_roundtrip.

(* (2) equal paths feed the hasher the same input (Hash agrees with Eq), for
   every pair of paths that come from parsing text or from components. *)
Theorem eq_implies_same_hash_parsed :
  forall s1 s2, path_eqb (path_of_string s1) (path_of_string s2) = true ->
    path_hash_input (path_of_string s1) = path_hash_input (path_of_string s2).
Proof. exact eq_implies_same_hash_parsed_lemma. Qed.
Check eq_implies_same_hash_parsed :
  forall s1 s2, path_eqb (path_of_string s1) (path_of_string s2) = true ->
    path_hash_input (path_of_string s1) = path_hash_input (path_of_string s2).
Print Assumptions eq_implies_same_hash_parsed.

Theorem eq_implies_same_hash_mixed :
  forall s cs rel, path_eqb (path_of_string s) (path_new cs rel) = true ->
    path_hash_input (path_of_string s) = path_hash_input (path_new cs rel).
Proof. exact eq_implies_same_hash_mixed_lemma. Qed.
Check eq_implies_same_hash_mixed :
  forall s cs rel, path_eqb (path_of_string s) (path_new cs rel) = true ->
    path_hash_input (path_of_string s) = path_hash_input (path_new cs rel).
Print Assumptions eq_implies_same_hash_mixed.

(* non-vacuity: a relative path with a parent step and an index *)
Example roundtrip_example :
  Forall wf_comp [CName [c_caret]; CName (T "knot"); CIdx 3] /\
  path_string (path_new [CName [c_caret]; CName (T "knot"); CIdx 3] true) = T ".^.knot.3".
Proof. split; [|reflexivity]. repeat constructor; cbn; try discriminate; intuition discriminate. Qed.

(* ======================================================================
   Tree level (worker `loader`; lemmas in Data/TreeProofs.v, predicate in
   Data/Tree.v).  [wf_tree] is executable and is evaluated on every corpus
   story by tools/props/c19_tree.py, which also diffs the model's audit listing
   (Json/AuditRun.v) with the content-audit hook of the implementation.
   ====================================================================== *)
From Ink.Data Require Import Tree TreeProofs.

(* (3) every object's own path resolves, from the root, back to that very
   object, without approximation *)
Theorem path_resolves_to_self :
  forall root p, wf_tree root = true -> valid_pos root p ->
    exists path, get_path root p = Ok path
      /\ content_at_path root path = {| sr_pos := p; sr_approx := false |}.
Proof. exact path_resolves_to_self_lemma. Qed.
Check path_resolves_to_self :
  forall root p, wf_tree root = true -> valid_pos root p ->
    exists path, get_path root p = Ok path
      /\ content_at_path root path = {| sr_pos := p; sr_approx := false |}.
Print Assumptions path_resolves_to_self.

(* (4) the reported path is absolute and made of well-formed components ... *)
Theorem get_path_wf :
  forall root p path, wf_tree root = true -> valid_pos root p -> get_path root p = Ok path ->
    Forall wf_comp (p_comps path) /\ p_rel path = false.
Proof. exact get_path_wf_lemma. Qed.
Check get_path_wf :
  forall root p path, wf_tree root = true -> valid_pos root p -> get_path root p = Ok path ->
    Forall wf_comp (p_comps path) /\ p_rel path = false.
Print Assumptions get_path_wf.

(* ... hence converting it to text and parsing it back gives an equal, absolute path *)
Theorem own_path_text_roundtrip :
  forall root p path, wf_tree root = true -> valid_pos root p -> get_path root p = Ok path ->
    path_eqb (path_of_string (Some (path_string path))) path = true
    /\ p_rel (path_of_string (Some (path_string path))) = false.
Proof. exact own_path_text_roundtrip_lemma. Qed.
Check own_path_text_roundtrip :
  forall root p path, wf_tree root = true -> valid_pos root p -> get_path root p = Ok path ->
    path_eqb (path_of_string (Some (path_string path))) path = true
    /\ p_rel (path_of_string (Some (path_string path))) = false.
Print Assumptions own_path_text_roundtrip.

(* (5) a position written into a save or a choice — container path plus index —
   denotes the same position when read back (Pointer::get_path, Story::pointer_at_path) *)
Theorem pointer_roundtrip :
  forall root cp c i, wf_tree root = true -> cont_at root cp = Some c -> (0 <= i <= i32_max)%Z ->
    exists path, ptr_path root (mkPtr (Some cp) i) = Ok (Some path)
              /\ pointer_at_path root path = Ok (mkPtr (Some cp) i).
Proof. exact pointer_roundtrip_lemma. Qed.
Check pointer_roundtrip :
  forall root cp c i, wf_tree root = true -> cont_at root cp = Some c -> (0 <= i <= i32_max)%Z ->
    exists path, ptr_path root (mkPtr (Some cp) i) = Ok (Some path)
              /\ pointer_at_path root path = Ok (mkPtr (Some cp) i).
Print Assumptions pointer_roundtrip.

(* non-vacuity: a concrete tree with a named knot, an unnamed nested container,
   a labelled gather and named-only content satisfies wf_tree; and the
   hypothesis is needed: with two content children registered under one name
   the first one's own path resolves to the second *)
Theorem wf_tree_example : wf_tree ex_root = true /\ valid_pos ex_root [SI 0; SN (T "stitch"); SI 1].
Proof. exact (conj ex_root_wf (proj1 ex_named_only_resolves)). Qed.
Print Assumptions wf_tree_example.

Theorem wf_tree_needed :
  wf_tree ex_clash = false
  /\ get_path ex_clash [SI 0] = Ok (path_new [CName (T "a")] false)
  /\ content_at_path ex_clash (path_new [CName (T "a")] false) = mkSR [SI 1] false.
Proof. exact (conj ex_clash_not_wf ex_clash_resolves_elsewhere). Qed.
Print Assumptions wf_tree_needed.

(* (6) relative addressing: the relative path convert_path_to_relative computes
   from an object to an absolute target resolves, from that object, to exactly
   what the absolute path resolves to from the root (approximation included).
   Side condition: the object is a container, or the target does not lie at /
   below the (non-container) object itself — Path::get_tail turns the empty
   relative path of a non-container into "its parent" (see wf report). *)
From Ink.Data Require Import TreeRelProofs.
Theorem relative_resolves :
  forall root pos o own target,
    wf_tree root = true -> obj_at root pos = Some o -> get_path root pos = Ok own -> p_rel target = false ->
    (is_cont_obj o = true
     \/ (shared_prefix_len (p_comps own) (p_comps target) < length (p_comps own))%nat) ->
    resolve_path root pos (convert_path_to_relative own target) = Ok (content_at_path root target).
Proof. exact relative_resolves_lemma. Qed.
Check relative_resolves :
  forall root pos o own target,
    wf_tree root = true -> obj_at root pos = Some o -> get_path root pos = Ok own -> p_rel target = false ->
    (is_cont_obj o = true
     \/ (shared_prefix_len (p_comps own) (p_comps target) < length (p_comps own))%nat) ->
    resolve_path root pos (convert_path_to_relative own target) = Ok (content_at_path root target).
Print Assumptions relative_resolves.

(* (7) compact_path_string picks a string that, parsed back and resolved from
   the object, denotes the same content as the absolute target *)
Theorem compact_path_sound :
  forall root pos o own target s,
    wf_tree root = true -> obj_at root pos = Some o -> get_path root pos = Ok own ->
    p_rel target = false -> p_cache target = None -> Forall wf_comp (p_comps target) ->
    (is_cont_obj o = true
     \/ (shared_prefix_len (p_comps own) (p_comps target) < length (p_comps own))%nat) ->
    p_comps (convert_path_to_relative own target) <> [] ->
    compact_path_string own target = Ok s ->
    resolve_path root pos (path_of_string (Some s)) = Ok (content_at_path root target).
Proof. exact compact_path_sound_lemma. Qed.
Check compact_path_sound :
  forall root pos o own target s,
    wf_tree root = true -> obj_at root pos = Some o -> get_path root pos = Ok own ->
    p_rel target = false -> p_cache target = None -> Forall wf_comp (p_comps target) ->
    (is_cont_obj o = true
     \/ (shared_prefix_len (p_comps own) (p_comps target) < length (p_comps own))%nat) ->
    p_comps (convert_path_to_relative own target) <> [] ->
    compact_path_string own target = Ok s ->
    resolve_path root pos (path_of_string (Some s)) = Ok (content_at_path root target).
Print Assumptions compact_path_sound.

Theorem relative_example :
  resolve_path ex_root [SI 0; SN (T "stitch"); SI 0]
     (convert_path_to_relative (path_new [CName (T "knot"); CName (T "stitch"); CIdx 0] false)
                               (path_new [CName (T "knot"); CName (T "g-0")] false))
  = Ok (mkSR [SI 0; SI 2] false)
  /\ path_string (convert_path_to_relative (path_new [CName (T "knot"); CName (T "stitch"); CIdx 0] false)
                                          (path_new [CName (T "knot"); CName (T "g-0")] false))
     = T ".^.^.g-0".
Proof. exact ex_relative. Qed.
Print Assumptions relative_example.

(* (8) a pointer AT a container (index -1, e.g. what pointer_at_path yields for a
   named path): its path reads back as a pointer that resolves to the same
   container — the same pointer when the container is named, (parent, index)
   when it is not.  The root is excluded: its empty path reads back as the null pointer. *)
Theorem pointer_at_container_roundtrip :
  forall root cp c,
    wf_tree root = true -> cont_at root cp = Some c -> cp <> [] -> small_last cp ->
    exists path ptr', ptr_path root (mkPtr (Some cp) (-1)) = Ok (Some path)
                   /\ pointer_at_path root path = Ok ptr'
                   /\ ptr_resolve root ptr' = Some cp
                   /\ ptr_resolve root (mkPtr (Some cp) (-1)) = Some cp.
Proof. exact pointer_at_container_roundtrip_lemma. Qed.
Check pointer_at_container_roundtrip :
  forall root cp c,
    wf_tree root = true -> cont_at root cp = Some c -> cp <> [] -> small_last cp ->
    exists path ptr', ptr_path root (mkPtr (Some cp) (-1)) = Ok (Some path)
                   /\ pointer_at_path root path = Ok ptr'
                   /\ ptr_resolve root ptr' = Some cp
                   /\ ptr_resolve root (mkPtr (Some cp) (-1)) = Some cp.
Print Assumptions pointer_at_container_roundtrip.
