(* Props/C14.v — both story loaders build the same story: the JSON text layer.
   Only statements, `exact`, Check and Print Assumptions.

   Covered here (all about Json/Tokenizer.v = model of json_tokenizer.rs and
   Json/JsonStd.v = RFC 8259 / serde_json):
     strings      tokenizer_string_eq_std (+ _position), re-proved against the
                  regenerated escape arms (Json/TokTie.v)
     white space  tokenizer_ws_eq_std
     integers     int_literal_eq; neg_zero_refuted; int_out_of_range_refuted
     classification  object_classification_eq (+ _key_order_refuted): the key tests of
                  both loaders' jtoken_to_runtime_object, regenerated (Json/ClassifyTie.v)
   NOT proved (stated in DESIGN.md section 6, C14):
     loaders_agree_partial — needs Json/StreamLoad.v (construction of the objects after
       classification); covered by the two-build differential of tools/props/c14.py;
     non-integer literals: decimal->f32 (tokenizer) vs decimal->f64->f32
       (serde_json) is an oracle on both sides; double rounding is not excluded. *)
From Ink.Data Require Import Types.
From Ink.Json Require Import JsonStd JsonStdProofs TokenizerCore Tokenizer TokenizerProofs TokTie.
From Ink.Json Require Import Classify ClassifyProofs ClassifyTie.

(* (1) every valid string literal is decoded as RFC 8259 says *)
Theorem tokenizer_string_eq_std :
  forall body, json_string_body body ->
    Tokenizer.read_string_text (quote body) = JsonStd.unescape body.
Proof. exact (read_string_text_valid tok_act tok_table_complete). Qed.
Check tokenizer_string_eq_std :
  forall body, json_string_body body ->
    Tokenizer.read_string_text (quote body) = JsonStd.unescape body.
Print Assumptions tokenizer_string_eq_std.

(* ... and the tokenizer is left just after the closing quote, skipping white space again *)
Theorem tokenizer_string_position :
  forall body s rest, JsonStd.unescape body = Some s ->
    Tokenizer.read_string (tok_new (quote body ++ rest)) = (IOk s, mkTok rest None true).
Proof. exact (read_string_valid tok_act tok_table_complete). Qed.
Check tokenizer_string_position :
  forall body s rest, JsonStd.unescape body = Some s ->
    Tokenizer.read_string (tok_new (quote body ++ rest)) = (IOk s, mkTok rest None true).
Print Assumptions tokenizer_string_position.

(* the same statement is refuted by whatever arms are incomplete *)
Theorem tokenizer_string_eq_std_refuted :
  forall act, act_complete act = false ->
    json_string_body (act_witness act) /\
    read_string_text_gen act (quote (act_witness act)) <> JsonStd.unescape (act_witness act).
Proof. exact act_incomplete_witness. Qed.
Check tokenizer_string_eq_std_refuted :
  forall act, act_complete act = false ->
    json_string_body (act_witness act) /\
    read_string_text_gen act (quote (act_witness act)) <> JsonStd.unescape (act_witness act).
Print Assumptions tokenizer_string_eq_std_refuted.

(* what serde_json prints is a valid body, so (1) applies to every document
   written by serde_json (this compiler, save files) *)
Theorem serde_output_is_string_body : forall s, json_string_body (serde_escape s).
Proof. exact json_string_body_serde. Qed.
Check serde_output_is_string_body : forall s, json_string_body (serde_escape s).
Print Assumptions serde_output_is_string_body.

(* (2) white space: on RFC 8259 white space both readers skip the same characters *)
Theorem tokenizer_ws_eq_std :
  forall w c r, all_json_ws w -> is_unicode_ws c = false ->
    TokenizerCore.read (tok_new (w ++ c :: r)) = (IOk c, mkTok r None true)
    /\ JsonStd.skip_ws (w ++ c :: r) = c :: r.
Proof. exact ws_eq_std_lemma. Qed.
Check tokenizer_ws_eq_std :
  forall w c r, all_json_ws w -> is_unicode_ws c = false ->
    TokenizerCore.read (tok_new (w ++ c :: r)) = (IOk c, mkTok r None true)
    /\ JsonStd.skip_ws (w ++ c :: r) = c :: r.
Print Assumptions tokenizer_ws_eq_std.

(* (3) integer literals with an i32 value (other than -0): both give that integer *)
Theorem int_literal_eq :
  forall f32_parse f32_of_decimal neg ds sep rest fuel depth,
    i32_literal neg ds -> is_separator sep = true ->
    TokenizerCore.read_number f32_parse (tok_new (int_literal_text neg ds ++ sep :: rest))
      = (IOk (NInt (int_literal_value neg ds)), mkTok rest (Some sep) true)
    /\ JsonStd.parse_value f32_of_decimal (S fuel) depth (int_literal_text neg ds ++ sep :: rest)
      = Some (JInt (int_literal_value neg ds), sep :: rest).
Proof.
  intros f32_parse f32_of_decimal neg ds sep rest fuel depth H1 H2.
  exact (conj (tok_int_literal f32_parse neg ds sep rest H1 H2)
              (std_int_literal f32_of_decimal neg ds sep rest fuel depth H1 H2)).
Qed.
Check int_literal_eq :
  forall f32_parse f32_of_decimal neg ds sep rest fuel depth,
    i32_literal neg ds -> is_separator sep = true ->
    TokenizerCore.read_number f32_parse (tok_new (int_literal_text neg ds ++ sep :: rest))
      = (IOk (NInt (int_literal_value neg ds)), mkTok rest (Some sep) true)
    /\ JsonStd.parse_value f32_of_decimal (S fuel) depth (int_literal_text neg ds ++ sep :: rest)
      = Some (JInt (int_literal_value neg ds), sep :: rest).
Print Assumptions int_literal_eq.

(* (4) refuted number forms (no compiler emits them) *)
Theorem neg_zero_refuted :
  forall f32_parse f32_of_decimal,
    fst (TokenizerCore.read_number f32_parse (tok_new (T "-0,"))) = IOk (NInt 0)
    /\ JsonStd.parse_json f32_of_decimal (T "-0") = Some (JFloat f32_neg_zero_bits).
Proof. exact neg_zero_differs. Qed.
Check neg_zero_refuted :
  forall f32_parse f32_of_decimal,
    fst (TokenizerCore.read_number f32_parse (tok_new (T "-0,"))) = IOk (NInt 0)
    /\ JsonStd.parse_json f32_of_decimal (T "-0") = Some (JFloat f32_neg_zero_bits).
Print Assumptions neg_zero_refuted.

Theorem int_out_of_range_refuted :
  forall f32_parse f32_of_decimal,
    (forall z, fst (TokenizerCore.read_number f32_parse (tok_new (T "2147483648,"))) <> IOk (NInt z))
    /\ JsonStd.parse_json f32_of_decimal (T "2147483648") = Some (JInt 2147483648)
    /\ in_i32 2147483648 = false.
Proof. exact int_out_of_range_differs. Qed.
Check int_out_of_range_refuted :
  forall f32_parse f32_of_decimal,
    (forall z, fst (TokenizerCore.read_number f32_parse (tok_new (T "2147483648,"))) <> IOk (NInt z))
    /\ JsonStd.parse_json f32_of_decimal (T "2147483648") = Some (JInt 2147483648)
    /\ in_i32 2147483648 = false.
Print Assumptions int_out_of_range_refuted.

(* (5) object classification: json_read.rs takes the first key TEST (priority order) the
   object satisfies, json_read_stream.rs tests the object's FIRST KEY only.  With the
   regenerated test sequences (equal up to attribute look-ups: ClassifyTie) they decide
   alike on every object whose first key is its only discriminating key — the form both
   compilers emit *)
Theorem object_classification_eq :
  forall k1 rest,
    tmem k1 std_priority = true -> (forall k, In k rest -> tmem k std_priority = false) ->
    std_classify std_priority (k1 :: rest) = Some k1
    /\ stream_classify stream_priority (k1 :: rest) = Some k1.
Proof.
  rewrite <- classify_same_priority. exact (classification_eq_lemma std_priority).
Qed.
Check object_classification_eq :
  forall k1 rest,
    tmem k1 std_priority = true -> (forall k, In k rest -> tmem k std_priority = false) ->
    std_classify std_priority (k1 :: rest) = Some k1
    /\ stream_classify stream_priority (k1 :: rest) = Some k1.
Print Assumptions object_classification_eq.

(* ... and differently when an attribute key comes first (a document whose keys were
   sorted): the serde loader sees an external-function divert, the streaming loader the
   terminating element of the array *)
Theorem object_classification_key_order_refuted :
  std_classify std_priority [T "exArgs"; T "x()"] = Some (T "x()")
  /\ stream_classify stream_priority [T "exArgs"; T "x()"] = None.
Proof. split; vm_compute; reflexivity. Qed.
Check object_classification_key_order_refuted :
  std_classify std_priority [T "exArgs"; T "x()"] = Some (T "x()")
  /\ stream_classify stream_priority [T "exArgs"; T "x()"] = None.
Print Assumptions object_classification_key_order_refuted.

(* the arms of the pinned tree (D13): a tab escape is silently dropped *)
Example d13_pinned_arms_refuted :
  let act := esc_action_of [(92, 92); (34, 34); (110, 10)] 0 false in
  act_complete act = false
  /\ read_string_text_gen act (quote [97; 92; 116; 98]) = Some [97; 98]
  /\ JsonStd.unescape [97; 92; 116; 98] = Some [97; 9; 98].
Proof. repeat split; reflexivity. Qed.

(* non-vacuity of (1) and (3) *)
(* a \t raw-e-acute raw-U+1F600 \/ \ud83d\ude00 *)
Example string_body_example :
  json_string_body [97; 92; 116; 233; 128512; 92; 47; 92; 117; 100; 56; 51; 100; 92; 117; 100; 101; 48; 48] /\
  JsonStd.unescape [97; 92; 116; 233; 128512; 92; 47; 92; 117; 100; 56; 51; 100; 92; 117; 100; 101; 48; 48]
  = Some [97; 9; 233; 128512; 47; 128512].
Proof. split; [vm_compute; discriminate|reflexivity]. Qed.
Example int_literal_example : i32_literal true [50; 49; 52; 55; 52; 56; 51; 54; 52; 56].
Proof. exact (proj1 i32_literal_example). Qed.
Example classification_example :
  tmem (T "x()") std_priority = true /\ (forall k, In k [T "exArgs"] -> tmem k std_priority = false).
Proof. split; [reflexivity|]. intros k [<-|[]]. reflexivity. Qed.
