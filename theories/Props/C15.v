(* Props/C15.v — malformed story or save input is an error, not a crash.
   Only statements, `exact`, Check and Print Assumptions.

   Story half (json_read.rs, model Json/StdLoad.v).  The loader model is
   parametrised by the per-site table regenerated from the source
   (Gen/LoadGen.v: "the unwrap at this site is still there").  The theorems hold
   for EVERY table, so they stay valid when sites are repaired; the instance
   for the current table says which way the property goes today. *)
From Ink.Json Require Import StdLoad StdLoadProofs StdLoadDepth StdLoadNames.
From Ink.Gen Require Import LoadGen.
From Ink.Gen Require Import SaveGen.
From Ink.Engine Require Import Api Tie Save.
From Ink.Shell Require Import ResetProofs HostFrame HostFrameLoad LoadTotal.

(* (1) totality: with every story-reachable site repaired, no document panics *)
Theorem load_story_total :
  forall panics, (forall s, story_site s = true -> panics s = false) ->
  forall j site, load_story_gen panics j <> Panic site.
Proof. exact (fun panics => proj2 (load_total_iff panics)). Qed.
Check load_story_total :
  forall panics, (forall s, story_site s = true -> panics s = false) ->
  forall j site, load_story_gen panics j <> Panic site.
Print Assumptions load_story_total.

(* the hypothesis of (1) is satisfiable: the all-repaired table *)
Example load_story_total_hyp_sat : forall s, story_site s = true -> no_panics s = false.
Proof. exact (fun s _ => eq_refl). Qed.

Theorem load_story_repaired_never_panics : forall j site, load_story_repaired j <> Panic site.
Proof. exact load_story_repaired_total. Qed.
Check load_story_repaired_never_panics : forall j site, load_story_repaired j <> Panic site.
Print Assumptions load_story_repaired_never_panics.

(* (2) and conversely: the loader is total EXACTLY when every story-reachable site is repaired *)
Theorem load_story_total_iff :
  forall panics,
    (forall j site, load_story_gen panics j <> Panic site)
    <-> (forall s, story_site s = true -> panics s = false).
Proof. exact load_total_iff. Qed.
Check load_story_total_iff :
  forall panics,
    (forall j site, load_story_gen panics j <> Panic site)
    <-> (forall s, story_site s = true -> panics s = false).
Print Assumptions load_story_total_iff.

(* (3) the source as it is NOW (regenerated table): total, or refuted by a concrete document *)
Theorem load_story_total_status :
  if story_sites_on lsite_panics
  then exists j site, load_story j = Panic site          (* load_story_total_refuted *)
  else forall j site, load_story j <> Panic site.         (* load_story_total *)
Proof. exact load_story_status_now. Qed.
Check load_story_total_status :
  if story_sites_on lsite_panics
  then exists j site, load_story j = Panic site
  else forall j site, load_story j <> Panic site.
Print Assumptions load_story_total_status.

(* D14, the two reproduced documents: "root":[]  and  "root":["",null] *)
Theorem load_story_total_refuted_empty_root :
  lsite_panics L_arr_last = true -> exists site, load_story (w_root (JArr [])) = Panic site.
Proof. exact d14_empty_root. Qed.
Check load_story_total_refuted_empty_root :
  lsite_panics L_arr_last = true -> exists site, load_story (w_root (JArr [])) = Panic site.
Print Assumptions load_story_total_refuted_empty_root.

Theorem load_story_total_refuted_empty_string :
  lsite_panics L_str_first_char = true -> exists site, load_story (w_content (JStr [])) = Panic site.
Proof. exact d14_empty_string. Qed.
Check load_story_total_refuted_empty_string :
  lsite_panics L_str_first_char = true -> exists site, load_story (w_content (JStr [])) = Panic site.
Print Assumptions load_story_total_refuted_empty_string.

(* (4) repairing sites changes nothing for documents the current code accepts or rejects *)
Theorem repair_is_conservative :
  forall j, (forall s, load_story j = Ok s -> load_story_repaired j = Ok s)
         /\ (forall k m, load_story j = Err k m -> load_story_repaired j = Err k m).
Proof. exact (fun j => conj (repair_conservative_ok j) (repair_conservative_err j)). Qed.
Check repair_is_conservative :
  forall j, (forall s, load_story j = Ok s -> load_story_repaired j = Ok s)
         /\ (forall k m, load_story j = Err k m -> load_story_repaired j = Err k m).
Print Assumptions repair_is_conservative.

(* (5) recursion depth of the loader <= nesting depth of the document: with a budget of
   (nesting depth + 1) nested calls of jtoken_to_runtime_object the budgeted loader IS the loader,
   for every site table.  serde_json's recursion limit (128) therefore bounds the std loader's stack;
   stack exhaustion itself is not expressible in the model (see MANIFEST: partial). *)
Theorem load_depth_bounded :
  forall panics fuel j name, (jdepth j < fuel)%nat ->
    jtoken_fuel panics fuel j name = jtoken_to_obj_gen panics j name.
Proof. exact fuel_enough. Qed.
Check load_depth_bounded :
  forall panics fuel j name, (jdepth j < fuel)%nat ->
    jtoken_fuel panics fuel j name = jtoken_to_obj_gen panics j name.
Print Assumptions load_depth_bounded.

Theorem load_depth_bound_tight :
  jdepth (nest 5) = 6%nat
  /\ jtoken_fuel lsite_panics 6 (nest 5) None <> jtoken_to_obj (nest 5) None
  /\ jtoken_fuel lsite_panics 7 (nest 5) None = jtoken_to_obj (nest 5) None.
Proof. exact depth_bound_tight. Qed.
Print Assumptions load_depth_bound_tight.

(* T-gen tie: the loader's control-command / native-function name tables coincide, on every
   string, with the independently generated tables of the arithmetic development *)
Theorem loader_name_tables_agree :
  (forall s, StdLoad.cmd_of_name s = Ink.Gen.CmdGen.cmd_of_name s)
  /\ (forall s, StdLoad.nop_of_name s = Ink.Gen.NativeGen.nop_of_name s).
Proof. exact (conj cmd_of_name_agrees nop_of_name_agrees). Qed.
Print Assumptions loader_name_tables_agree.

(* non-vacuity *)
Theorem a_story_loads : is_ok (load_story tiny_story) = true /\ is_ok (load_story_repaired tiny_story) = true.
Proof. exact tiny_story_loads. Qed.
Print Assumptions a_story_loads.

(* ---------------- save-state half: Story::load_state is total ----------------
   The model of StoryState::load_json_obj / Flow::from_json / CallStack::load_json / Thread::from_json /
   VariablesState::load_json (Engine/Save.v) over the helpers of json_read.rs, parametrised by the per-site
   tables regenerated from the sources (Gen/SaveGen.v, Gen/LoadGen.v).  For EVERY world — any story, any
   state reached, any bookkeeping — and EVERY JSON document: Ok or Err, never a panic. *)
Theorem load_state_total :
  forall (sp : ssite -> bool) (ssw : save_switches),
    (forall s, load_ssite s = true -> sp s = false) -> (forall s, lsite_panics s = false) ->
    forall w j site, fst (load_state sp ssw w j) <> OPanic site.
Proof. exact load_state_total_gen. Qed.
Check load_state_total :
  forall (sp : ssite -> bool) (ssw : save_switches),
    (forall s, load_ssite s = true -> sp s = false) -> (forall s, lsite_panics s = false) ->
    forall w j site, fst (load_state sp ssw w j) <> OPanic site.
Print Assumptions load_state_total.

(* the source as it is NOW: both hypotheses hold of the regenerated tables *)
Theorem load_state_never_panics : forall w j site, fst (load_state_now w j) <> OPanic site.
Proof. exact load_state_total_now. Qed.
Check load_state_never_panics : forall w j site, fst (load_state_now w j) <> OPanic site.
Print Assumptions load_state_never_panics.

(* the hypothesis is not idle: with the unwrap on the evalStack array back in place the document
   {"inkSaveVersion":10,"flows":{},"evalStack":0} panics, in every story and from every state *)
Theorem load_state_total_needs_repaired_sites :
  forall ssw w, exists site, fst (load_state eval_site_only ssw w doc_eval_not_array) = OPanic site.
Proof. exact load_state_panics_with_eval_site_on. Qed.
Print Assumptions load_state_total_needs_repaired_sites.

(* ---------------- "after a failed load the story can still be reset and plays like a fresh one" ---------------- *)
(* load_state writes the StoryState only, so whatever it did — succeeded, or stopped half way with
   BadJson — the bookkeeping between host calls is intact and reset is the constructor's
   initialisation on a blank world with the host's bindings in place (reset ignores the old state) *)
Theorem reset_after_any_load_is_fresh :
  forall (I : iface) (sp : ssite -> bool) (ssw : save_switches) (seed : Z) (w : world) (j : json),
    between_calls w ->
    reset_state I sw_now seed (snd (load_state sp ssw w j)) =
    reset_globals I sw_now (rebind (snd (load_state sp ssw w j))
                                   (world_init (w_story (snd (load_state sp ssw w j))) seed
                                               (w_fuel (snd (load_state sp ssw w j))))).
Proof. exact HostFrameLoad.reset_after_any_load_is_fresh. Qed.
Check reset_after_any_load_is_fresh :
  forall (I : iface) (sp : ssite -> bool) (ssw : save_switches) (seed : Z) (w : world) (j : json),
    between_calls w ->
    reset_state I sw_now seed (snd (load_state sp ssw w j)) =
    reset_globals I sw_now (rebind (snd (load_state sp ssw w j))
                                   (world_init (w_story (snd (load_state sp ssw w j))) seed
                                               (w_fuel (snd (load_state sp ssw w j))))).
Print Assumptions reset_after_any_load_is_fresh.

(* T-gen tie of the load theorems: Story::load_state is the async guard followed by StoryState::load_json and touches
   nothing else of the Story — regenerated from the sources on every run *)
From Ink.Gen Require Import EngineGen.
From Ink.Shell Require Import StructureTie.
Theorem load_state_hands_the_text_to_the_state_only : load_writes_state_only = true.
Proof. exact StructureTie.now_load_writes_state_only. Qed.
Check load_state_hands_the_text_to_the_state_only : load_writes_state_only = true.
Print Assumptions load_state_hands_the_text_to_the_state_only.
