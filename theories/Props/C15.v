(* Props/C15.v — placeholder while Json/StdLoadProofs.v is being written. *)
From Ink.Json Require Import StdLoad.
Theorem load_story_version_missing : load_story (JObj []) = Err BadJson (T "ink version number not found").
Proof. reflexivity. Qed.
Print Assumptions load_story_version_missing.
