(* Props/C13.v — every runtime error and warning is delivered exactly once.
   Statements about the delivery block that ends every continue
   (Engine/Continue.v::deliver_errors) run with the regenerated switches. *)
From Ink.Engine Require Import Api Tie.
From Ink.Shell Require Import DeliveryProofs.
From Ink.Gen Require Import SaveGen.
From Ink.Engine Require Import Save.
From Ink.Shell Require Import LoadErrors.

Theorem delivered_once_with_handler : forall (w : world),
  w_handler w = true ->
  exists w',
    deliver_errors sw_now w = (OOk tt, w')
    /\ w_events w' = w_events w ++ map (EvHandler true) (ss_errors (w_state w))
                                ++ map (EvHandler false) (ss_warnings (w_state w))
    /\ ss_errors (w_state w') = [] /\ ss_warnings (w_state w') = [].
Proof. exact DeliveryProofs.delivered_once_with_handler. Qed.
Check delivered_once_with_handler : forall (w : world),
  w_handler w = true ->
  exists w',
    deliver_errors sw_now w = (OOk tt, w')
    /\ w_events w' = w_events w ++ map (EvHandler true) (ss_errors (w_state w))
                                ++ map (EvHandler false) (ss_warnings (w_state w))
    /\ ss_errors (w_state w') = [] /\ ss_warnings (w_state w') = [].
Print Assumptions delivered_once_with_handler.

Theorem no_handler_error_is_err : forall (w : world),
  w_handler w = false -> ss_errors (w_state w) <> [] ->
  exists msg, deliver_errors sw_now w = (OErr InvalidState msg, w).
Proof. exact DeliveryProofs.no_handler_error_is_err. Qed.
Check no_handler_error_is_err : forall (w : world),
  w_handler w = false -> ss_errors (w_state w) <> [] ->
  exists msg, deliver_errors sw_now w = (OErr InvalidState msg, w).
Print Assumptions no_handler_error_is_err.

Theorem no_handler_warning_not_err : forall (w : world),
  w_handler w = false -> ss_errors (w_state w) = [] ->
  exists w', deliver_errors sw_now w = (OOk tt, w')
             /\ ss_warnings (w_state w') = ss_warnings (w_state w) /\ w_events w' = w_events w.
Proof. exact DeliveryProofs.no_handler_warning_not_err. Qed.
Check no_handler_warning_not_err : forall (w : world),
  w_handler w = false -> ss_errors (w_state w) = [] ->
  exists w', deliver_errors sw_now w = (OOk tt, w')
             /\ ss_warnings (w_state w') = ss_warnings (w_state w) /\ w_events w' = w_events w.
Print Assumptions no_handler_warning_not_err.

(* ---------------- "stays readable until reset": a load is not a reset ---------------- *)
Theorem load_state_keeps_errors_and_warnings :
  forall (sp : ssite -> bool) (ssw : save_switches) (w : world) (j : json),
    ss_errors (w_state (snd (load_state sp ssw w j))) = ss_errors (w_state w) /\
    ss_warnings (w_state (snd (load_state sp ssw w j))) = ss_warnings (w_state w).
Proof. exact LoadErrors.load_state_keeps_errors_and_warnings. Qed.
Check load_state_keeps_errors_and_warnings :
  forall (sp : ssite -> bool) (ssw : save_switches) (w : world) (j : json),
    ss_errors (w_state (snd (load_state sp ssw w j))) = ss_errors (w_state w) /\
    ss_warnings (w_state (snd (load_state sp ssw w j))) = ss_warnings (w_state w).
Print Assumptions load_state_keeps_errors_and_warnings.

(* ---------------- "an error always stops the story" ---------------- *)
(* with an error on record (not yet handed to a handler, or no handler) the story cannot continue:
   can_continue answers false and leaves the world as it is *)
Theorem error_stops_the_story : forall (w : world),
  ss_errors (w_state w) <> [] ->
  forall o w', m_can_continue w = (o, w') -> (forall s, o <> OPanic s) -> o = OOk false /\ w' = w.
Proof. exact DeliveryProofs.error_cannot_continue. Qed.
Check error_stops_the_story : forall (w : world),
  ss_errors (w_state w) <> [] ->
  forall o w', m_can_continue w = (o, w') -> (forall s, o <> OPanic s) -> o = OOk false /\ w' = w.
Print Assumptions error_stops_the_story.

From Ink.Gen Require Import SaveGen.
From Ink.Engine Require Import Save.
From Ink.Shell Require Import HostFrame Events.

(* ---------------- what the host has been told stays told ----------------
   The model's event log records every call the engine makes into the host (observer, error handler,
   external function).  For the whole engine model it is append-only: no interpreter step, no look-ahead
   rewind, no story operation and no load retracts, reorders or rewrites a call already made. *)
Theorem event_log_append_only :
  forall (I : iface) (sw : switches) (ops : list story_op) (w : world),
    exists l, w_events (run_story_ops I sw ops w) = w_events w ++ l.
Proof. exact Events.event_log_append_only. Qed.
Check event_log_append_only :
  forall (I : iface) (sw : switches) (ops : list story_op) (w : world),
    exists l, w_events (run_story_ops I sw ops w) = w_events w ++ l.
Print Assumptions event_log_append_only.

Theorem host_call_is_never_retracted :
  forall (I : iface) (sw : switches) (ops1 ops2 : list story_op) (w : world) (n : nat) (e : event),
    nth_error (w_events (run_story_ops I sw ops1 w)) n = Some e ->
    nth_error (w_events (run_story_ops I sw ops2 (run_story_ops I sw ops1 w))) n = Some e.
Proof. exact Events.host_call_is_never_retracted. Qed.
Check host_call_is_never_retracted :
  forall (I : iface) (sw : switches) (ops1 ops2 : list story_op) (w : world) (n : nat) (e : event),
    nth_error (w_events (run_story_ops I sw ops1 w)) n = Some e ->
    nth_error (w_events (run_story_ops I sw ops2 (run_story_ops I sw ops1 w))) n = Some e.
Print Assumptions host_call_is_never_retracted.

Theorem load_keeps_event_log :
  forall (sp : ssite -> bool) (ssw : save_switches) (w : world) (j : json),
    w_events (snd (load_state sp ssw w j)) = w_events w.
Proof. exact Events.load_keeps_event_log. Qed.
Check load_keeps_event_log :
  forall (sp : ssite -> bool) (ssw : save_switches) (w : world) (j : json),
    w_events (snd (load_state sp ssw w j)) = w_events w.
Print Assumptions load_keeps_event_log.

(* ---------------- a continue that returns normally leaves nothing undelivered ----------------
   With a handler registered, when Story::cont / continue_async (continue_internal) returns Ok no error and
   no warning is left pending: everything raised by the line(s) just played went to the handler in this call. *)
From Ink.Shell Require Import DeliveryAll.
Theorem cont_leaves_nothing_undelivered :
  forall (I : iface) (w : world) (t : text) (w' : world),
    api_cont I sw_now w = (OOk t, w') -> w_handler w' = true ->
    ss_errors (w_state w') = [] /\ ss_warnings (w_state w') = [].
Proof. exact DeliveryAll.cont_leaves_nothing_undelivered. Qed.
Check cont_leaves_nothing_undelivered :
  forall (I : iface) (w : world) (t : text) (w' : world),
    api_cont I sw_now w = (OOk t, w') -> w_handler w' = true ->
    ss_errors (w_state w') = [] /\ ss_warnings (w_state w') = [].
Print Assumptions cont_leaves_nothing_undelivered.

Theorem continue_async_leaves_nothing_undelivered :
  forall (I : iface) (limited : bool) (w w' : world),
    continue_async I sw_now limited w = (OOk tt, w') -> w_handler w' = true ->
    ss_errors (w_state w') = [] /\ ss_warnings (w_state w') = [].
Proof. exact DeliveryAll.continue_async_leaves_nothing_undelivered. Qed.
Check continue_async_leaves_nothing_undelivered :
  forall (I : iface) (limited : bool) (w w' : world),
    continue_async I sw_now limited w = (OOk tt, w') -> w_handler w' = true ->
    ss_errors (w_state w') = [] /\ ss_warnings (w_state w') = [].
Print Assumptions continue_async_leaves_nothing_undelivered.

(* handler or not: when a continue returns Ok no ERROR is pending — without a handler an error on record makes the
   continue return Err (no_handler_error_is_err), with one it is delivered; it is never silently kept *)
Theorem cont_ok_leaves_no_error_pending :
  forall (I : iface) (w : world) (t : text) (w' : world),
    api_cont I sw_now w = (OOk t, w') -> ss_errors (w_state w') = [].
Proof. exact DeliveryAll.cont_ok_leaves_no_error_pending. Qed.
Check cont_ok_leaves_no_error_pending :
  forall (I : iface) (w : world) (t : text) (w' : world),
    api_cont I sw_now w = (OOk t, w') -> ss_errors (w_state w') = [].
Print Assumptions cont_ok_leaves_no_error_pending.

(* T-gen tie of the event-log theorems: the Rust engine calls into the host at exactly the places (and from exactly the
   callers) where the model logs an event — regenerated from the sources on every run *)
From Ink.Gen Require Import EngineGen.
From Ink.Shell Require Import EventsTie.
Theorem host_calls_are_where_the_model_logs_them : host_calls_confined = true.
Proof. exact EventsTie.now_host_calls_confined. Qed.
Check host_calls_are_where_the_model_logs_them : host_calls_confined = true.
Print Assumptions host_calls_are_where_the_model_logs_them.

(* T-gen tie of the load theorems: Story::load_state is the async guard followed by StoryState::load_json and touches
   nothing else of the Story — regenerated from the sources on every run *)
From Ink.Gen Require Import EngineGen.
From Ink.Shell Require Import StructureTie.
Theorem load_state_hands_the_text_to_the_state_only : load_writes_state_only = true.
Proof. exact StructureTie.now_load_writes_state_only. Qed.
Check load_state_hands_the_text_to_the_state_only : load_writes_state_only = true.
Print Assumptions load_state_hands_the_text_to_the_state_only.
