(* Props/C16.v — evaluating an Ink function from the host does not disturb the story.
   Rejected evaluations (unknown / blank name, bad argument type) change nothing. *)
From Ink.Engine Require Import Api Tie.
From Ink.Shell Require Import RejectProofs.

Theorem eval_blank_rejected_noop : forall (I : iface) (name : text) args (w : world),
  w_async w = false -> trim name = [] ->
  exists msg, evaluate_function I sw_now name args w = (OErr InvalidState msg, w).
Proof. exact RejectProofs.eval_blank_rejected_noop. Qed.
Check eval_blank_rejected_noop : forall (I : iface) (name : text) args (w : world),
  w_async w = false -> trim name = [] ->
  exists msg, evaluate_function I sw_now name args w = (OErr InvalidState msg, w).
Print Assumptions eval_blank_rejected_noop.

Theorem eval_unknown_rejected_noop : forall (I : iface) (name : text) args (w : world),
  w_async w = false -> trim name <> [] -> knot_container_with_name (root_of w) name = None ->
  exists msg, evaluate_function I sw_now name args w = (OErr BadArgument msg, w).
Proof. exact RejectProofs.eval_unknown_rejected_noop. Qed.
Check eval_unknown_rejected_noop : forall (I : iface) (name : text) args (w : world),
  w_async w = false -> trim name <> [] -> knot_container_with_name (root_of w) name = None ->
  exists msg, evaluate_function I sw_now name args w = (OErr BadArgument msg, w).
Print Assumptions eval_unknown_rejected_noop.

Theorem eval_bad_argument_rejected_noop :
  forall (I : iface) (name : text) (args : list value) (w : world) fp,
  w_async w = false -> trim name <> [] -> knot_container_with_name (root_of w) name = Some fp ->
  forallb passable args = false ->
  exists msg, evaluate_function I sw_now name (Some args) w = (OErr InvalidState msg, w).
Proof. exact RejectProofs.eval_bad_argument_rejected_noop. Qed.
Check eval_bad_argument_rejected_noop :
  forall (I : iface) (name : text) (args : list value) (w : world) fp,
  w_async w = false -> trim name <> [] -> knot_container_with_name (root_of w) name = Some fp ->
  forallb passable args = false ->
  exists msg, evaluate_function I sw_now name (Some args) w = (OErr InvalidState msg, w).
Print Assumptions eval_bad_argument_rejected_noop.
