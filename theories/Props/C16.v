(* Props/C16.v — evaluating an Ink function from the host does not disturb the story.
   Rejected evaluations (unknown / blank name, bad argument type) change nothing. *)
From Ink.Engine Require Import Api Tie.
From Ink.Shell Require Import RejectProofs.
From Ink.Shell Require Import EvalFrame HostFrame FlowFrame FlowFootprint.

Theorem eval_blank_rejected_noop : forall (I : iface) (name : text) args (w : world),
  w_async w = false -> trim name = [] ->
  exists msg, evaluate_function I sw_now name args w = (OErr InvalidState msg, w).
Proof. exact RejectProofs.eval_blank_rejected_noop. Qed.
Check eval_blank_rejected_noop : forall (I : iface) (name : text) args (w : world),
  w_async w = false -> trim name = [] ->
  exists msg, evaluate_function I sw_now name args w = (OErr InvalidState msg, w).
Print Assumptions eval_blank_rejected_noop.

Theorem eval_unknown_rejected_noop : forall (I : iface) (name : text) args (w : world),
  w_async w = false -> trim name <> [] -> knot_container_with_name (root_of w) name = None ->
  exists msg, evaluate_function I sw_now name args w = (OErr BadArgument msg, w).
Proof. exact RejectProofs.eval_unknown_rejected_noop. Qed.
Check eval_unknown_rejected_noop : forall (I : iface) (name : text) args (w : world),
  w_async w = false -> trim name <> [] -> knot_container_with_name (root_of w) name = None ->
  exists msg, evaluate_function I sw_now name args w = (OErr BadArgument msg, w).
Print Assumptions eval_unknown_rejected_noop.

Theorem eval_bad_argument_rejected_noop :
  forall (I : iface) (name : text) (args : list value) (w : world) fp,
  w_async w = false -> trim name <> [] -> knot_container_with_name (root_of w) name = Some fp ->
  forallb passable args = false ->
  exists msg, evaluate_function I sw_now name (Some args) w = (OErr InvalidState msg, w).
Proof. exact RejectProofs.eval_bad_argument_rejected_noop. Qed.
Check eval_bad_argument_rejected_noop :
  forall (I : iface) (name : text) (args : list value) (w : world) fp,
  w_async w = false -> trim name <> [] -> knot_container_with_name (root_of w) name = Some fp ->
  forallb passable args = false ->
  exists msg, evaluate_function I sw_now name (Some args) w = (OErr InvalidState msg, w).
Print Assumptions eval_bad_argument_rejected_noop.

(* ---------------- frame of a successful evaluation ---------------- *)
(* whatever the evaluated function printed or did, when evaluate_function returns normally the
   output stream of the main story (pending text and tags) is exactly what it was before the call *)
Theorem evaluate_function_restores_output :
  forall (I : iface) (sw : switches) (name : text) (args : option (list value)) (w : world)
         (r : option value) (txt : text) (w' : world),
    evaluate_function I sw name args w = (OOk (r, txt), w') ->
    ss_out (w_state w') = ss_out (w_state w).
Proof. exact EvalFrame.evaluate_function_restores_output. Qed.
Check evaluate_function_restores_output :
  forall (I : iface) (sw : switches) (name : text) (args : option (list value)) (w : world)
         (r : option value) (txt : text) (w' : world),
    evaluate_function I sw name args w = (OOk (r, txt), w') ->
    ss_out (w_state w') = ss_out (w_state w).
Print Assumptions evaluate_function_restores_output.

(* ... it never touches the parked flows (any outcome) ... *)
Theorem evaluate_function_commutes_with_parked_flows :
  forall (I : iface) (v : option (list (text * flow))) (name : text) (args : option (list value)) (w : world),
    evaluate_function I sw_now name args (uw v w) =
    (let (o, w') := evaluate_function I sw_now name args w in (o, uw v w')).
Proof. exact (fun I v name args => fc_evaluate_function v I sw_now now_no_alias name args). Qed.
Check evaluate_function_commutes_with_parked_flows :
  forall (I : iface) (v : option (list (text * flow))) (name : text) (args : option (list value)) (w : world),
    evaluate_function I sw_now name args (uw v w) =
    (let (o, w') := evaluate_function I sw_now name args w in (o, uw v w')).
Print Assumptions evaluate_function_commutes_with_parked_flows.

(* ... nor the host's registrations (any outcome) *)
Theorem evaluate_function_keeps_registrations :
  forall (I : iface) (sw : switches) (name : text) (args : option (list value)) (w : world),
    host_regs (snd (evaluate_function I sw name args w)) = host_regs w.
Proof. exact (fun I sw name args w => HostFrame.evaluate_function_keeps_host_regs I sw name args w). Qed.
Check evaluate_function_keeps_registrations :
  forall (I : iface) (sw : switches) (name : text) (args : option (list value)) (w : world),
    host_regs (snd (evaluate_function I sw name args w)) = host_regs w.
Print Assumptions evaluate_function_keeps_registrations.

(* ---------------- in one statement: what a successful evaluate_function leaves alone ---------------- *)
From Ink.Shell Require Import HostFrame EvalSummary.
Theorem successful_evaluation_frame :
  forall (I : iface) (sw : switches) (name : text) (args : option (list value)) (w w' : world) r txt,
    evaluate_function I sw name args w = (OOk (r, txt), w') ->
       ss_out (w_state w') = ss_out (w_state w)
    /\ host_regs w' = host_regs w
    /\ (exists l, w_events w' = w_events w ++ l).
Proof. exact EvalSummary.successful_evaluation_frame. Qed.
Check successful_evaluation_frame :
  forall (I : iface) (sw : switches) (name : text) (args : option (list value)) (w w' : world) r txt,
    evaluate_function I sw name args w = (OOk (r, txt), w') ->
       ss_out (w_state w') = ss_out (w_state w)
    /\ host_regs w' = host_regs w
    /\ (exists l, w_events w' = w_events w ++ l).
Print Assumptions successful_evaluation_frame.
