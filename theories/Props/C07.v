(* Props/C07.v — expressions over numbers, strings and lists evaluate as Ink
   specifies.  Only statements, `exact`, Check and Print Assumptions. *)
From Ink.Data Require Import Types Value Native NativeTie.
From Ink.Gen Require Import NativeGen CmdGen.

(* T-gen ties: the operator name tables read from native_function_call.rs are
   mutually inverse, and the arities are the ones the model's call_type assumes *)
Theorem nop_names_roundtrip : forall op, nop_of_name (nop_name op) = Some op.
Proof. exact nop_name_roundtrip. Qed.
Check nop_names_roundtrip : forall op, nop_of_name (nop_name op) = Some op.
Print Assumptions nop_names_roundtrip.
