(* Props/C07.v — expressions over numbers, strings and lists evaluate as Ink
   specifies.  Only statements, `exact`, Check and Print Assumptions.

   Data/Native.v is the model of NativeFunctionCall::call; Spec/ExprSpec.v and
   Spec/ListSpec.v say what Ink prescribes.  [abs_res] abstracts an outcome of the
   model (a Panic has no abstraction, so each equation also says "no panic"). *)
From Coq Require Import Permutation.
From Ink.Data Require Import Types InkList IntSem Value Native NativeTie InkListProofs.
From Ink.Gen Require Import NativeGen CmdGen.
From Ink.Spec Require Import KeyOrder ListSpec ListSpecProofs ExprSpec ExprSpecProofs.
Local Open Scope Z_scope.

(* T-gen ties: the operator name table read from native_function_call.rs is invertible *)
Theorem nop_names_roundtrip : forall op, nop_of_name (nop_name op) = Some op.
Proof. exact nop_name_roundtrip. Qed.
Check nop_names_roundtrip : forall op, nop_of_name (nop_name op) = Some op.
Print Assumptions nop_names_roundtrip.

(* (1) all 31 operators on bool / int / float / string operands of every type
   combination, any arity, any iteration order, both build profiles: the model computes
   the join-type-then-operate semantics of ExprSpec *)
Theorem native_refines_spec : forall oo ovf fo defs op args, Forall scalar args ->
  abs_res (call_native_g oo int_sem_now ovf fo defs op (map OVal args)) =
  Some (spec_scalar_op fo op (map abs_scalar args)).
Proof. exact native_refines_spec_lemma. Qed.
Check native_refines_spec : forall oo ovf fo defs op args, Forall scalar args ->
  abs_res (call_native_g oo int_sem_now ovf fo defs op (map OVal args)) =
  Some (spec_scalar_op fo op (map abs_scalar args)).
Print Assumptions native_refines_spec.

(* (2) list (op) list for every binary operator: union, difference, intersection,
   has / hasn't, == / !=, the four comparisons, && / || — set operations on [abs] *)
Theorem native_list_binary_refines_spec : forall oo ovf fo defs op a b,
  ord_ok oo -> wf_list a -> wf_list b -> is_binary op = true ->
  abs_res (call_native_g oo int_sem_now ovf fo defs op [OVal (VList a); OVal (VList b)]) =
  Some (spec_list_binary op (abs a) (abs b)).
Proof. exact native_list_binary_refines_lemma. Qed.
Check native_list_binary_refines_spec : forall oo ovf fo defs op a b,
  ord_ok oo -> wf_list a -> wf_list b -> is_binary op = true ->
  abs_res (call_native_g oo int_sem_now ovf fo defs op [OVal (VList a); OVal (VList b)]) =
  Some (spec_list_binary op (abs a) (abs b)).
Print Assumptions native_list_binary_refines_spec.

(* (3) every unary list operator: LIST_COUNT, LIST_VALUE, `not`, LIST_ALL, LIST_INVERT
   ([ds] = the declarations of the list's origins), LIST_MIN / LIST_MAX as one-item lists
   (ties resolved by the total order value / origin name / item name). *)
Theorem native_list_unary_refines_spec : forall oo sem ovf fo defs op a ds,
  ord_ok oo -> wf_list a -> origin_defs defs a = Ok ds -> Forall wf_def ds ->
  list_unary_covered op = true ->
  abs_res (call_native_g oo sem ovf fo defs op [OVal (VList a)]) =
  Some (spec_list_unary ds op (abs a)).
Proof. exact native_list_unary_refines_lemma. Qed.
Check native_list_unary_refines_spec : forall oo sem ovf fo defs op a ds,
  ord_ok oo -> wf_list a -> origin_defs defs a = Ok ds -> Forall wf_def ds ->
  list_unary_covered op = true ->
  abs_res (call_native_g oo sem ovf fo defs op [OVal (VList a)]) =
  Some (spec_list_unary ds op (abs a)).
Print Assumptions native_list_unary_refines_spec.

(* (3a) LIST_MIN / LIST_MAX on the list model itself *)
Theorem list_min_max_refine_spec : forall oo l, ord_ok oo -> wf_list l ->
  abs (list_min_as_list oo l) = s_min_list (abs l) /\ abs (list_max_as_list oo l) = s_max_list (abs l).
Proof. exact min_max_as_list_refine. Qed.
Check list_min_max_refine_spec : forall oo l, ord_ok oo -> wf_list l ->
  abs (list_min_as_list oo l) = s_min_list (abs l) /\ abs (list_max_as_list oo l) = s_max_list (abs l).
Print Assumptions list_min_max_refine_spec.

(* (3b) list + int / list - int: every item replaced by the item of the same declaration
   whose value is shifted (32-bit wrapping); items without such a neighbour dropped *)
Theorem native_list_increment_refines_spec : forall oo ovf fo defs op a n ds,
  ord_ok oo -> wf_list a -> has_origins a -> origin_defs defs a = Ok ds -> Forall wf_def ds ->
  is_increment op = true ->
  abs_res (call_native_g oo int_sem_now ovf fo defs op [OVal (VList a); OVal (VInt n)]) =
  Some (spec_list_increment ds op (abs a) n).
Proof. exact native_list_increment_refines_lemma. Qed.
Check native_list_increment_refines_spec : forall oo ovf fo defs op a n ds,
  ord_ok oo -> wf_list a -> has_origins a -> origin_defs defs a = Ok ds -> Forall wf_def ds ->
  is_increment op = true ->
  abs_res (call_native_g oo int_sem_now ovf fo defs op [OVal (VList a); OVal (VInt n)]) =
  Some (spec_list_increment ds op (abs a) n).
Print Assumptions native_list_increment_refines_spec.

(* (3c) LIST_RANGE(list, lo, hi), bounds ints or lists: a list bound counts as its MINIMUM
   value when it is the lower bound and as its MAXIMUM value when it is the upper bound;
   an empty bound list leaves that side open *)
Theorem list_range_refines_spec : forall oo l vlo vhi lo hi,
  ord_ok oo -> wf_list l -> wf_bound vlo -> wf_bound vhi ->
  abs_bound vlo = Some lo -> abs_bound vhi = Some hi ->
  abs_vres (list_range_cmd oo (OVal vhi) (OVal vlo) (OVal (VList l))) = Some (spec_list_range (abs l) lo hi).
Proof. exact list_range_cmd_refines_lemma. Qed.
Check list_range_refines_spec : forall oo l vlo vhi lo hi,
  ord_ok oo -> wf_list l -> wf_bound vlo -> wf_bound vhi ->
  abs_bound vlo = Some lo -> abs_bound vhi = Some hi ->
  abs_vres (list_range_cmd oo (OVal vhi) (OVal vlo) (OVal (VList l))) = Some (spec_list_range (abs l) lo hi).
Print Assumptions list_range_refines_spec.

(* (3d) ListName(n): the item of LIST ListName with value n (smallest name when the
   declaration repeats the value), the empty list when there is none, an error when there
   is no such LIST *)
Theorem list_from_int_refines_spec : forall oo defs name n, ord_ok oo -> NoDup (map fst defs) ->
  abs_vres (list_from_int_cmd oo defs (OVal (VInt n)) (OVal (VString name))) =
  Some (spec_list_from_int defs name n).
Proof. exact list_from_int_cmd_refines_lemma. Qed.
Check list_from_int_refines_spec : forall oo defs name n, ord_ok oo -> NoDup (map fst defs) ->
  abs_vres (list_from_int_cmd oo defs (OVal (VInt n)) (OVal (VString name))) =
  Some (spec_list_from_int defs name n).
Print Assumptions list_from_int_refines_spec.

(* (4) "independent of the order items were added" *)
Theorem list_ops_insertion_order_free : forall l l',
  wf_list l -> Permutation (l_items l) (l_items l') -> abs l = abs l'.
Proof. exact list_ops_insertion_order_free_lemma. Qed.
Check list_ops_insertion_order_free : forall l l',
  wf_list l -> Permutation (l_items l) (l_items l') -> abs l = abs l'.
Print Assumptions list_ops_insertion_order_free.

Theorem list_binary_results_order_free : forall oo1 oo2 ovf fo defs op a a' b b',
  ord_ok oo1 -> ord_ok oo2 -> wf_list a -> wf_list b -> is_binary op = true ->
  Permutation (l_items a) (l_items a') -> Permutation (l_items b) (l_items b') ->
  abs_res (call_native_g oo1 int_sem_now ovf fo defs op [OVal (VList a); OVal (VList b)]) =
  abs_res (call_native_g oo2 int_sem_now ovf fo defs op [OVal (VList a'); OVal (VList b')]).
Proof. exact native_list_binary_order_free. Qed.
Check list_binary_results_order_free : forall oo1 oo2 ovf fo defs op a a' b b',
  ord_ok oo1 -> ord_ok oo2 -> wf_list a -> wf_list b -> is_binary op = true ->
  Permutation (l_items a) (l_items a') -> Permutation (l_items b) (l_items b') ->
  abs_res (call_native_g oo1 int_sem_now ovf fo defs op [OVal (VList a); OVal (VList b)]) =
  abs_res (call_native_g oo2 int_sem_now ovf fo defs op [OVal (VList a'); OVal (VList b')]).
Print Assumptions list_binary_results_order_free.

(* (5) the extreme VALUE of a list never depends on the iteration order; the extreme
   ITEM did, when two items tie, under the iteration-order tie-break (defect D18:
   LIST_MAX(a + x) with L.a = M.x = 1) — see Props/C03.v for the repaired code *)
Theorem list_max_value_order_independent : forall oo1 oo2 l l',
  ord_ok oo1 -> ord_ok oo2 -> Permutation (l_items l) (l_items l') ->
  max_value oo1 l = max_value oo2 l'.
Proof. exact max_value_order_independent. Qed.
Check list_max_value_order_independent : forall oo1 oo2 l l',
  ord_ok oo1 -> ord_ok oo2 -> Permutation (l_items l) (l_items l') ->
  max_value oo1 l = max_value oo2 l'.
Print Assumptions list_max_value_order_independent.

Theorem list_max_item_order_refuted :
  exists oo1 oo2 l, ord_ok oo1 /\ ord_ok oo2 /\
    get_max_item_tb oo1 TieIteration l <> get_max_item_tb oo2 TieIteration l.
Proof. exact get_max_item_order_refuted. Qed.
Check list_max_item_order_refuted :
  exists oo1 oo2 l, ord_ok oo1 /\ ord_ok oo2 /\
    get_max_item_tb oo1 TieIteration l <> get_max_item_tb oo2 TieIteration l.
Print Assumptions list_max_item_order_refuted.
