(* Props/C01_spec.v — sanity theorems about the reference semantics of core Ink (Spec/RefSem.v),
   the oracle of C01's "plays as the Ink language defines" half.
   Only statements, `exact`, Check and Print Assumptions. *)
From Ink.Base Require Import Text.
From Ink.Spec Require Import InkAst RefSem RefSemProofs.

(* (1) the whitespace normalisation of a finished line is idempotent *)
Theorem clean_ws_idempotent_thm : forall t, clean_ws (clean_ws t) = clean_ws t.
Proof. exact clean_ws_idempotent. Qed.
Check clean_ws_idempotent_thm : forall t, clean_ws (clean_ws t) = clean_ws t.
Print Assumptions clean_ws_idempotent_thm.

(* (2) along any path of any program: a once-only choice that is on offer has never been chosen
   before — together with (3) and (4): once chosen, never offered again *)
Theorem once_only_never_twice :
  forall p fuel path st pc,
    play fuel p (initial p) path = Some st ->
    In pc (st_choices st) -> c_sticky (pc_choice pc) = false ->
    ~ In (c_id (pc_choice pc)) (st_chosen st).
Proof. exact once_only_never_twice_lemma. Qed.
Check once_only_never_twice :
  forall p fuel path st pc,
    play fuel p (initial p) path = Some st ->
    In pc (st_choices st) -> c_sticky (pc_choice pc) = false ->
    ~ In (c_id (pc_choice pc)) (st_chosen st).
Print Assumptions once_only_never_twice.

(* (3) choosing records the choice ... *)
Theorem choosing_records :
  forall st i st',
    choose st i = Some st' ->
    exists pc, nth_error (visible_choices st) i = Some pc /\
               (pc_stack pc <> [] -> In (c_id (pc_choice pc)) (st_chosen st')).
Proof. exact choosing_records_lemma. Qed.
Check choosing_records :
  forall st i st',
    choose st i = Some st' ->
    exists pc, nth_error (visible_choices st) i = Some pc /\
               (pc_stack pc <> [] -> In (c_id (pc_choice pc)) (st_chosen st')).
Print Assumptions choosing_records.

(* (4) ... and the record is never lost, whatever is played afterwards *)
Theorem chosen_stays_recorded :
  forall p fuel path st st' i,
    In i (st_chosen st) -> play fuel p st path = Some st' -> In i (st_chosen st').
Proof. exact chosen_stays_recorded_lemma. Qed.
Check chosen_stays_recorded :
  forall p fuel path st st' i,
    In i (st_chosen st) -> play fuel p st path = Some st' -> In i (st_chosen st').
Print Assumptions chosen_stays_recorded.

(* (5) every read count equals the number of entries recorded in the trace of entries *)
Theorem visits_equal_entries :
  forall p fuel path st n,
    play fuel p (initial p) path = Some st -> zcount n (st_visits st) = occ n (st_trace st).
Proof. exact visits_equal_entries_lemma. Qed.
Check visits_equal_entries :
  forall p fuel path st n,
    play fuel p (initial p) path = Some st -> zcount n (st_visits st) = occ n (st_trace st).
Print Assumptions visits_equal_entries.

(* (6) any invariant of the primitive state updates is an invariant of whole plays (the
   preservation principle the three theorems above are instances of) *)
Theorem invariants_lift_to_plays :
  forall (I : state -> Prop), stable I ->
  forall p fuel path st st', I st -> play fuel p st path = Some st' -> I st'.
Proof. exact st_play. Qed.
Check invariants_lift_to_plays :
  forall (I : state -> Prop), stable I ->
  forall p fuel path st st', I st -> play fuel p st path = Some st' -> I st'.
Print Assumptions invariants_lift_to_plays.
