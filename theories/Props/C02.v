(* Props/C02.v — saving and loading a game preserves all future behaviour.
   Only statements, `exact`, Check and Print Assumptions.

   The model of the save format is Engine/Save.v (write_state / load_state), what a
   round trip does to a state is Engine/SaveWf.v (norm_*: the fields the format does
   not carry are replaced by what the loader puts there; wf_*: the executable
   well-formedness predicate).  [panics] (the unwrap-site table) and [sw] (what the
   format carries) are universally quantified: the theorems hold for the switches
   regenerated from the current sources and for the repaired format alike. *)
From Ink.Engine Require Import SaveWf SaveProofs RunSave SaveWitness SaveWitnessProofs Tie.
From Ink.Data Require Import Tree.
From Ink.Gen Require Import EngineGen SaveGen.
From Ink.Gen Require Import SaveGen.
From Ink.Engine Require Import Save.
From Ink.Shell Require Import LoadFlows.

(* (1) every kind of value: what is read back is the value written, except that a
   list loses `origins` (and, unless the format writes them, its origin names) *)
Theorem value_roundtrip :
  forall sw v, wf_value_b v = true -> read_value (write_value sw v) = Ok (norm_value sw v).
Proof. exact value_roundtrip_lemma. Qed.
Check value_roundtrip :
  forall sw v, wf_value_b v = true -> read_value (write_value sw v) = Ok (norm_value sw v).
Print Assumptions value_roundtrip.

(* (2) a position written as cPath / idx is the position read back, for every
   container position of a well-formed content tree (Data/TreeProofs.v) *)
Theorem pointer_roundtrip :
  forall root cp c i, wf_tree root = true -> cont_at root cp = Some c -> in_i32 i = true ->
    elem_ptr_ok_b root (mkPtr (Some cp) i) = true.
Proof. exact pointer_roundtrip_lemma2. Qed.
Check pointer_roundtrip :
  forall root cp c i, wf_tree root = true -> cont_at root cp = Some c -> in_i32 i = true ->
    elem_ptr_ok_b root (mkPtr (Some cp) i) = true.
Print Assumptions pointer_roundtrip.

(* (3) threads: temporaries, pointers, expression flag and type survive; the
   evaluation-stack height and the function start of every element come back as 0,
   previous_pointer as a pointer to the same object *)
Theorem thread_roundtrip :
  forall panics sw root t, wf_thread_b root t = true ->
    exists o, write_thread panics sw root t = Ok (JObj o) /\ read_thread sw root o = Ok (norm_thread sw root t).
Proof. exact thread_roundtrip_lemma. Qed.
Check thread_roundtrip :
  forall panics sw root t, wf_thread_b root t = true ->
    exists o, write_thread panics sw root t = Ok (JObj o) /\ read_thread sw root o = Ok (norm_thread sw root t).
Print Assumptions thread_roundtrip.

(* (4) a pending choice: text, index, paths, tags and thread index survive; the
   invisible-default flag survives iff the format writes AND reads it (D10) *)
Theorem choice_roundtrip :
  forall sw c idx,
    wf_path_b (ch_target c) = true -> (ch_index c <? 18446744073709551616)%N = true ->
    (idx <? 9223372036854775808)%N = true ->
    jtoken_to_obj (write_choice sw c idx) None = Ok (OChoice (saved_of c idx))
    /\ ch_invisible (choice_of_saved sw (write_choice sw c idx) (saved_of c idx))
       = ssw_invis_written sw && ssw_invis_read sw && ch_invisible c.
Proof.
  intros sw c idx H1 H2 H3. split; [now apply choice_token_roundtrip|apply choice_flag_read].
Qed.
Check choice_roundtrip :
  forall sw c idx,
    wf_path_b (ch_target c) = true -> (ch_index c <? 18446744073709551616)%N = true ->
    (idx <? 9223372036854775808)%N = true ->
    jtoken_to_obj (write_choice sw c idx) None = Ok (OChoice (saved_of c idx))
    /\ ch_invisible (choice_of_saved sw (write_choice sw c idx) (saved_of c idx))
       = ssw_invis_written sw && ssw_invis_read sw && ch_invisible c.
Print Assumptions choice_roundtrip.

(* (5) globals: a global equal to its default is not written and comes back as the
   default; every other one comes back as its normal form *)
Theorem vars_roundtrip :
  forall panics sw v defaults_t,
    wf_valmap_b (vs_globals v) = true -> keys_nodup_b (vs_defaults v) = true ->
    defaults_t = vs_defaults v ->
    exists o, write_vars sw v = JObj o
              /\ load_vars_loop panics defaults_t o [] = (Ok tt, norm_globals sw defaults_t (vs_globals v)).
Proof. exact vars_roundtrip_lemma. Qed.
Check vars_roundtrip :
  forall panics sw v defaults_t,
    wf_valmap_b (vs_globals v) = true -> keys_nodup_b (vs_defaults v) = true ->
    defaults_t = vs_defaults v ->
    exists o, write_vars sw v = JObj o
              /\ load_vars_loop panics defaults_t o [] = (Ok tt, norm_globals sw defaults_t (vs_globals v)).
Print Assumptions vars_roundtrip.

(* (6) a flow: call stack, output stream, pending choices with their threads
   (taken from the call stack when a thread of that index is there) *)
Theorem flow_roundtrip :
  forall panics sw root cur_cs name f, wf_flow_b root cur_cs f = true ->
    exists o, write_flow panics sw root cur_cs f = Ok (JObj o)
              /\ flow_from_json panics sw root name o = Ok (norm_flow sw root cur_cs name f).
Proof. exact flow_roundtrip_lemma. Qed.
Check flow_roundtrip :
  forall panics sw root cur_cs name f, wf_flow_b root cur_cs f = true ->
    exists o, write_flow panics sw root cur_cs f = Ok (JObj o)
              /\ flow_from_json panics sw root name o = Ok (norm_flow sw root cur_cs name f).
Print Assumptions flow_roundtrip.

(* (7) the whole state: saving a well-formed world succeeds, and loading the save
   into ANY story of the same program (same tree, same default globals — a fresh
   one in particular) succeeds and yields exactly [norm_save]: the saved state with
   the erased fields reset, the target's own did_safe_exit / errors / warnings /
   patch, and — on the current sources — the stale flow entry in place of the live
   flow (D12), choices visible (D10), empty lists without origin names (D11). *)
Theorem save_load_norm :
  forall panics sw t w,
    wf_world_b w = true -> root_of t = root_of w ->
    vs_defaults (ss_vars (w_state t)) = vs_defaults (ss_vars (w_state w)) ->
    exists j, write_state panics sw w = Ok j
              /\ load_state panics sw t j = (OOk tt, norm_save sw (root_of w) t w).
Proof. exact save_load_norm_lemma. Qed.
Check save_load_norm :
  forall panics sw t w,
    wf_world_b w = true -> root_of t = root_of w ->
    vs_defaults (ss_vars (w_state t)) = vs_defaults (ss_vars (w_state w)) ->
    exists j, write_state panics sw w = Ok j
              /\ load_state panics sw t j = (OOk tt, norm_save sw (root_of w) t w).
Print Assumptions save_load_norm.

(* (7b) saving the loaded story again yields the same save (the JSON term itself,
   key order included), provided the format reads what it writes (the two coherence
   conditions on the switches hold for the regenerated values: see below), the
   target has no pending diverted pointer (a fresh story), and the globals are the
   declared ones in declaration order with defaults that equal themselves (no NaN) *)
Theorem resave_equiv :
  forall panics sw t w,
    ssw_invis_written sw = ssw_invis_read sw ->
    (ssw_list_eq_origins sw = true -> ssw_origins_written sw = true) ->
    wf_world_b w = true -> resave_hyp_b sw w = true ->
    root_of t = root_of w ->
    vs_defaults (ss_vars (w_state t)) = vs_defaults (ss_vars (w_state w)) ->
    ptr_is_null (ss_diverted (w_state t)) = true ->
    write_state panics sw (norm_save sw (root_of w) t w) = write_state panics sw w.
Proof. exact resave_equiv_b. Qed.
Check resave_equiv :
  forall panics sw t w,
    ssw_invis_written sw = ssw_invis_read sw ->
    (ssw_list_eq_origins sw = true -> ssw_origins_written sw = true) ->
    wf_world_b w = true -> resave_hyp_b sw w = true ->
    root_of t = root_of w ->
    vs_defaults (ss_vars (w_state t)) = vs_defaults (ss_vars (w_state w)) ->
    ptr_is_null (ss_diverted (w_state t)) = true ->
    write_state panics sw (norm_save sw (root_of w) t w) = write_state panics sw w.
Print Assumptions resave_equiv.

(* the coherence conditions of (7b) hold for the format as the sources define it now *)
Theorem format_reads_what_it_writes :
  ssw_invis_written save_switches_now = ssw_invis_read save_switches_now
  /\ (ssw_list_eq_origins save_switches_now = true -> ssw_origins_written save_switches_now = true).
Proof. exact switches_coherent_now. Qed.
Check format_reads_what_it_writes :
  ssw_invis_written save_switches_now = ssw_invis_read save_switches_now
  /\ (ssw_list_eq_origins save_switches_now = true -> ssw_origins_written save_switches_now = true).
Print Assumptions format_reads_what_it_writes.

(* (7c) every flow survives (property C10's "saving preserves all flows"): after the
   load, the flow registered under each name is the normal form of the flow that was
   registered under it — provided named_flows holds no entry under the current flow's
   own name (the stale entry of D12; with the alias switch off it is never created) *)
Theorem save_preserves_all_flows :
  forall panics sw t w,
    wf_world_b w = true -> no_alias_entry_b (w_state w) = true ->
    root_of t = root_of w ->
    vs_defaults (ss_vars (w_state t)) = vs_defaults (ss_vars (w_state w)) ->
    exists j w', write_state panics sw w = Ok j
      /\ load_state panics sw t j = (OOk tt, w')
      /\ forall k f, flow_of (w_state w) k = Some f ->
           flow_of (w_state w') k = Some (norm_flow sw (root_of w) (fl_cs (ss_flow (w_state w))) k f).
Proof. exact save_preserves_all_flows_lemma. Qed.
Check save_preserves_all_flows :
  forall panics sw t w,
    wf_world_b w = true -> no_alias_entry_b (w_state w) = true ->
    root_of t = root_of w ->
    vs_defaults (ss_vars (w_state t)) = vs_defaults (ss_vars (w_state w)) ->
    exists j w', write_state panics sw w = Ok j
      /\ load_state panics sw t j = (OOk tt, w')
      /\ forall k f, flow_of (w_state w) k = Some f ->
           flow_of (w_state w') k = Some (norm_flow sw (root_of w) (fl_cs (ss_flow (w_state w))) k f).
Print Assumptions save_preserves_all_flows.

(* (7d) PARTIAL behavioural statement: right after the load the restored story shows
   what the original showed — every field that the host getters read (output stream,
   hence current text and tags; pending choices with their visibility; the current
   pointer, hence can_continue; evaluation stack; globals; visit / turn counts; seeds)
   is the original's, values up to norm_value.  What is missing for the full property
   is the bisimulation "the engine's step function respects norm_save" (not proved;
   explored by the lock-step oracle of tools/props/c02.py). *)
Theorem restored_state_immediate_partial :
  forall panics sw t w,
    wf_world_b w = true -> no_alias_entry_b (w_state w) = true ->
    root_of t = root_of w ->
    vs_defaults (ss_vars (w_state t)) = vs_defaults (ss_vars (w_state w)) ->
    exists j w', write_state panics sw w = Ok j
      /\ load_state panics sw t j = (OOk tt, w')
      /\ let s := w_state w in let s' := w_state w' in
         fl_name (ss_flow s') = fl_name (ss_flow s)
         /\ fl_out (ss_flow s') = map (norm_obj sw) (fl_out (ss_flow s))
         /\ map ch_text (fl_choices (ss_flow s')) = map ch_text (fl_choices (ss_flow s))
         /\ map ch_tags (fl_choices (ss_flow s')) = map ch_tags (fl_choices (ss_flow s))
         /\ map ch_invisible (fl_choices (ss_flow s'))
            = map (fun c => ssw_invis_written sw && ssw_invis_read sw && ch_invisible c) (fl_choices (ss_flow s))
         /\ (do e <- cs_cur_element (fl_cs (ss_flow s')); Ok (el_ptr e))
            = (do e <- cs_cur_element (fl_cs (ss_flow s)); Ok (norm_ptr (el_ptr e)))
         /\ ss_eval s' = map (norm_obj sw) (ss_eval s)
         /\ vs_globals (ss_vars s') = norm_globals sw (vs_defaults (ss_vars (w_state t))) (vs_globals (ss_vars s))
         /\ ss_visits s' = ss_visits s /\ ss_turns s' = ss_turns s /\ ss_turn s' = ss_turn s
         /\ ss_seed s' = ss_seed s /\ ss_prev_random s' = ss_prev_random s.
Proof. exact restored_state_immediate_partial_lemma. Qed.
Check restored_state_immediate_partial :
  forall panics sw t w,
    wf_world_b w = true -> no_alias_entry_b (w_state w) = true ->
    root_of t = root_of w ->
    vs_defaults (ss_vars (w_state t)) = vs_defaults (ss_vars (w_state w)) ->
    exists j w', write_state panics sw w = Ok j
      /\ load_state panics sw t j = (OOk tt, w')
      /\ let s := w_state w in let s' := w_state w' in
         fl_name (ss_flow s') = fl_name (ss_flow s)
         /\ fl_out (ss_flow s') = map (norm_obj sw) (fl_out (ss_flow s))
         /\ map ch_text (fl_choices (ss_flow s')) = map ch_text (fl_choices (ss_flow s))
         /\ map ch_tags (fl_choices (ss_flow s')) = map ch_tags (fl_choices (ss_flow s))
         /\ map ch_invisible (fl_choices (ss_flow s'))
            = map (fun c => ssw_invis_written sw && ssw_invis_read sw && ch_invisible c) (fl_choices (ss_flow s))
         /\ (do e <- cs_cur_element (fl_cs (ss_flow s')); Ok (el_ptr e))
            = (do e <- cs_cur_element (fl_cs (ss_flow s)); Ok (norm_ptr (el_ptr e)))
         /\ ss_eval s' = map (norm_obj sw) (ss_eval s)
         /\ vs_globals (ss_vars s') = norm_globals sw (vs_defaults (ss_vars (w_state t))) (vs_globals (ss_vars s))
         /\ ss_visits s' = ss_visits s /\ ss_turns s' = ss_turns s /\ ss_turn s' = ss_turn s
         /\ ss_seed s' = ss_seed s /\ ss_prev_random s' = ss_prev_random s.
Print Assumptions restored_state_immediate_partial.

(* the hypotheses are satisfiable: three reachable states (a pending fallback choice,
   an emptied list, a second flow at a choice point) are well-formed save points whose
   saves load into a fresh story *)
Theorem save_load_norm_example :
  wit_ok wit_fallback_json wit_fallback_script = true
  /\ wit_ok wit_lists_json wit_lists_script = true
  /\ wit_ok wit_flows_json wit_flows_script = true.
Proof. exact witnesses_well_formed. Qed.
Check save_load_norm_example :
  wit_ok wit_fallback_json wit_fallback_script = true
  /\ wit_ok wit_lists_json wit_lists_script = true
  /\ wit_ok wit_flows_json wit_flows_script = true.
Print Assumptions save_load_norm_example.
Print Assumptions value_roundtrip.   (* separator for the Print-Assumptions parser of tools/vlib.py *)

(* (8) the behavioural half — "the restored story is indistinguishable from the
   original" — is REFUTED on the model of the current sources while any of the three
   defects is present: there is a story and a history after which exploring the
   restored story gives a different transcript.  The hypothesis is a closed boolean
   over the REGENERATED switches; after the three repairs it is false and this
   theorem is vacuous.
     full statement (not provable today):
       forall w, reachable w -> at_save_point w = true ->
         forall ops, events (run ops (restored w)) = events (run ops w)            *)
Theorem save_load_equiv_refuted :
  (alias_current || negb (choice_invisible_written && choice_invisible_read) || negb list_origins_written) = true ->
  exists j script, differs_on sw_now save_switches_now j script = true.
Proof. exact save_load_equiv_refuted_lemma. Qed.
Check save_load_equiv_refuted :
  (alias_current || negb (choice_invisible_written && choice_invisible_read) || negb list_origins_written) = true ->
  exists j script, differs_on sw_now save_switches_now j script = true.
Print Assumptions save_load_equiv_refuted.
Print Assumptions value_roundtrip.   (* separator for the Print-Assumptions parser of tools/vlib.py *)

(* each witness distinguishes exactly when its defect is in the source *)
Theorem refutation_witnesses :
  differs_on sw_now save_switches_now wit_fallback_json wit_fallback_script
    = negb (choice_invisible_written && choice_invisible_read)
  /\ differs_on sw_now save_switches_now wit_lists_json wit_lists_script = negb list_origins_written
  /\ differs_on sw_now save_switches_now wit_flows_json wit_flows_script = alias_current.
Proof. exact (conj wit_fallback_spec (conj wit_lists_spec wit_flows_spec)). Qed.
Check refutation_witnesses :
  differs_on sw_now save_switches_now wit_fallback_json wit_fallback_script
    = negb (choice_invisible_written && choice_invisible_read)
  /\ differs_on sw_now save_switches_now wit_lists_json wit_lists_script = negb list_origins_written
  /\ differs_on sw_now save_switches_now wit_flows_json wit_flows_script = alias_current.
Print Assumptions refutation_witnesses.

(* ---------------- a successful load replaces the parked flows ---------------- *)
(* loading a save (current format) into a live story whose parked flows differ from the save's —
   flows created after the save point, flows the save never had — gives exactly the world that
   loading into a story without them gives: no flow of the abandoned timeline survives a load *)
Theorem successful_load_replaces_parked_flows :
  forall (sp : ssite -> bool) (ssw : save_switches) (v : option (list (text * flow))) (w : world) (j : json) (w' : world),
    jget "flows" j <> None ->
    load_state sp ssw w j = (OOk tt, w') ->
    load_state sp ssw (with_named v w) j = (OOk tt, w').
Proof. exact LoadFlows.successful_load_replaces_parked_flows. Qed.
Check successful_load_replaces_parked_flows :
  forall (sp : ssite -> bool) (ssw : save_switches) (v : option (list (text * flow))) (w : world) (j : json) (w' : world),
    jget "flows" j <> None ->
    load_state sp ssw w j = (OOk tt, w') ->
    load_state sp ssw (with_named v w) j = (OOk tt, w').
Print Assumptions successful_load_replaces_parked_flows.
