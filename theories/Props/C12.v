(* Props/C12.v — external functions are called as bound: right arguments, order and timing.
   Statements about Engine/Step.v::call_external_function with the regenerated switches. *)
From Ink.Engine Require Import Api Tie.
From Ink.Shell Require Import ExternalProofs.

Theorem unsafe_never_speculative :
  forall (I : iface) (name : text) (nargs : Z) (w : world) def snap,
  assoc name (w_externals w) = Some def -> ex_safe def = false ->
  in_string_evaluation (w_state w) = false ->
  w_snapshot w = Some snap ->
  call_external_function I sw_now name nargs w = (OOk tt, w <| w_saw_unsafe := true |>).
Proof. exact ExternalProofs.unsafe_never_speculative. Qed.
Check unsafe_never_speculative :
  forall (I : iface) (name : text) (nargs : Z) (w : world) def snap,
  assoc name (w_externals w) = Some def -> ex_safe def = false ->
  in_string_evaluation (w_state w) = false ->
  w_snapshot w = Some snap ->
  call_external_function I sw_now name nargs w = (OOk tt, w <| w_saw_unsafe := true |>).
Print Assumptions unsafe_never_speculative.

Theorem unsafe_refused_in_string :
  forall (I : iface) (name : text) (nargs : Z) (w : world) def o w',
  assoc name (w_externals w) = Some def -> ex_safe def = false ->
  in_string_evaluation (w_state w) = true ->
  call_external_function I sw_now name nargs w = (o, w') ->
  w_events w' = w_events w /\ (o = OOk tt -> ss_errors (w_state w') <> []).
Proof. exact ExternalProofs.unsafe_refused_in_string. Qed.
Check unsafe_refused_in_string :
  forall (I : iface) (name : text) (nargs : Z) (w : world) def o w',
  assoc name (w_externals w) = Some def -> ex_safe def = false ->
  in_string_evaluation (w_state w) = true ->
  call_external_function I sw_now name nargs w = (o, w') ->
  w_events w' = w_events w /\ (o = OOk tt -> ss_errors (w_state w') <> []).
Print Assumptions unsafe_refused_in_string.

Theorem unbound_no_panic :
  forall (I : iface) (name : text) (nargs : Z) (w : world) o w',
  assoc name (w_externals w) = None ->
  call_external_function I sw_now name nargs w = (o, w') ->
  (forall site, o <> OPanic site) \/
  (exists site, o = OPanic site /\ w_fallbacks w = true /\
                knot_container_with_name (root_of w) name <> None).
Proof. exact ExternalProofs.unbound_no_panic. Qed.
Check unbound_no_panic :
  forall (I : iface) (name : text) (nargs : Z) (w : world) o w',
  assoc name (w_externals w) = None ->
  call_external_function I sw_now name nargs w = (o, w') ->
  (forall site, o <> OPanic site) \/
  (exists site, o = OPanic site /\ w_fallbacks w = true /\
                knot_container_with_name (root_of w) name <> None).
Print Assumptions unbound_no_panic.

Theorem pop_args_order : forall (n : nat) (w : world) acc vs rest,
  ss_eval (w_state w) = rest ++ map OVal vs -> length vs = n ->
  exists w', pop_args n acc w = (OOk (vs ++ acc), w')
             /\ ss_eval (w_state w') = rest /\ w_events w' = w_events w.
Proof. exact ExternalProofs.pop_args_order. Qed.
Check pop_args_order : forall (n : nat) (w : world) acc vs rest,
  ss_eval (w_state w) = rest ++ map OVal vs -> length vs = n ->
  exists w', pop_args n acc w = (OOk (vs ++ acc), w')
             /\ ss_eval (w_state w') = rest /\ w_events w' = w_events w.
Print Assumptions pop_args_order.

From Ink.Gen Require Import SaveGen.
From Ink.Engine Require Import Save.
From Ink.Shell Require Import HostFrame Events.

(* ---------------- what the host has been told stays told ----------------
   The model's event log records every call the engine makes into the host (observer, error handler,
   external function).  For the whole engine model it is append-only: no interpreter step, no look-ahead
   rewind, no story operation and no load retracts, reorders or rewrites a call already made. *)
Theorem event_log_append_only :
  forall (I : iface) (sw : switches) (ops : list story_op) (w : world),
    exists l, w_events (run_story_ops I sw ops w) = w_events w ++ l.
Proof. exact Events.event_log_append_only. Qed.
Check event_log_append_only :
  forall (I : iface) (sw : switches) (ops : list story_op) (w : world),
    exists l, w_events (run_story_ops I sw ops w) = w_events w ++ l.
Print Assumptions event_log_append_only.

Theorem host_call_is_never_retracted :
  forall (I : iface) (sw : switches) (ops1 ops2 : list story_op) (w : world) (n : nat) (e : event),
    nth_error (w_events (run_story_ops I sw ops1 w)) n = Some e ->
    nth_error (w_events (run_story_ops I sw ops2 (run_story_ops I sw ops1 w))) n = Some e.
Proof. exact Events.host_call_is_never_retracted. Qed.
Check host_call_is_never_retracted :
  forall (I : iface) (sw : switches) (ops1 ops2 : list story_op) (w : world) (n : nat) (e : event),
    nth_error (w_events (run_story_ops I sw ops1 w)) n = Some e ->
    nth_error (w_events (run_story_ops I sw ops2 (run_story_ops I sw ops1 w))) n = Some e.
Print Assumptions host_call_is_never_retracted.

Theorem load_keeps_event_log :
  forall (sp : ssite -> bool) (ssw : save_switches) (w : world) (j : json),
    w_events (snd (load_state sp ssw w j)) = w_events w.
Proof. exact Events.load_keeps_event_log. Qed.
Check load_keeps_event_log :
  forall (sp : ssite -> bool) (ssw : save_switches) (w : world) (j : json),
    w_events (snd (load_state sp ssw w j)) = w_events w.
Print Assumptions load_keeps_event_log.

(* ---------------- a bound function that is actually called is called exactly once ----------------
   with the arguments in push order and the current line count; whatever becomes of the returned value *)
From Ink.Shell Require Import ExternalOnce.
Theorem bound_external_called_exactly_once :
  forall (I : iface) (name : text) (nargs : Z) (w : world) def vs rest,
    assoc name (w_externals w) = Some def ->
    (ex_safe def = true \/ (in_string_evaluation (w_state w) = false /\ w_snapshot w = None)) ->
    ss_eval (w_state w) = rest ++ map OVal vs -> length vs = Z.to_nat nargs ->
    exists o w', call_external_function I sw_now name nargs w = (o, w')
                 /\ w_events w' = w_events w ++ [EvExt name vs (w_lines w)].
Proof. exact ExternalOnce.bound_external_called_exactly_once. Qed.
Check bound_external_called_exactly_once :
  forall (I : iface) (name : text) (nargs : Z) (w : world) def vs rest,
    assoc name (w_externals w) = Some def ->
    (ex_safe def = true \/ (in_string_evaluation (w_state w) = false /\ w_snapshot w = None)) ->
    ss_eval (w_state w) = rest ++ map OVal vs -> length vs = Z.to_nat nargs ->
    exists o w', call_external_function I sw_now name nargs w = (o, w')
                 /\ w_events w' = w_events w ++ [EvExt name vs (w_lines w)].
Print Assumptions bound_external_called_exactly_once.

(* T-gen tie of the event-log theorems: the Rust engine calls into the host at exactly the places (and from exactly the
   callers) where the model logs an event — regenerated from the sources on every run *)
From Ink.Gen Require Import EngineGen.
From Ink.Shell Require Import EventsTie.
Theorem host_calls_are_where_the_model_logs_them : host_calls_confined = true.
Proof. exact EventsTie.now_host_calls_confined. Qed.
Check host_calls_are_where_the_model_logs_them : host_calls_confined = true.
Print Assumptions host_calls_are_where_the_model_logs_them.

(* T-gen tie of registrations_survive_*: in the Rust sources the observers, external bindings, error handler and
   fallbacks flag are written by the registration calls only — regenerated from the sources on every run *)
From Ink.Gen Require Import EngineGen.
From Ink.Shell Require Import StructureTie.
Theorem registrations_are_written_by_registration_calls_only : registrations_written_by_registration_calls = true.
Proof. exact StructureTie.now_registrations_written_by_registration_calls. Qed.
Check registrations_are_written_by_registration_calls_only : registrations_written_by_registration_calls = true.
Print Assumptions registrations_are_written_by_registration_calls_only.
