(* Props/C10.v — flows are independent except for global variables and counts.
   A flow is a record (call stack with its threads and temporaries, output
   stream, choices).  Switching and removing move whole records; the content of
   no flow changes.  FOOTPRINT of the interpreter (Shell/FlowFrame, FlowFootprint): every
   host operation on the current flow — all forms of continue, choose, jump, evaluate a
   function, set a variable — commutes with an arbitrary replacement of the parked flows,
   for the whole interpreter model; hence (1) parked flows are literally untouched and
   (2) nothing the current flow returns, logs or stores depends on them.  What is NOT a
   theorem: independence through the SHARED globals / visit counts ("disjoint knots and
   variables" of the interleaving corollary) — see the partial note in tools/props/c10.py. *)
From Ink.Engine Require Import Api Tie.
From Ink.Shell Require Import FlowProofs FlowFrame FlowFootprint.
From Ink.Gen Require Import SaveGen.
From Ink.Engine Require Import Save.
From Ink.Shell Require Import LoadFlows.

Theorem switch_preserves_flows : forall (name k : text) (s : sstate) (f : flow),
  flows_ok s -> lookup_flow s k = Some f ->
  lookup_flow (switch_flow_internal name s) k = Some f.
Proof. exact FlowProofs.switch_preserves_flows. Qed.
Check switch_preserves_flows : forall (name k : text) (s : sstate) (f : flow),
  flows_ok s -> lookup_flow s k = Some f ->
  lookup_flow (switch_flow_internal name s) k = Some f.
Print Assumptions switch_preserves_flows.

Theorem switch_keeps_flows_ok : forall (name : text) (s : sstate),
  flows_ok s -> flows_ok (switch_flow_internal name s).
Proof. exact FlowProofs.switch_keeps_flows_ok. Qed.
Check switch_keeps_flows_ok : forall (name : text) (s : sstate),
  flows_ok s -> flows_ok (switch_flow_internal name s).
Print Assumptions switch_keeps_flows_ok.

Theorem switch_roundtrip : forall (name k : text) (s : sstate) (f : flow),
  flows_ok s -> lookup_flow s k = Some f ->
  lookup_flow (switch_flow_internal (fl_name (ss_flow s)) (switch_flow_internal name s)) k = Some f
  /\ ss_flow (switch_flow_internal (fl_name (ss_flow s)) (switch_flow_internal name s)) = ss_flow s.
Proof. exact FlowProofs.switch_roundtrip. Qed.
Check switch_roundtrip : forall (name k : text) (s : sstate) (f : flow),
  flows_ok s -> lookup_flow s k = Some f ->
  lookup_flow (switch_flow_internal (fl_name (ss_flow s)) (switch_flow_internal name s)) k = Some f
  /\ ss_flow (switch_flow_internal (fl_name (ss_flow s)) (switch_flow_internal name s)) = ss_flow s.
Print Assumptions switch_roundtrip.

Theorem remove_flow_frame : forall (name k : text) (w : world) (f : flow),
  w_async w = false -> flows_ok (w_state w) ->
  text_eqb name DEFAULT_FLOW = false -> text_eqb k name = false ->
  text_eqb (fl_name (ss_flow (w_state w))) name = false ->
  lookup_flow (w_state w) k = Some f ->
  exists w', remove_flow sw_now name w = (OOk tt, w') /\ lookup_flow (w_state w') k = Some f.
Proof. exact FlowProofs.remove_flow_frame. Qed.
Check remove_flow_frame : forall (name k : text) (w : world) (f : flow),
  w_async w = false -> flows_ok (w_state w) ->
  text_eqb name DEFAULT_FLOW = false -> text_eqb k name = false ->
  text_eqb (fl_name (ss_flow (w_state w))) name = false ->
  lookup_flow (w_state w) k = Some f ->
  exists w', remove_flow sw_now name w = (OOk tt, w') /\ lookup_flow (w_state w') k = Some f.
Print Assumptions remove_flow_frame.

(* non-vacuity: the initial state satisfies the invariant *)
Example fresh_flows_ok : forall seed, flows_ok (sstate_new seed).
Proof. intros seed. unfold flows_ok, sstate_new, named_of. cbn. repeat split; discriminate || reflexivity. Qed.

(* ---------------- footprint of operations on the current flow ---------------- *)
(* the code as written now: copy_and_start_patching does not touch named_flows
   (now_no_alias : regenerated switch alias_current = false) *)
Theorem current_flow_ops_commute_with_parked_flows :
  forall (I : iface) (v : option (list (text * flow))) (op : cur_op) (w : world),
    run_cur_op I sw_now op (uw v w) = (let (o, w') := run_cur_op I sw_now op w in (o, uw v w')).
Proof. exact (fun I v op => cur_op_commutes I sw_now now_no_alias v op). Qed.
Check current_flow_ops_commute_with_parked_flows :
  forall (I : iface) (v : option (list (text * flow))) (op : cur_op) (w : world),
    run_cur_op I sw_now op (uw v w) = (let (o, w') := run_cur_op I sw_now op w in (o, uw v w')).
Print Assumptions current_flow_ops_commute_with_parked_flows.

Theorem parked_flows_untouched :
  forall (I : iface) (v : option (list (text * flow))) (ops : list cur_op) (w : world),
    parked_are v w -> parked_are v (snd (run_ops I sw_now ops w)).
Proof. exact (fun I => FlowFootprint.parked_flows_untouched I sw_now now_no_alias). Qed.
Check parked_flows_untouched :
  forall (I : iface) (v : option (list (text * flow))) (ops : list cur_op) (w : world),
    parked_are v w -> parked_are v (snd (run_ops I sw_now ops w)).
Print Assumptions parked_flows_untouched.

Theorem parked_flows_irrelevant :
  forall (I : iface) (v : option (list (text * flow))) (ops : list cur_op) (w : world),
  fst (run_ops I sw_now ops (uw v w)) = fst (run_ops I sw_now ops w) /\
  w_events (snd (run_ops I sw_now ops (uw v w))) = w_events (snd (run_ops I sw_now ops w)) /\
  ss_flow (w_state (snd (run_ops I sw_now ops (uw v w)))) = ss_flow (w_state (snd (run_ops I sw_now ops w))) /\
  ss_vars (w_state (snd (run_ops I sw_now ops (uw v w)))) = ss_vars (w_state (snd (run_ops I sw_now ops w))) /\
  ss_visits (w_state (snd (run_ops I sw_now ops (uw v w)))) = ss_visits (w_state (snd (run_ops I sw_now ops w))) /\
  ss_turns (w_state (snd (run_ops I sw_now ops (uw v w)))) = ss_turns (w_state (snd (run_ops I sw_now ops w))).
Proof. exact (fun I => FlowFootprint.parked_flows_irrelevant I sw_now now_no_alias). Qed.
Check parked_flows_irrelevant :
  forall (I : iface) (v : option (list (text * flow))) (ops : list cur_op) (w : world),
  fst (run_ops I sw_now ops (uw v w)) = fst (run_ops I sw_now ops w) /\
  w_events (snd (run_ops I sw_now ops (uw v w))) = w_events (snd (run_ops I sw_now ops w)) /\
  ss_flow (w_state (snd (run_ops I sw_now ops (uw v w)))) = ss_flow (w_state (snd (run_ops I sw_now ops w))) /\
  ss_vars (w_state (snd (run_ops I sw_now ops (uw v w)))) = ss_vars (w_state (snd (run_ops I sw_now ops w))) /\
  ss_visits (w_state (snd (run_ops I sw_now ops (uw v w)))) = ss_visits (w_state (snd (run_ops I sw_now ops w))) /\
  ss_turns (w_state (snd (run_ops I sw_now ops (uw v w)))) = ss_turns (w_state (snd (run_ops I sw_now ops w))).
Print Assumptions parked_flows_irrelevant.

(* non-vacuity: a freshly constructed world has its (absent) parked flows in the required shape,
   and so has any world between host calls whose look-ahead snapshot is gone *)
Example fresh_world_parked : forall st seed fuel, parked_are None (world_init st seed fuel).
Proof. intros. split; reflexivity. Qed.
Example between_calls_parked : forall w, w_snapshot w = None -> parked_are (ss_named (w_state w)) w.
Proof. intros w H. split; [reflexivity|]. now rewrite H. Qed.

(* ---------------- a successful load replaces the parked flows ---------------- *)
(* loading a save (current format) into a live story whose parked flows differ from the save's —
   flows created after the save point, flows the save never had — gives exactly the world that
   loading into a story without them gives: no flow of the abandoned timeline survives a load *)
Theorem successful_load_replaces_parked_flows :
  forall (sp : ssite -> bool) (ssw : save_switches) (v : option (list (text * flow))) (w : world) (j : json) (w' : world),
    jget "flows" j <> None ->
    load_state sp ssw w j = (OOk tt, w') ->
    load_state sp ssw (with_named v w) j = (OOk tt, w').
Proof. exact LoadFlows.successful_load_replaces_parked_flows. Qed.
Check successful_load_replaces_parked_flows :
  forall (sp : ssite -> bool) (ssw : save_switches) (v : option (list (text * flow))) (w : world) (j : json) (w' : world),
    jget "flows" j <> None ->
    load_state sp ssw w j = (OOk tt, w') ->
    load_state sp ssw (with_named v w) j = (OOk tt, w').
Print Assumptions successful_load_replaces_parked_flows.
