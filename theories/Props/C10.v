(* Props/C10.v — flows are independent except for global variables and counts.
   A flow is a record (call stack with its threads and temporaries, output
   stream, choices).  Switching and removing move whole records; the content of
   no flow changes.  Interleaving independence of stepping is NOT a theorem here
   (see the partial note in tools/props/c10.py). *)
From Ink.Engine Require Import Api Tie.
From Ink.Shell Require Import FlowProofs.

Theorem switch_preserves_flows : forall (name k : text) (s : sstate) (f : flow),
  flows_ok s -> lookup_flow s k = Some f ->
  lookup_flow (switch_flow_internal name s) k = Some f.
Proof. exact FlowProofs.switch_preserves_flows. Qed.
Check switch_preserves_flows : forall (name k : text) (s : sstate) (f : flow),
  flows_ok s -> lookup_flow s k = Some f ->
  lookup_flow (switch_flow_internal name s) k = Some f.
Print Assumptions switch_preserves_flows.

Theorem switch_keeps_flows_ok : forall (name : text) (s : sstate),
  flows_ok s -> flows_ok (switch_flow_internal name s).
Proof. exact FlowProofs.switch_keeps_flows_ok. Qed.
Check switch_keeps_flows_ok : forall (name : text) (s : sstate),
  flows_ok s -> flows_ok (switch_flow_internal name s).
Print Assumptions switch_keeps_flows_ok.

Theorem switch_roundtrip : forall (name k : text) (s : sstate) (f : flow),
  flows_ok s -> lookup_flow s k = Some f ->
  lookup_flow (switch_flow_internal (fl_name (ss_flow s)) (switch_flow_internal name s)) k = Some f
  /\ ss_flow (switch_flow_internal (fl_name (ss_flow s)) (switch_flow_internal name s)) = ss_flow s.
Proof. exact FlowProofs.switch_roundtrip. Qed.
Check switch_roundtrip : forall (name k : text) (s : sstate) (f : flow),
  flows_ok s -> lookup_flow s k = Some f ->
  lookup_flow (switch_flow_internal (fl_name (ss_flow s)) (switch_flow_internal name s)) k = Some f
  /\ ss_flow (switch_flow_internal (fl_name (ss_flow s)) (switch_flow_internal name s)) = ss_flow s.
Print Assumptions switch_roundtrip.

Theorem remove_flow_frame : forall (name k : text) (w : world) (f : flow),
  w_async w = false -> flows_ok (w_state w) ->
  text_eqb name DEFAULT_FLOW = false -> text_eqb k name = false ->
  text_eqb (fl_name (ss_flow (w_state w))) name = false ->
  lookup_flow (w_state w) k = Some f ->
  exists w', remove_flow sw_now name w = (OOk tt, w') /\ lookup_flow (w_state w') k = Some f.
Proof. exact FlowProofs.remove_flow_frame. Qed.
Check remove_flow_frame : forall (name k : text) (w : world) (f : flow),
  w_async w = false -> flows_ok (w_state w) ->
  text_eqb name DEFAULT_FLOW = false -> text_eqb k name = false ->
  text_eqb (fl_name (ss_flow (w_state w))) name = false ->
  lookup_flow (w_state w) k = Some f ->
  exists w', remove_flow sw_now name w = (OOk tt, w') /\ lookup_flow (w_state w') k = Some f.
Print Assumptions remove_flow_frame.

(* non-vacuity: the initial state satisfies the invariant *)
Example fresh_flows_ok : forall seed, flows_ok (sstate_new seed).
Proof. intros seed. unfold flows_ok, sstate_new, named_of. cbn. repeat split; discriminate || reflexivity. Qed.
