(* Props/C11.v — variable observers see each committed change once, with the final value.
   The observation batch of the variable store and the host-side notification
   functions; the engine reaches globals only through these functions. *)
From Ink.Engine Require Import Api Tie.
From Ink.Shell Require Import ObserverProofs.
From Ink.Gen Require Import SaveGen.
From Ink.Engine Require Import Save.
From Ink.Shell Require Import HostFrame HostFrameLoad.

Theorem complete_reports_final_values : forall (v v' : varstate) (m : list (text * value)),
  vs_patch v = None ->
  vs_complete_observation v = Ok (m, v') ->
  (forall x val, assoc x m = Some val -> assoc x (vs_globals v) = Some val)
  /\ (forall x names, vs_changed v = Some names -> In x names -> assoc_mem x m = true)
  /\ vs_batch v' = false /\ vs_changed v' = None /\ vs_globals v' = vs_globals v.
Proof. exact ObserverProofs.complete_reports_final_values. Qed.
Check complete_reports_final_values : forall (v v' : varstate) (m : list (text * value)),
  vs_patch v = None ->
  vs_complete_observation v = Ok (m, v') ->
  (forall x val, assoc x m = Some val -> assoc x (vs_globals v) = Some val)
  /\ (forall x names, vs_changed v = Some names -> In x names -> assoc_mem x m = true)
  /\ vs_batch v' = false /\ vs_changed v' = None /\ vs_globals v' = vs_globals v.
Print Assumptions complete_reports_final_values.

Theorem set_global_batch_records : forall (I : iface) (s s' : sstate) name val notify,
  vs_batch (ss_vars s) = true -> vs_patch (ss_vars s) = None ->
  set_global I s name val = Ok (notify, s') ->
  notify = false
  /\ (forall names, vs_changed (ss_vars s) = Some names ->
        exists names', vs_changed (ss_vars s') = Some names' /\ mem_text name names' = true
                       /\ (NoDup names -> NoDup names'))
  /\ assoc_mem name (vs_globals (ss_vars s')) = true.
Proof. exact ObserverProofs.set_global_batch_records. Qed.
Check set_global_batch_records : forall (I : iface) (s s' : sstate) name val notify,
  vs_batch (ss_vars s) = true -> vs_patch (ss_vars s) = None ->
  set_global I s name val = Ok (notify, s') ->
  notify = false
  /\ (forall names, vs_changed (ss_vars s) = Some names ->
        exists names', vs_changed (ss_vars s') = Some names' /\ mem_text name names' = true
                       /\ (NoDup names -> NoDup names'))
  /\ assoc_mem name (vs_globals (ss_vars s')) = true.
Print Assumptions set_global_batch_records.

Theorem host_set_notifies_once : forall (I : iface) (name : text) (v : value) (w : world) s' obs,
  w_async w = false ->
  assoc_mem name (vs_defaults (ss_vars (w_state w))) = true ->
  vs_batch (ss_vars (w_state w)) = false ->
  set_global I (w_state w) name v = Ok (true, s') ->
  assoc name (w_observers w) = Some obs ->
  set_variable I sw_now name v w
  = (OOk tt, (w <| w_state := s' |>) <| w_events ::= fun evs => evs ++ map (fun o => EvObs o name v) obs |>).
Proof. exact ObserverProofs.host_set_notifies_once. Qed.
Check host_set_notifies_once : forall (I : iface) (name : text) (v : value) (w : world) s' obs,
  w_async w = false ->
  assoc_mem name (vs_defaults (ss_vars (w_state w))) = true ->
  vs_batch (ss_vars (w_state w)) = false ->
  set_global I (w_state w) name v = Ok (true, s') ->
  assoc name (w_observers w) = Some obs ->
  set_variable I sw_now name v w
  = (OOk tt, (w <| w_state := s' |>) <| w_events ::= fun evs => evs ++ map (fun o => EvObs o name v) obs |>).
Print Assumptions host_set_notifies_once.

Theorem set_global_outside_continue_notifies : forall (I : iface) (s s' : sstate) name val notify,
  vs_batch (ss_vars s) = false ->
  set_global I s name val = Ok (notify, s') -> notify = true.
Proof. exact ObserverProofs.set_global_outside_continue_notifies. Qed.
Check set_global_outside_continue_notifies : forall (I : iface) (s s' : sstate) name val notify,
  vs_batch (ss_vars s) = false ->
  set_global I s name val = Ok (notify, s') -> notify = true.
Print Assumptions set_global_outside_continue_notifies.

Theorem restore_drops_lookahead : forall (w : world) (snap : sstate),
  w_snapshot w = Some snap -> ss_patch snap = None ->
  exists w', restore_state_snapshot w = (OOk tt, w')
             /\ ss_vars (w_state w') = (ss_vars snap) <| vs_patch := None |>
             /\ w_snapshot w' = None.
Proof. exact ObserverProofs.restore_drops_lookahead. Qed.
Check restore_drops_lookahead : forall (w : world) (snap : sstate),
  w_snapshot w = Some snap -> ss_patch snap = None ->
  exists w', restore_state_snapshot w = (OOk tt, w')
             /\ ss_vars (w_state w') = (ss_vars snap) <| vs_patch := None |>
             /\ w_snapshot w' = None.
Print Assumptions restore_drops_lookahead.

(* ---------------- the host's registrations stay in place ---------------- *)
(* observers, external bindings, the error handler, the fallbacks flag and the program are changed
   by no story operation (continue in all forms, choose, jump, evaluate, set a variable, switch /
   remove flows, RESET) and by no load, however the call ends — for the whole engine model *)
Theorem registrations_survive_story_operations :
  forall (I : iface) (sw : switches) (ops : list story_op) (w : world),
    host_regs (run_story_ops I sw ops w) = host_regs w.
Proof. exact HostFrame.registrations_survive. Qed.
Check registrations_survive_story_operations :
  forall (I : iface) (sw : switches) (ops : list story_op) (w : world),
    host_regs (run_story_ops I sw ops w) = host_regs w.
Print Assumptions registrations_survive_story_operations.

Theorem registrations_survive_load :
  forall (sp : ssite -> bool) (ssw : save_switches) (w : world) (j : json),
    host_regs (snd (load_state sp ssw w j)) = host_regs w.
Proof. exact HostFrameLoad.load_keeps_registrations. Qed.
Check registrations_survive_load :
  forall (sp : ssite -> bool) (ssw : save_switches) (w : world) (j : json),
    host_regs (snd (load_state sp ssw w j)) = host_regs w.
Print Assumptions registrations_survive_load.

From Ink.Gen Require Import SaveGen.
From Ink.Engine Require Import Save.
From Ink.Shell Require Import HostFrame Events.

(* ---------------- what the host has been told stays told ----------------
   The model's event log records every call the engine makes into the host (observer, error handler,
   external function).  For the whole engine model it is append-only: no interpreter step, no look-ahead
   rewind, no story operation and no load retracts, reorders or rewrites a call already made. *)
Theorem event_log_append_only :
  forall (I : iface) (sw : switches) (ops : list story_op) (w : world),
    exists l, w_events (run_story_ops I sw ops w) = w_events w ++ l.
Proof. exact Events.event_log_append_only. Qed.
Check event_log_append_only :
  forall (I : iface) (sw : switches) (ops : list story_op) (w : world),
    exists l, w_events (run_story_ops I sw ops w) = w_events w ++ l.
Print Assumptions event_log_append_only.

Theorem host_call_is_never_retracted :
  forall (I : iface) (sw : switches) (ops1 ops2 : list story_op) (w : world) (n : nat) (e : event),
    nth_error (w_events (run_story_ops I sw ops1 w)) n = Some e ->
    nth_error (w_events (run_story_ops I sw ops2 (run_story_ops I sw ops1 w))) n = Some e.
Proof. exact Events.host_call_is_never_retracted. Qed.
Check host_call_is_never_retracted :
  forall (I : iface) (sw : switches) (ops1 ops2 : list story_op) (w : world) (n : nat) (e : event),
    nth_error (w_events (run_story_ops I sw ops1 w)) n = Some e ->
    nth_error (w_events (run_story_ops I sw ops2 (run_story_ops I sw ops1 w))) n = Some e.
Print Assumptions host_call_is_never_retracted.

Theorem load_keeps_event_log :
  forall (sp : ssite -> bool) (ssw : save_switches) (w : world) (j : json),
    w_events (snd (load_state sp ssw w j)) = w_events w.
Proof. exact Events.load_keeps_event_log. Qed.
Check load_keeps_event_log :
  forall (sp : ssite -> bool) (ssw : save_switches) (w : world) (j : json),
    w_events (snd (load_state sp ssw w j)) = w_events w.
Print Assumptions load_keeps_event_log.

(* ---------------- between host calls the observation batch is closed ----------------
   continue_internal opens the batch at the start of an outermost continue and closes it — reporting every
   changed variable once with its final value (complete_reports_final_values) — when the line is finished;
   no interpreter function opens or closes it.  So in every world reached from construction by story
   operations (none of which panicked), whenever no time-limited continue is pending: nothing is left
   unreported, and a variable the host sets is notified immediately. *)
From Ink.Shell Require Import Balance BetweenCalls BatchClosed.
Theorem batch_closed_between_calls :
  forall (I : iface) (ops : list story_op) (w : world),
    P05 w -> no_panic I sw_now ops w -> P05 (run_story_ops I sw_now ops w).
Proof. exact (fun I => BatchClosed.batch_closed_between_calls I sw_now now_cont_check_first now_counter_dec_first). Qed.
Check batch_closed_between_calls :
  forall (I : iface) (ops : list story_op) (w : world),
    P05 w -> no_panic I sw_now ops w -> P05 (run_story_ops I sw_now ops w).
Print Assumptions batch_closed_between_calls.

Theorem reachable_worlds_have_no_pending_observation :
  forall (I : iface) st seed fuel ops,
    no_panic I sw_now ops (world_init st seed fuel) ->
    let w := run_story_ops I sw_now ops (world_init st seed fuel) in
    w_async w = false ->
    vs_batch (ss_vars (w_state w)) = false /\ vs_changed (ss_vars (w_state w)) = None.
Proof. exact (fun I => BatchClosed.reachable_worlds_have_no_pending_observation I sw_now now_cont_check_first now_counter_dec_first). Qed.
Check reachable_worlds_have_no_pending_observation :
  forall (I : iface) st seed fuel ops,
    no_panic I sw_now ops (world_init st seed fuel) ->
    let w := run_story_ops I sw_now ops (world_init st seed fuel) in
    w_async w = false ->
    vs_batch (ss_vars (w_state w)) = false /\ vs_changed (ss_vars (w_state w)) = None.
Print Assumptions reachable_worlds_have_no_pending_observation.

Theorem host_set_notifies_in_every_reachable_world :
  forall (I : iface) st seed fuel ops (name : text) (v : value) s' obs,
    no_panic I sw_now ops (world_init st seed fuel) ->
    let w := run_story_ops I sw_now ops (world_init st seed fuel) in
    w_async w = false ->
    assoc_mem name (vs_defaults (ss_vars (w_state w))) = true ->
    set_global I (w_state w) name v = Ok (true, s') ->
    assoc name (w_observers w) = Some obs ->
    set_variable I sw_now name v w
    = (OOk tt, (w <| w_state := s' |>) <| w_events ::= fun evs => evs ++ map (fun o => EvObs o name v) obs |>).
Proof. exact BatchClosed.host_set_notifies_in_every_reachable_world. Qed.
Check host_set_notifies_in_every_reachable_world :
  forall (I : iface) st seed fuel ops (name : text) (v : value) s' obs,
    no_panic I sw_now ops (world_init st seed fuel) ->
    let w := run_story_ops I sw_now ops (world_init st seed fuel) in
    w_async w = false ->
    assoc_mem name (vs_defaults (ss_vars (w_state w))) = true ->
    set_global I (w_state w) name v = Ok (true, s') ->
    assoc name (w_observers w) = Some obs ->
    set_variable I sw_now name v w
    = (OOk tt, (w <| w_state := s' |>) <| w_events ::= fun evs => evs ++ map (fun o => EvObs o name v) obs |>).
Print Assumptions host_set_notifies_in_every_reachable_world.

(* T-gen tie of the event-log theorems: the Rust engine calls into the host at exactly the places (and from exactly the
   callers) where the model logs an event — regenerated from the sources on every run *)
From Ink.Gen Require Import EngineGen.
From Ink.Shell Require Import EventsTie.
Theorem host_calls_are_where_the_model_logs_them : host_calls_confined = true.
Proof. exact EventsTie.now_host_calls_confined. Qed.
Check host_calls_are_where_the_model_logs_them : host_calls_confined = true.
Print Assumptions host_calls_are_where_the_model_logs_them.

(* T-gen tie of the structural theorems above: in the Rust sources, too, the observation batch is opened / closed and
   the look-ahead snapshot taken / restored / discarded by continue_internal and continue_single_step only —
   regenerated from the sources on every run *)
From Ink.Gen Require Import EngineGen.
From Ink.Shell Require Import StructureTie.
Theorem lookahead_structure_is_the_models : lookahead_structure_confined = true.
Proof. exact StructureTie.now_lookahead_structure_confined. Qed.
Check lookahead_structure_is_the_models : lookahead_structure_confined = true.
Print Assumptions lookahead_structure_is_the_models.
