(* Props/C20.v — the command-line tool speaks its protocol.
   Only statements, `exact`, Check and Print Assumptions. *)
From Ink.Data Require Import Types.
From Ink.Json Require Import JsonStd JsonStdProofs.
From Ink.Cli Require Import Escape EscapeProofs CliTie.
From Ink.Gen Require Import CliGen.

(* (1) what escape_json_string writes between quotes reads back as the string *)
Theorem escape_roundtrip :
  forall s, JsonStd.parse_string (quote (escape_json_string s)) = Some s.
Proof. exact (escape_roundtrip_gen cli_escape_arms cli_arms_good). Qed.
Check escape_roundtrip :
  forall s, JsonStd.parse_string (quote (escape_json_string s)) = Some s.
Print Assumptions escape_roundtrip.

(* whatever the arms are, each character listed by cli_bad_chars_gen refutes it *)
Theorem escape_roundtrip_refuted :
  forall arms c, In c (cli_bad_chars_gen arms) ->
    JsonStd.parse_string (quote (escape_json_string_gen arms [c])) <> Some [c].
Proof. exact bad_char_refutes. Qed.
Check escape_roundtrip_refuted :
  forall arms c, In c (cli_bad_chars_gen arms) ->
    JsonStd.parse_string (quote (escape_json_string_gen arms [c])) <> Some [c].
Print Assumptions escape_roundtrip_refuted.

(* the arms of the pinned tree (D17): every control character other than \t \n \r
   is written raw; U+007F needs no escape (RFC 8259 section 7: only below U+0020) *)
Example d17_pinned_arms_refuted :
  let arms := [(0, 34, [92; 34]); (0, 92, [92; 92]); (0, 10, [92; 110]); (0, 13, [92; 114]);
               (0, 9, [92; 116]); (2, 0, [])] in
  cli_bad_chars_gen arms
  = [0; 1; 2; 3; 4; 5; 6; 7; 8; 11; 12; 14; 15; 16; 17; 18; 19; 20; 21; 22; 23; 24; 25; 26; 27; 28; 29; 30; 31].
Proof. vm_compute. reflexivity. Qed.
