(* Props/C20.v — the command-line tool speaks its protocol.
   Only statements, `exact`, Check and Print Assumptions. *)
From Ink.Data Require Import Types.
From Ink.Json Require Import JsonStd JsonStdProofs.
From Ink.Cli Require Import Escape EscapeProofs CliTie.
From Ink.Gen Require Import CliGen.

(* (1) what escape_json_string writes between quotes reads back as the string *)
Theorem escape_roundtrip :
  forall s, JsonStd.parse_string (quote (escape_json_string s)) = Some s.
Proof. exact (escape_roundtrip_gen cli_escape_arms cli_arms_good). Qed.
Check escape_roundtrip :
  forall s, JsonStd.parse_string (quote (escape_json_string s)) = Some s.
Print Assumptions escape_roundtrip.

(* whatever the arms are, each character listed by cli_bad_chars_gen refutes it *)
Theorem escape_roundtrip_refuted :
  forall arms c, In c (cli_bad_chars_gen arms) ->
    JsonStd.parse_string (quote (escape_json_string_gen arms [c])) <> Some [c].
Proof. exact bad_char_refutes. Qed.
Check escape_roundtrip_refuted :
  forall arms c, In c (cli_bad_chars_gen arms) ->
    JsonStd.parse_string (quote (escape_json_string_gen arms [c])) <> Some [c].
Print Assumptions escape_roundtrip_refuted.

(* the arms of the pinned tree (D17): every control character other than \t \n \r
   is written raw; U+007F needs no escape (RFC 8259 section 7: only below U+0020) *)
Example d17_pinned_arms_refuted :
  let arms := [(0, 34, [92; 34]); (0, 92, [92; 92]); (0, 10, [92; 110]); (0, 13, [92; 114]);
               (0, 9, [92; 116]); (2, 0, [])] in
  cli_bad_chars_gen arms
  = [0; 1; 2; 3; 4; 5; 6; 7; 8; 11; 12; 14; 15; 16; 17; 18; 19; 20; 21; 22; 23; 24; 25; 26; 27; 28; 29; 30; 31].
Proof. vm_compute. reflexivity. Qed.

(* (2) every line written in -j mode is a well-formed JSON text: exactly the
   one-key object of its kind, carrying the text / tags / choices / messages
   it was given — whatever characters occur in them *)
From Ink.Cli Require Import RenderProofs.
Theorem rendered_lines_are_json :
  forall f32_of_decimal (m : cli_msg),
    JsonStd.parse_json f32_of_decimal (render_json m) = Some (JObj [(msg_key m, msg_payload m)]).
Proof. exact rendered_lines_lemma. Qed.
Check rendered_lines_are_json :
  forall f32_of_decimal (m : cli_msg),
    JsonStd.parse_json f32_of_decimal (render_json m) = Some (JObj [(msg_key m, msg_payload m)]).
Print Assumptions rendered_lines_are_json.

(* the failed-divert line as the pinned tree writes it (path interpolated raw)
   is not JSON for the path consisting of one quote — whatever the arms are *)
Theorem rendered_lines_are_json_refuted :
  forall f32_of_decimal arms help_mode help_msg,
    JsonStd.parse_json f32_of_decimal
      (render_json_gen arms 0 help_mode help_msg (MDivertIssue [c_quote] [])) = None.
Proof. exact divert_mode0_refuted. Qed.
Check rendered_lines_are_json_refuted :
  forall f32_of_decimal arms help_mode help_msg,
    JsonStd.parse_json f32_of_decimal
      (render_json_gen arms 0 help_mode help_msg (MDivertIssue [c_quote] [])) = None.
Print Assumptions rendered_lines_are_json_refuted.

(* (3) parse_input: 1-based numerals, `-> path`, quit/exit/help in any letter
   case; nothing else is ever taken for a choice or a divert *)
Theorem parse_input_spec :
  (forall i, i < 18446744073709551615 -> parse_input (show_N (i + 1)) = IChoice i)
  /\ (forall p, p <> [] -> no_ws p -> parse_input (T "-> " ++ p) = IDivert p)
  /\ (forall t, (map ascii_lower t = T "quit" \/ map ascii_lower t = T "exit" -> parse_input t = IExit)
               /\ (map ascii_lower t = T "help" -> parse_input t = IHelp))
  /\ (forall t, (forall i, parse_input t = IChoice i -> parse_usize (trim t) = Some (i + 1))
               /\ (forall p, parse_input t = IDivert p -> split_whitespace t = [T "->"; p])).
Proof.
  exact (conj parse_input_number (conj parse_input_divert (conj parse_input_keywords parse_input_sound))).
Qed.
Check parse_input_spec :
  (forall i, i < 18446744073709551615 -> parse_input (show_N (i + 1)) = IChoice i)
  /\ (forall p, p <> [] -> no_ws p -> parse_input (T "-> " ++ p) = IDivert p)
  /\ (forall t, (map ascii_lower t = T "quit" \/ map ascii_lower t = T "exit" -> parse_input t = IExit)
               /\ (map ascii_lower t = T "help" -> parse_input t = IHelp))
  /\ (forall t, (forall i, parse_input t = IChoice i -> parse_usize (trim t) = Some (i + 1))
               /\ (forall p, parse_input t = IDivert p -> split_whitespace t = [T "->"; p])).
Print Assumptions parse_input_spec.

(* (4) player_matches_library: SLOT — see the comment at the end of Cli/Escape.v;
   covered by the differential check tools/props/c20.py until Shell/Story.v exists. *)

(* non-vacuity *)
Example rendered_choice_example :
  msg_json (MChoices [(T "a", [T "x"])])
  = JObj [(T "choices", JArr [JObj [(T "text", JStr (T "a")); (T "tags", JArr [JStr (T "x")]);
                                    (T "tag_count", JInt 1)]])].
Proof. reflexivity. Qed.
Example parse_input_hyps_example : no_ws (T "knot.stitch") /\ T "knot.stitch" <> [].
Proof. split; [repeat constructor|discriminate]. Qed.
