(* C18 — dropping a story releases all the memory it used.
   PROVED here: the ownership-graph part (Spec/RcGraph.v): Rc release semantics on finite
   graphs, the content tree alone never leaks, and exactly which resolved diverts make a
   story leak when the divert target cache is a strong reference.
   NOT proved: the allocator-level statement ("live bytes return to the baseline"); it is
   measured by harness/inkleak in tools/props/c18.py. *)
From Coq Require Import List Relations.
Import ListNotations.
From Ink.Data Require Import Types Path.
From Ink.Spec Require Import RcGraph RcGraphProofs RcRun.
From Ink.Gen Require LeakGen.

(* Rc semantics: after the roots are dropped every node is released iff there is no cycle of
   strong references *)
Theorem rc_drop_frees_all_iff_acyclic :
  forall (node : Type) (eqb : node -> node -> bool),
  (forall a b, eqb a b = true <-> a = b) ->
  forall g : graph node, wf_graph node g ->
  (frees_all node eqb g = true <-> acyclic node g).
Proof. exact frees_all_iff_acyclic. Qed.
Check rc_drop_frees_all_iff_acyclic :
  forall (node : Type) (eqb : node -> node -> bool),
  (forall a b, eqb a b = true <-> a = b) ->
  forall g : graph node, wf_graph node g ->
  (frees_all node eqb g = true <-> acyclic node g).
Print Assumptions rc_drop_frees_all_iff_acyclic.

(* what is not released is exactly what lies on, or is reachable from, a cycle *)
Theorem leaked_on_or_from_cycle :
  forall (node : Type) (eqb : node -> node -> bool),
  (forall a b, eqb a b = true <-> a = b) ->
  forall g : graph node, wf_graph node g -> forall n,
  In n (leaked node eqb g) <->
  (In n (g_nodes g) /\ exists c, reach node g c c /\ (c = n \/ reach node g c n)).
Proof. exact leaked_iff_cycle. Qed.
Check leaked_on_or_from_cycle :
  forall (node : Type) (eqb : node -> node -> bool),
  (forall a b, eqb a b = true <-> a = b) ->
  forall g : graph node, wf_graph node g -> forall n,
  In n (leaked node eqb g) <->
  (In n (g_nodes g) /\ exists c, reach node g c c /\ (c = n \/ reach node g c n)).
Print Assumptions leaked_on_or_from_cycle.

(* container -> content / named content edges never form a cycle *)
Theorem tree_edges_acyclic :
  forall root : container, acyclic pos (mkGraph (story_nodes root) (tree_edges root)).
Proof. exact tree_acyclic. Qed.
Check tree_edges_acyclic :
  forall root : container, acyclic pos (mkGraph (story_nodes root) (tree_edges root)).
Print Assumptions tree_edges_acyclic.

(* with the strong cache a story leaks iff its resolved diverts follow each other in a cycle
   (follows (d1,c1) (d2,c2): the container c1 cached by d1 is an ancestor-or-self of d2;
   a divert back to an enclosing knot / weave point is the 1-cycle) *)
Theorem leak_characterisation :
  forall root resolved, wf_cache root resolved ->
  (story_leaks true root resolved = true <->
   exists e, clos_trans _ (dfollow (cache_edges root resolved)) e e).
Proof. exact RcGraphProofs.leak_characterisation. Qed.
Check leak_characterisation :
  forall root resolved, wf_cache root resolved ->
  (story_leaks true root resolved = true <->
   exists e, clos_trans _ (dfollow (cache_edges root resolved)) e e).
Print Assumptions leak_characterisation.

(* hypothesis satisfiable: the witness story below has wf_cache *)
Example leak_characterisation_applies : wf_cache witness_root [witness_loop_divert].
Proof. apply wf_cacheb_sound. vm_compute. reflexivity. Qed.

(* the predicate the checker evaluates on every program is the definition *)
Theorem prediction_is_definition :
  forall root resolved, wf_cache root resolved ->
  predicts_leak true root resolved = story_leaks true root resolved.
Proof. exact predicts_leak_correct. Qed.
Check prediction_is_definition :
  forall root resolved, wf_cache root resolved ->
  predicts_leak true root resolved = story_leaks true root resolved.
Print Assumptions prediction_is_definition.

(* the property, for the code as it is now (Gen/LeakGen.cache_strong is regenerated from
   runtime/src/divert.rs on every run): if the cache is not a strong reference, no story leaks
   under any history *)
Theorem no_leak :
  LeakGen.cache_strong = false ->
  forall root resolved, story_leaks LeakGen.cache_strong root resolved = false.
Proof. intros H root resolved. rewrite H. apply no_leak_weak. Qed.
Check no_leak :
  LeakGen.cache_strong = false ->
  forall root resolved, story_leaks LeakGen.cache_strong root resolved = false.
Print Assumptions no_leak.

(* and it is false of the strong cache: `=== k === x + [again] -> k` after one "again" *)
Theorem no_leak_refuted :
  exists root resolved, wf_cache root resolved /\ story_leaks true root resolved = true.
Proof. exact no_leak_strong_refuted. Qed.
Check no_leak_refuted :
  exists root resolved, wf_cache root resolved /\ story_leaks true root resolved = true.
Print Assumptions no_leak_refuted.
