(* Props/C01.v — "effects written after a line end happen exactly once, however far the engine
   looked ahead": the engine-level theorems (the reference semantics of core Ink is Props/C01_spec.v).
   Only statements, `exact`, Check and Print Assumptions.

   (1) no interpreter step touches the look-ahead snapshot — for the whole interpreter model;
   (2) REWIND: however many steps run past the line end, restoring the snapshot yields exactly the
       StoryState at the line end: nothing a discarded look-ahead wrote (assignments, visit and turn
       counts, generated choices, output, threads, seeds, the changed-variable batch) survives,
       so those effects are produced only by the continue that commits them;
   (3) the single step of the loop is independent of the loop bookkeeping (Props/C08.v) — the step
       that is re-executed after a rewind is the same function of the same state.
   NOT proved: that a COMMITTED look-ahead (newline confirmed, patch applied) equals straight-line
   execution without a snapshot (patch transparency); established by correspondence and by the
   sliced / look-ahead-variant oracle of tools/props/c01.py. *)
From Ink.Engine Require Import Api Tie.
From Ink.Shell Require Import Keeps Rewind HostFrame Balance BetweenCalls PatchShape PatchInv.

Theorem step_keeps_snapshot : forall (I : iface) (sw : switches) (w : world),
  w_snapshot (snd (step I sw w)) = w_snapshot w.
Proof. exact ks_step. Qed.
Check step_keeps_snapshot : forall (I : iface) (sw : switches) (w : world),
  w_snapshot (snd (step I sw w)) = w_snapshot w.
Print Assumptions step_keeps_snapshot.

Theorem restore_gives_snapshot_state : forall (w : world) (s : sstate),
  w_snapshot w = Some s -> patch_free s ->
  exists w3, restore_state_snapshot w = (OOk tt, w3) /\ w_state w3 = s /\ w_snapshot w3 = None
             /\ w_events w3 = w_events w /\ w_rcc w3 = w_rcc w /\ w_async w3 = w_async w.
Proof. exact restore_gives_snapshot. Qed.
Check restore_gives_snapshot_state : forall (w : world) (s : sstate),
  w_snapshot w = Some s -> patch_free s ->
  exists w3, restore_state_snapshot w = (OOk tt, w3) /\ w_state w3 = s /\ w_snapshot w3 = None
             /\ w_events w3 = w_events w /\ w_rcc w3 = w_rcc w /\ w_async w3 = w_async w.
Print Assumptions restore_gives_snapshot_state.

Theorem rewind_exact : forall (sw : switches) (A : Type) (m : M A),
  Keeps w_snapshot m ->
  forall w, patch_free (w_state w) ->
  exists w3, restore_state_snapshot (snd (m (snd (state_snapshot sw w)))) = (OOk tt, w3)
             /\ w_state w3 = w_state w /\ w_snapshot w3 = None.
Proof. exact Rewind.rewind_exact. Qed.
Check rewind_exact : forall (sw : switches) (A : Type) (m : M A),
  Keeps w_snapshot m ->
  forall w, patch_free (w_state w) ->
  exists w3, restore_state_snapshot (snd (m (snd (state_snapshot sw w)))) = (OOk tt, w3)
             /\ w_state w3 = w_state w /\ w_snapshot w3 = None.
Print Assumptions rewind_exact.

Theorem lookahead_rewind_exact : forall (I : iface) (sw : switches) (n : nat) (w : world),
  patch_free (w_state w) ->
  exists w3, restore_state_snapshot (snd (steps I sw n (snd (state_snapshot sw w)))) = (OOk tt, w3)
             /\ w_state w3 = w_state w /\ w_snapshot w3 = None.
Proof. exact Rewind.lookahead_rewind_exact. Qed.
Check lookahead_rewind_exact : forall (I : iface) (sw : switches) (n : nat) (w : world),
  patch_free (w_state w) ->
  exists w3, restore_state_snapshot (snd (steps I sw n (snd (state_snapshot sw w)))) = (OOk tt, w3)
             /\ w_state w3 = w_state w /\ w_snapshot w3 = None.
Print Assumptions lookahead_rewind_exact.

(* non-vacuity: a freshly constructed state has no pending patch *)
Example fresh_patch_free : forall seed, patch_free (sstate_new seed).
Proof. intros seed. split; reflexivity. Qed.

(* ---------------- the hypothesis of the rewind theorem holds in every reachable world ---------------- *)
(* Inv3: a look-ahead patch exists exactly while a look-ahead snapshot exists, and every snapshot
   is a patch-free state.  It is preserved by the single step of the continue loop (so it holds at
   every point INSIDE a continue) ... *)
Theorem patch_exists_exactly_while_snapshot_exists :
  forall (I : iface) (sw : switches) (w : world),
    Inv3 w ->
    match continue_single_step I sw w with
    | (OOk _, w') => Inv3 w'
    | (OErr _ _, w') => Inv3 w'
    | (OPanic _, _) => True
    end.
Proof. exact continue_single_step_inv3. Qed.
Check patch_exists_exactly_while_snapshot_exists :
  forall (I : iface) (sw : switches) (w : world),
    Inv3 w ->
    match continue_single_step I sw w with
    | (OOk _, w') => Inv3 w'
    | (OErr _ _, w') => Inv3 w'
    | (OPanic _, _) => True
    end.
Print Assumptions patch_exists_exactly_while_snapshot_exists.

(* ... and, together with the bookkeeping invariant, by every story operation: in every world
   reachable from construction *)
Theorem all_invariants_hold_in_every_reachable_world :
  forall (I : iface) (ops : list story_op) (w : world),
    InvAll w -> no_panic I sw_now ops w -> InvAll (run_story_ops I sw_now ops w).
Proof. exact (fun I => PatchInv.all_invariants_preserved I sw_now now_cont_check_first now_counter_dec_first). Qed.
Check all_invariants_hold_in_every_reachable_world :
  forall (I : iface) (ops : list story_op) (w : world),
    InvAll w -> no_panic I sw_now ops w -> InvAll (run_story_ops I sw_now ops w).
Print Assumptions all_invariants_hold_in_every_reachable_world.

(* hence a snapshot is only ever taken of a patch-free state: lookahead_rewind_exact applies to
   every snapshot the engine takes, and between host calls nothing is pending in a patch *)
Theorem reachable_worlds_without_snapshot_are_patch_free :
  forall (I : iface) (ops : list story_op) (st : story) (seed : Z) (fuel : N),
    no_panic I sw_now ops (world_init st seed fuel) ->
    w_snapshot (run_story_ops I sw_now ops (world_init st seed fuel)) = None ->
    patch_free (w_state (run_story_ops I sw_now ops (world_init st seed fuel))).
Proof. exact (fun I ops st seed fuel => PatchInv.reachable_patch_free I sw_now now_cont_check_first now_counter_dec_first ops st seed fuel). Qed.
Check reachable_worlds_without_snapshot_are_patch_free :
  forall (I : iface) (ops : list story_op) (st : story) (seed : Z) (fuel : N),
    no_panic I sw_now ops (world_init st seed fuel) ->
    w_snapshot (run_story_ops I sw_now ops (world_init st seed fuel)) = None ->
    patch_free (w_state (run_story_ops I sw_now ops (world_init st seed fuel))).
Print Assumptions reachable_worlds_without_snapshot_are_patch_free.

Example fresh_world_all_invariants : forall st seed fuel, InvAll (world_init st seed fuel).
Proof. exact PatchInv.invall_world_init. Qed.

(* T-gen tie of the structural theorems above: in the Rust sources, too, the observation batch is opened / closed and
   the look-ahead snapshot taken / restored / discarded by continue_internal and continue_single_step only —
   regenerated from the sources on every run *)
From Ink.Gen Require Import EngineGen.
From Ink.Shell Require Import StructureTie.
Theorem lookahead_structure_is_the_models : lookahead_structure_confined = true.
Proof. exact StructureTie.now_lookahead_structure_confined. Qed.
Check lookahead_structure_is_the_models : lookahead_structure_confined = true.
Print Assumptions lookahead_structure_is_the_models.
