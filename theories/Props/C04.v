(* Props/C04.v — story faults are reported as errors; the runtime never panics.
   Only statements, `exact`, Check and Print Assumptions.

   PART 1 (this section): the arithmetic half — NativeFunctionCall::call and the seed
   arithmetic of RANDOM / LIST_RANDOM / shuffles.  `call_native_p ovf` is the model of
   the code AS WRITTEN NOW (Gen/NativeGen.int_sem_now is regenerated from the Rust
   source on every check) in a build with (ovf = true, debug) or without (false,
   release) overflow checks.
   PART 2 (engine-wide panic freedom of stepping, reset after an error) is appended
   below by the engine development. *)
From Ink.Data Require Import Types InkList IntSem Value Native NativeProofs.
From Ink.Gen Require Import NativeGen.
From Ink.Engine Require Import Api Tie.
From Ink.Shell Require Import HostFrame Balance BetweenCalls ResetProofs.
Local Open Scope Z_scope.

(* + - * and unary minus wrap to 32 bits, whatever the operands and the build profile *)
Theorem int_ops_wrap : forall ovf fo defs a b,
  call_native_p ovf fo defs NAdd [OVal (VInt a); OVal (VInt b)] = Ok (OVal (VInt (wrap32 (a + b)))) /\
  call_native_p ovf fo defs NSubtract [OVal (VInt a); OVal (VInt b)] = Ok (OVal (VInt (wrap32 (a - b)))) /\
  call_native_p ovf fo defs NMultiply [OVal (VInt a); OVal (VInt b)] = Ok (OVal (VInt (wrap32 (a * b)))) /\
  call_native_p ovf fo defs NNegate [OVal (VInt a)] = Ok (OVal (VInt (wrap32 (- a)))).
Proof. exact int_ops_wrap_lemma. Qed.
Check int_ops_wrap : forall ovf fo defs a b,
  call_native_p ovf fo defs NAdd [OVal (VInt a); OVal (VInt b)] = Ok (OVal (VInt (wrap32 (a + b)))) /\
  call_native_p ovf fo defs NSubtract [OVal (VInt a); OVal (VInt b)] = Ok (OVal (VInt (wrap32 (a - b)))) /\
  call_native_p ovf fo defs NMultiply [OVal (VInt a); OVal (VInt b)] = Ok (OVal (VInt (wrap32 (a * b)))) /\
  call_native_p ovf fo defs NNegate [OVal (VInt a)] = Ok (OVal (VInt (wrap32 (- a)))).
Print Assumptions int_ops_wrap.

(* division and modulo by zero are story errors *)
Theorem div_mod_zero_is_error : forall ovf fo defs a,
  (exists msg, call_native_p ovf fo defs NDivide [OVal (VInt a); OVal (VInt 0)] = Err InvalidState msg) /\
  (exists msg, call_native_p ovf fo defs NMod [OVal (VInt a); OVal (VInt 0)] = Err InvalidState msg).
Proof. exact div_mod_zero_is_error_lemma. Qed.
Check div_mod_zero_is_error : forall ovf fo defs a,
  (exists msg, call_native_p ovf fo defs NDivide [OVal (VInt a); OVal (VInt 0)] = Err InvalidState msg) /\
  (exists msg, call_native_p ovf fo defs NMod [OVal (VInt a); OVal (VInt 0)] = Err InvalidState msg).
Print Assumptions div_mod_zero_is_error.

(* the one overflowing quotient wraps *)
Theorem div_min_neg1 : forall ovf fo defs,
  call_native_p ovf fo defs NDivide [OVal (VInt i32_min); OVal (VInt (-1))] = Ok (OVal (VInt i32_min)) /\
  call_native_p ovf fo defs NMod [OVal (VInt i32_min); OVal (VInt (-1))] = Ok (OVal (VInt 0)).
Proof. exact div_min_neg1_lemma. Qed.
Check div_min_neg1 : forall ovf fo defs,
  call_native_p ovf fo defs NDivide [OVal (VInt i32_min); OVal (VInt (-1))] = Ok (OVal (VInt i32_min)) /\
  call_native_p ovf fo defs NMod [OVal (VInt i32_min); OVal (VInt (-1))] = Ok (OVal (VInt 0)).
Print Assumptions div_min_neg1.

(* all 31 operators, any number and type of operands that are values or Void, any
   HashMap iteration order, any float library behaviour, both build profiles:
   never a panic.  ([wf_obj]: the origins remembered inside a list name declared lists,
   which push_evaluation_stack establishes.) *)
Theorem native_total : forall oo ovf fo defs op args,
  Forall value_or_void args -> Forall (wf_obj defs) args ->
  forall site, call_native_g oo int_sem_now ovf fo defs op args <> Panic site.
Proof. exact native_total_lemma. Qed.
Check native_total : forall oo ovf fo defs op args,
  Forall value_or_void args -> Forall (wf_obj defs) args ->
  forall site, call_native_g oo int_sem_now ovf fo defs op args <> Panic site.
Print Assumptions native_total.

(* non-vacuity of the hypotheses, and the operand class they exclude *)
Example native_total_example :
  Forall value_or_void [OVal (VInt i32_min); OVal (VInt (-1))] /\
  Forall (wf_obj []) [OVal (VInt i32_min); OVal (VInt (-1))].
Proof. split; repeat constructor. Qed.
Theorem native_total_non_value_refuted : forall oo sem ovf fo defs,
  exists args site, call_native_g oo sem ovf fo defs NEqual args = Panic site.
Proof. exact NativeProofs.native_total_non_value_refuted. Qed.
Check native_total_non_value_refuted : forall oo sem ovf fo defs,
  exists args site, call_native_g oo sem ovf fo defs NEqual args = Panic site.
Print Assumptions native_total_non_value_refuted.

(* debug and release builds compute the same function *)
Theorem build_profile_irrelevant : forall oo fo defs op args,
  call_native_g oo int_sem_now true fo defs op args = call_native_g oo int_sem_now false fo defs op args.
Proof. exact build_profile_irrelevant_lemma. Qed.
Check build_profile_irrelevant : forall oo fo defs op args,
  call_native_g oo int_sem_now true fo defs op args = call_native_g oo int_sem_now false fo defs op args.
Print Assumptions build_profile_irrelevant.

(* RANDOM / LIST_RANDOM / shuffle seed computations never panic and wrap *)
Theorem seed_arith_total : forall ovf rng s p omax omin h l site,
  (forall x, random_cmd int_sem_now ovf rng s p omax omin <> Panic x) /\
  seed_sum int_sem_now ovf site s p = Ok (wrap32 (s + p)) /\
  shuffle_seed int_sem_now ovf h l s = Ok (wrap32 (wrap32 (h + l) + s)).
Proof. exact seed_arith_total_lemma. Qed.
Check seed_arith_total : forall ovf rng s p omax omin h l site,
  (forall x, random_cmd int_sem_now ovf rng s p omax omin <> Panic x) /\
  seed_sum int_sem_now ovf site s p = Ok (wrap32 (s + p)) /\
  shuffle_seed int_sem_now ovf h l s = Ok (wrap32 (wrap32 (h + l) + s)).
Print Assumptions seed_arith_total.

(* what the plain operators did (the semantics the code had before it used wrapping /
   checked operators): a panic, and a debug/release difference *)
Theorem native_total_unchecked_refuted : forall oo ovf fo defs,
  exists op args site, call_native_g oo sem_unchecked ovf fo defs op args = Panic site.
Proof. exact NativeProofs.native_total_unchecked_refuted. Qed.
Check native_total_unchecked_refuted : forall oo ovf fo defs,
  exists op args site, call_native_g oo sem_unchecked ovf fo defs op args = Panic site.
Print Assumptions native_total_unchecked_refuted.

(* ---------------- PART 2: engine-wide (appended by the engine development) ---------------- *)

(* ---------------- the bookkeeping invariant between host calls ---------------- *)
(* Inv w := nesting counter = 0 /\ (no time-limited continue pending -> no look-ahead snapshot /\
   rewind flag clear).  It holds for a freshly constructed story and is preserved by every story
   operation (all forms of continue, choose, jump, evaluate, set a variable, flow operations,
   reset) that does not end in a panic — whether the call returns Ok or Err.  The code fact it rests
   on is regenerated: continue_internal tests can_continue before touching the counters
   (now_cont_check_first) and decrements it before the error-delivery block (now_counter_dec_first).  Counter leaks (defect e98ca2b, seeded change C04) falsify it. *)
Theorem bookkeeping_invariant :
  forall (I : iface) (ops : list story_op) (w : world),
    Inv w -> no_panic I sw_now ops w -> Inv (run_story_ops I sw_now ops w).
Proof. exact (fun I => BetweenCalls.invariant_preserved I sw_now now_cont_check_first now_counter_dec_first). Qed.
Check bookkeeping_invariant :
  forall (I : iface) (ops : list story_op) (w : world),
    Inv w -> no_panic I sw_now ops w -> Inv (run_story_ops I sw_now ops w).
Print Assumptions bookkeeping_invariant.

Theorem between_calls_in_every_reachable_world :
  forall (I : iface) (ops : list story_op) (w : world),
    Inv w -> no_panic I sw_now ops w ->
    w_async (run_story_ops I sw_now ops w) = false ->
    between_calls (run_story_ops I sw_now ops w).
Proof. exact (fun I => BetweenCalls.between_calls_reachable I sw_now now_cont_check_first now_counter_dec_first). Qed.
Check between_calls_in_every_reachable_world :
  forall (I : iface) (ops : list story_op) (w : world),
    Inv w -> no_panic I sw_now ops w ->
    w_async (run_story_ops I sw_now ops w) = false ->
    between_calls (run_story_ops I sw_now ops w).
Print Assumptions between_calls_in_every_reachable_world.

Example fresh_world_satisfies_invariant : forall st seed fuel, Inv (world_init st seed fuel).
Proof. exact BetweenCalls.inv_world_init. Qed.
