(* C06 — the compiler's output is well formed: translation validation.
   The compiler (parser / validator / emitter) is NOT modelled; every story it
   returns during a check is run through the validators below (Comp/WfRefs.v,
   evaluated with vm_compute by tools/props/c06.py).  The theorems say what an
   accepted story guarantees, for the model's resolver Data/Path.resolve_path
   (the port of Object::resolve_path / Container::content_at_path whose
   self-consistency is C19): every static reference of every object of the
   tree resolves exactly (not approximately) and, where the runtime needs a
   container, to a container; every list item names a declared origin and
   item.  Totality / determinism of the compiler itself (clause (c)) is
   exploration only and has no theorem here. *)
From Coq Require Import List.
From Ink.Data Require Import Types Path.
From Ink.Comp Require Import WfRefs WfRefsProofs.

(* the validator looks at every object of the tree *)
Theorem validator_covers_every_object :
  forall root pos o, obj_at root pos = Some o -> In (pos, o) (all_objs root).
Proof. exact all_objs_complete. Qed.
Check validator_covers_every_object :
  forall root pos o, obj_at root pos = Some o -> In (pos, o) (all_objs root).
Print Assumptions validator_covers_every_object.

(* diverts, function calls, tunnels, thread starts *)
Theorem accepted_diverts_resolve :
  forall s pos d p, wf_refs s = true -> obj_at (st_root s) pos = Some (ODivert d) ->
  d_target d = Some p -> d_var d = None -> d_external d = false ->
  exists sr, resolve_path (st_root s) pos p = Ok sr /\ sr_approx sr = false
             /\ (last_is_index p = false -> is_cont_at (st_root s) (sr_pos sr) = true).
Proof. exact wf_refs_sound_divert. Qed.
Check accepted_diverts_resolve :
  forall s pos d p, wf_refs s = true -> obj_at (st_root s) pos = Some (ODivert d) ->
  d_target d = Some p -> d_var d = None -> d_external d = false ->
  exists sr, resolve_path (st_root s) pos p = Ok sr /\ sr_approx sr = false
             /\ (last_is_index p = false -> is_cont_at (st_root s) (sr_pos sr) = true).
Print Assumptions accepted_diverts_resolve.

(* choice targets *)
Theorem accepted_choice_targets_resolve :
  forall s pos flags p, wf_refs s = true -> obj_at (st_root s) pos = Some (OChoicePoint flags p) ->
  exists sr, resolve_path (st_root s) pos p = Ok sr /\ sr_approx sr = false
             /\ is_cont_at (st_root s) (sr_pos sr) = true.
Proof. exact wf_refs_sound_choice. Qed.
Check accepted_choice_targets_resolve :
  forall s pos flags p, wf_refs s = true -> obj_at (st_root s) pos = Some (OChoicePoint flags p) ->
  exists sr, resolve_path (st_root s) pos p = Ok sr /\ sr_approx sr = false
             /\ is_cont_at (st_root s) (sr_pos sr) = true.
Print Assumptions accepted_choice_targets_resolve.

(* read counts (CNT?) *)
Theorem accepted_read_counts_resolve :
  forall s pos p, wf_refs s = true -> obj_at (st_root s) pos = Some (OReadCount p) ->
  exists sr, resolve_path (st_root s) pos p = Ok sr /\ sr_approx sr = false
             /\ is_cont_at (st_root s) (sr_pos sr) = true.
Proof. exact wf_refs_sound_readcount. Qed.
Check accepted_read_counts_resolve :
  forall s pos p, wf_refs s = true -> obj_at (st_root s) pos = Some (OReadCount p) ->
  exists sr, resolve_path (st_root s) pos p = Ok sr /\ sr_approx sr = false
             /\ is_cont_at (st_root s) (sr_pos sr) = true.
Print Assumptions accepted_read_counts_resolve.

(* divert-target values (^->) *)
Theorem accepted_divert_values_resolve :
  forall s pos p, wf_refs s = true -> obj_at (st_root s) pos = Some (OVal (VDivert p)) ->
  p_comps p = nil \/ sr_approx (content_at_path (st_root s) p) = false.
Proof. exact wf_refs_sound_divert_value. Qed.
Check accepted_divert_values_resolve :
  forall s pos p, wf_refs s = true -> obj_at (st_root s) pos = Some (OVal (VDivert p)) ->
  p_comps p = nil \/ sr_approx (content_at_path (st_root s) p) = false.
Print Assumptions accepted_divert_values_resolve.

(* list values: every item has an origin declared in listDefs, with that item (D20 is the
   class this rejects: `VAR v = (a)` compiled to an item without origin) *)
Theorem accepted_list_items_declared :
  forall s pos l it v, wf_story s = true -> obj_at (st_root s) pos = Some (OVal (VList l)) ->
  In (it, v) (l_items l) ->
  exists o items, it_origin it = Some o /\ assoc o (st_listdefs s) = Some items
                  /\ assoc_mem (it_name it) items = true.
Proof. exact wf_story_sound. Qed.
Check accepted_list_items_declared :
  forall s pos l it v, wf_story s = true -> obj_at (st_root s) pos = Some (OVal (VList l)) ->
  In (it, v) (l_items l) ->
  exists o items, it_origin it = Some o /\ assoc o (st_listdefs s) = Some items
                  /\ assoc_mem (it_name it) items = true.
Print Assumptions accepted_list_items_declared.

(* the hypotheses are satisfiable and the validator is not trivially true *)
Example validator_accepts_a_story : wf_refs (mkStory 21 ex_refs_root nil) = true.
Proof. exact ex_refs_ok. Qed.
