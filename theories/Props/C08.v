(* placeholder replaced below *)
From Ink.Engine Require Import Api Tie.
From Ink.Shell Require Import RejectProofs.
Theorem async_guard : forall (w : world), w_async w = true ->
  exists msg, if_async_we_cant w = (OErr InvalidState msg, w).
Proof. exact RejectProofs.async_guard. Qed.
Check async_guard : forall (w : world), w_async w = true ->
  exists msg, if_async_we_cant w = (OErr InvalidState msg, w).
Print Assumptions async_guard.
