(* Props/C08.v — how the host slices continuation never changes the story.
   (1) the single step of the continue loop is independent of the Story-level
       loop bookkeeping (nesting counter, async flag, virtual clock): it commutes
       with any update of those fields — for the whole interpreter model;
   (2) whenever a time-limited run of the loop pauses, the unsliced run of the loop
       from the same state passes through exactly the paused state, so the remaining
       steps — and everything they produce — are the same;
   (3) while a slice is unfinished the guarded calls are refused without effect. *)
From Ink.Engine Require Import Api Tie.
From Ink.Shell Require Import Frame FrameStep Slicing RejectProofs HostFrame Balance BetweenCalls ResetProofs.

Theorem step_independent_of_loop_bookkeeping :
  forall (a : bool) (r : N) (p : list N) (l : N) (I : iface) (sw : switches) (w : world),
    continue_single_step I sw (shell_upd a r p l w) =
    (let (o, w') := continue_single_step I sw w in (o, shell_upd a r p l w')).
Proof. exact comm_continue_single_step. Qed.
Check step_independent_of_loop_bookkeeping :
  forall (a : bool) (r : N) (p : list N) (l : N) (I : iface) (sw : switches) (w : world),
    continue_single_step I sw (shell_upd a r p l w) =
    (let (o, w') := continue_single_step I sw w in (o, shell_upd a r p l w')).
Print Assumptions step_independent_of_loop_bookkeeping.

Theorem loop_passes_through_pause :
  forall (I : iface) (sw : switches) n w r p l r' p' l' w1,
    continue_loop I sw n (shell_upd true r p l w) = (OOk false, w1) ->
    m_can_continue w1 = (OOk true, w1) ->
    exists k, (k <= n)%nat /\ (0 < k)%nat /\
      forall m, continue_loop I sw (k + m) (shell_upd false r' p' l' w)
              = continue_loop I sw m (shell_upd false r' p' l' w1).
Proof. exact Slicing.loop_passes_through_pause. Qed.
Check loop_passes_through_pause :
  forall (I : iface) (sw : switches) n w r p l r' p' l' w1,
    continue_loop I sw n (shell_upd true r p l w) = (OOk false, w1) ->
    m_can_continue w1 = (OOk true, w1) ->
    exists k, (k <= n)%nat /\ (0 < k)%nat /\
      forall m, continue_loop I sw (k + m) (shell_upd false r' p' l' w)
              = continue_loop I sw m (shell_upd false r' p' l' w1).
Print Assumptions loop_passes_through_pause.

Theorem async_guard : forall (w : world), w_async w = true ->
  exists msg, if_async_we_cant w = (OErr InvalidState msg, w).
Proof. exact RejectProofs.async_guard. Qed.
Check async_guard : forall (w : world), w_async w = true ->
  exists msg, if_async_we_cant w = (OErr InvalidState msg, w).
Print Assumptions async_guard.

(* (4) "it always becomes usable again once the line completes": whenever, after any history of
   story operations (time-limited continues included), no time-limited continue is pending any more,
   the story is between calls — counter 0, no snapshot, rewind flag clear — so no guard refuses. *)
Theorem usable_again_once_the_line_completes :
  forall (I : iface) (ops : list story_op) (w : world),
    Inv w -> no_panic I sw_now ops w ->
    w_async (run_story_ops I sw_now ops w) = false ->
    between_calls (run_story_ops I sw_now ops w).
Proof. exact (fun I => BetweenCalls.between_calls_reachable I sw_now now_cont_check_first now_counter_dec_first). Qed.
Check usable_again_once_the_line_completes :
  forall (I : iface) (ops : list story_op) (w : world),
    Inv w -> no_panic I sw_now ops w ->
    w_async (run_story_ops I sw_now ops w) = false ->
    between_calls (run_story_ops I sw_now ops w).
Print Assumptions usable_again_once_the_line_completes.

(* (5) the other half of the loop theorem: a time-limited run of the loop that does NOT pause ends exactly as the
   unsliced loop from the same core state ends (same outcome, same world up to the loop's own bookkeeping) *)
From Ink.Shell Require Import SlicingPlain.
Theorem loop_without_pause_is_the_plain_loop :
  forall (I : iface) (sw : switches) n w r p l r' p' l' o w1,
    continue_loop I sw n (shell_upd true r p l w) = (o, w1) ->
    (o = OOk false -> m_can_continue w1 = (OOk false, w1)) ->
    continue_loop I sw n (shell_upd false r' p' l' w) = (o, shell_upd false r' p' l' w1).
Proof. exact SlicingPlain.loop_without_pause_is_the_plain_loop. Qed.
Check loop_without_pause_is_the_plain_loop :
  forall (I : iface) (sw : switches) n w r p l r' p' l' o w1,
    continue_loop I sw n (shell_upd true r p l w) = (o, w1) ->
    (o = OOk false -> m_can_continue w1 = (OOk false, w1)) ->
    continue_loop I sw n (shell_upd false r' p' l' w) = (o, shell_upd false r' p' l' w1).
Print Assumptions loop_without_pause_is_the_plain_loop.
