(* Props/C09.v — a rejected host call leaves the story exactly as it was.
   Statements about the API model (Engine/Api.v) run with the switches
   regenerated from the sources (Engine/Tie.v).  "= (OErr .., w)" is literal
   equality of worlds: nothing at all changed, hence every later continue,
   choice, notification, save and flow operation behaves as if the call had
   not been made.  Only statements, exact, Check, Print Assumptions. *)
From Ink.Engine Require Import Api Tie Run.
From Ink.Gen Require Import PathGen.
From Ink.Shell Require Import RejectProofs.
From Ink.Engine Require Import Api Tie.
From Ink.Shell Require Import HostFrame Balance BetweenCalls ResetProofs.

Theorem cont_rejected_noop : forall (I : iface) (w : world),
  w_async w = false -> w_validated w = true -> ss_can_continue (w_state w) = Ok false ->
  exists msg, api_cont I sw_now w = (OErr InvalidState msg, w).
Proof. exact RejectProofs.cont_rejected_noop. Qed.
Check cont_rejected_noop : forall (I : iface) (w : world),
  w_async w = false -> w_validated w = true -> ss_can_continue (w_state w) = Ok false ->
  exists msg, api_cont I sw_now w = (OErr InvalidState msg, w).
Print Assumptions cont_rejected_noop.

Theorem continue_async_rejected_noop : forall (I : iface) (limited : bool) (w : world),
  w_async w = false -> w_validated w = true -> ss_can_continue (w_state w) = Ok false ->
  exists msg, continue_async I sw_now limited w = (OErr InvalidState msg, w).
Proof. exact RejectProofs.continue_async_rejected_noop. Qed.
Check continue_async_rejected_noop : forall (I : iface) (limited : bool) (w : world),
  w_async w = false -> w_validated w = true -> ss_can_continue (w_state w) = Ok false ->
  exists msg, continue_async I sw_now limited w = (OErr InvalidState msg, w).
Print Assumptions continue_async_rejected_noop.

Theorem choose_rejected_noop : forall (I : iface) (i : nat) (w : world) cs w',
  get_current_choices w = (OOk cs, w') -> nth_error cs i = None ->
  exists msg, choose_choice_index I sw_now i w = (OErr BadArgument msg, w').
Proof. exact RejectProofs.choose_rejected_noop. Qed.
Check choose_rejected_noop : forall (I : iface) (i : nat) (w : world) cs w',
  get_current_choices w = (OOk cs, w') -> nth_error cs i = None ->
  exists msg, choose_choice_index I sw_now i w = (OErr BadArgument msg, w').
Print Assumptions choose_rejected_noop.

Theorem set_variable_rejected_noop : forall (I : iface) (name : text) (v : value) (w : world),
  w_async w = false -> assoc_mem name (vs_defaults (ss_vars (w_state w))) = false ->
  exists msg, set_variable I sw_now name v w = (OErr BadArgument msg, w).
Proof. exact RejectProofs.set_variable_rejected_noop. Qed.
Check set_variable_rejected_noop : forall (I : iface) (name : text) (v : value) (w : world),
  w_async w = false -> assoc_mem name (vs_defaults (ss_vars (w_state w))) = false ->
  exists msg, set_variable I sw_now name v w = (OErr BadArgument msg, w).
Print Assumptions set_variable_rejected_noop.

Theorem observe_rejected_noop : forall (name obs : text) (w : world),
  w_async w = false -> vs_global_exists (ss_vars (w_state w)) name = false ->
  exists msg, observe_variable name obs w = (OErr BadArgument msg, w).
Proof. exact RejectProofs.observe_rejected_noop. Qed.
Check observe_rejected_noop : forall (name obs : text) (w : world),
  w_async w = false -> vs_global_exists (ss_vars (w_state w)) name = false ->
  exists msg, observe_variable name obs w = (OErr BadArgument msg, w).
Print Assumptions observe_rejected_noop.

Theorem remove_observer_unregistered_noop : forall (obs name : text) (w : world),
  w_async w = false ->
  (forall l, assoc name (w_observers w) = Some l -> mem_text obs l = false) ->
  remove_variable_observer sw_now obs (Some name) w = (OOk tt, w).
Proof. exact RejectProofs.remove_observer_unregistered_noop. Qed.
Check remove_observer_unregistered_noop : forall (obs name : text) (w : world),
  w_async w = false ->
  (forall l, assoc name (w_observers w) = Some l -> mem_text obs l = false) ->
  remove_variable_observer sw_now obs (Some name) w = (OOk tt, w).
Print Assumptions remove_observer_unregistered_noop.

Theorem bind_twice_rejected_noop : forall (name : text) (def : extdef) (w : world),
  w_async w = false -> assoc_mem name (w_externals w) = true ->
  exists msg, bind_external name def w = (OErr BadArgument msg, w).
Proof. exact RejectProofs.bind_twice_rejected_noop. Qed.
Check bind_twice_rejected_noop : forall (name : text) (def : extdef) (w : world),
  w_async w = false -> assoc_mem name (w_externals w) = true ->
  exists msg, bind_external name def w = (OErr BadArgument msg, w).
Print Assumptions bind_twice_rejected_noop.

Theorem unbind_absent_rejected_noop : forall (name : text) (w : world),
  w_async w = false -> assoc_mem name (w_externals w) = false ->
  exists msg, unbind_external name w = (OErr BadArgument msg, w).
Proof. exact RejectProofs.unbind_absent_rejected_noop. Qed.
Check unbind_absent_rejected_noop : forall (name : text) (w : world),
  w_async w = false -> assoc_mem name (w_externals w) = false ->
  exists msg, unbind_external name w = (OErr BadArgument msg, w).
Print Assumptions unbind_absent_rejected_noop.

Theorem eval_blank_rejected_noop : forall (I : iface) (name : text) args (w : world),
  w_async w = false -> trim name = [] ->
  exists msg, evaluate_function I sw_now name args w = (OErr InvalidState msg, w).
Proof. exact RejectProofs.eval_blank_rejected_noop. Qed.
Check eval_blank_rejected_noop : forall (I : iface) (name : text) args (w : world),
  w_async w = false -> trim name = [] ->
  exists msg, evaluate_function I sw_now name args w = (OErr InvalidState msg, w).
Print Assumptions eval_blank_rejected_noop.

Theorem eval_unknown_rejected_noop : forall (I : iface) (name : text) args (w : world),
  w_async w = false -> trim name <> [] -> knot_container_with_name (root_of w) name = None ->
  exists msg, evaluate_function I sw_now name args w = (OErr BadArgument msg, w).
Proof. exact RejectProofs.eval_unknown_rejected_noop. Qed.
Check eval_unknown_rejected_noop : forall (I : iface) (name : text) args (w : world),
  w_async w = false -> trim name <> [] -> knot_container_with_name (root_of w) name = None ->
  exists msg, evaluate_function I sw_now name args w = (OErr BadArgument msg, w).
Print Assumptions eval_unknown_rejected_noop.

Theorem eval_bad_argument_rejected_noop :
  forall (I : iface) (name : text) (args : list value) (w : world) fp,
  w_async w = false -> trim name <> [] -> knot_container_with_name (root_of w) name = Some fp ->
  forallb passable args = false ->
  exists msg, evaluate_function I sw_now name (Some args) w = (OErr InvalidState msg, w).
Proof. exact RejectProofs.eval_bad_argument_rejected_noop. Qed.
Check eval_bad_argument_rejected_noop :
  forall (I : iface) (name : text) (args : list value) (w : world) fp,
  w_async w = false -> trim name <> [] -> knot_container_with_name (root_of w) name = Some fp ->
  forallb passable args = false ->
  exists msg, evaluate_function I sw_now name (Some args) w = (OErr InvalidState msg, w).
Print Assumptions eval_bad_argument_rejected_noop.

Theorem path_unknown_rejected_noop :
  forall (I : iface) (p : text) (reset : bool) (args : list value) (w : world) k msg,
  w_async w = false ->
  pointer_at_path (root_of w) (path_of_string_gen cache_input (Some p)) = Err k msg ->
  choose_path_string I sw_now p reset args w = (OErr k msg, w).
Proof. exact RejectProofs.path_unknown_rejected_noop. Qed.
Check path_unknown_rejected_noop :
  forall (I : iface) (p : text) (reset : bool) (args : list value) (w : world) k msg,
  w_async w = false ->
  pointer_at_path (root_of w) (path_of_string_gen cache_input (Some p)) = Err k msg ->
  choose_path_string I sw_now p reset args w = (OErr k msg, w).
Print Assumptions path_unknown_rejected_noop.

Theorem path_bad_argument_rejected_noop :
  forall (I : iface) (p : text) (reset : bool) (args : list value) (w : world) ptr,
  w_async w = false ->
  pointer_at_path (root_of w) (path_of_string_gen cache_input (Some p)) = Ok ptr ->
  forallb passable args = false ->
  exists msg, choose_path_string I sw_now p reset args w = (OErr InvalidState msg, w).
Proof. exact RejectProofs.path_bad_argument_rejected_noop. Qed.
Check path_bad_argument_rejected_noop :
  forall (I : iface) (p : text) (reset : bool) (args : list value) (w : world) ptr,
  w_async w = false ->
  pointer_at_path (root_of w) (path_of_string_gen cache_input (Some p)) = Ok ptr ->
  forallb passable args = false ->
  exists msg, choose_path_string I sw_now p reset args w = (OErr InvalidState msg, w).
Print Assumptions path_bad_argument_rejected_noop.

Theorem remove_default_flow_rejected_noop : forall (w : world),
  exists k msg, remove_flow sw_now DEFAULT_FLOW w = (OErr k msg, w).
Proof. exact RejectProofs.remove_default_flow_rejected_noop. Qed.
Check remove_default_flow_rejected_noop : forall (w : world),
  exists k msg, remove_flow sw_now DEFAULT_FLOW w = (OErr k msg, w).
Print Assumptions remove_default_flow_rejected_noop.

Theorem remove_absent_flow_noop : forall (name : text) (w : world),
  w_async w = false -> text_eqb name DEFAULT_FLOW = false ->
  text_eqb (fl_name (ss_flow (w_state w))) name = false ->
  (forall nf, ss_named (w_state w) = Some nf -> assoc_mem name nf = false) ->
  remove_flow sw_now name w = (OOk tt, w).
Proof. exact RejectProofs.remove_absent_flow_noop. Qed.
Check remove_absent_flow_noop : forall (name : text) (w : world),
  w_async w = false -> text_eqb name DEFAULT_FLOW = false ->
  text_eqb (fl_name (ss_flow (w_state w))) name = false ->
  (forall nf, ss_named (w_state w) = Some nf -> assoc_mem name nf = false) ->
  remove_flow sw_now name w = (OOk tt, w).
Print Assumptions remove_absent_flow_noop.

Theorem async_guard : forall (w : world), w_async w = true ->
  exists msg, if_async_we_cant w = (OErr InvalidState msg, w).
Proof. exact RejectProofs.async_guard. Qed.
Check async_guard : forall (w : world), w_async w = true ->
  exists msg, if_async_we_cant w = (OErr InvalidState msg, w).
Print Assumptions async_guard.

(* ---------------- the bookkeeping invariant between host calls ---------------- *)
(* Inv w := nesting counter = 0 /\ (no time-limited continue pending -> no look-ahead snapshot /\
   rewind flag clear).  It holds for a freshly constructed story and is preserved by every story
   operation (all forms of continue, choose, jump, evaluate, set a variable, flow operations,
   reset) that does not end in a panic — whether the call returns Ok or Err.  The code fact it rests
   on is regenerated: continue_internal tests can_continue before touching the counters
   (now_cont_check_first) and decrements it before the error-delivery block (now_counter_dec_first).  Counter leaks (defect e98ca2b, seeded change C04) falsify it. *)
Theorem bookkeeping_invariant :
  forall (I : iface) (ops : list story_op) (w : world),
    Inv w -> no_panic I sw_now ops w -> Inv (run_story_ops I sw_now ops w).
Proof. exact (fun I => BetweenCalls.invariant_preserved I sw_now now_cont_check_first now_counter_dec_first). Qed.
Check bookkeeping_invariant :
  forall (I : iface) (ops : list story_op) (w : world),
    Inv w -> no_panic I sw_now ops w -> Inv (run_story_ops I sw_now ops w).
Print Assumptions bookkeeping_invariant.

Theorem between_calls_in_every_reachable_world :
  forall (I : iface) (ops : list story_op) (w : world),
    Inv w -> no_panic I sw_now ops w ->
    w_async (run_story_ops I sw_now ops w) = false ->
    between_calls (run_story_ops I sw_now ops w).
Proof. exact (fun I => BetweenCalls.between_calls_reachable I sw_now now_cont_check_first now_counter_dec_first). Qed.
Check between_calls_in_every_reachable_world :
  forall (I : iface) (ops : list story_op) (w : world),
    Inv w -> no_panic I sw_now ops w ->
    w_async (run_story_ops I sw_now ops w) = false ->
    between_calls (run_story_ops I sw_now ops w).
Print Assumptions between_calls_in_every_reachable_world.

Example fresh_world_satisfies_invariant : forall st seed fuel, Inv (world_init st seed fuel).
Proof. exact BetweenCalls.inv_world_init. Qed.
