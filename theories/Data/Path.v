(* Data/Path.v — model of runtime/src/path.rs and of the path-related parts of
   object.rs / container.rs / pointer.rs / story/navigation.rs.  No proofs. *)
From Ink.Data Require Export Types.

(* ---------- Component ---------- *)
Definition comp_eqb (a b : comp) : bool :=
  match a, b with
  | CIdx i, CIdx j => N.eqb i j
  | CName n, CName m => text_eqb n m
  | _, _ => false
  end.
Definition is_parent_comp (c : comp) : bool :=
  match c with CName n => text_eqb n [c_caret] | _ => false end.
Definition is_index_comp (c : comp) : bool :=
  match c with CIdx _ => true | _ => false end.
Definition comp_to_text (c : comp) : text :=
  match c with CIdx i => show_N i | CName n => n end.
(* the loop of Path::new_with_components_string *)
Definition parse_comp (s : text) : comp :=
  match parse_usize s with Some i => CIdx i | None => CName s end.

(* ---------- Path ---------- *)
Definition path_new (cs : list comp) (rel : bool) : path := mkPath cs rel None.
Definition path_default : path := mkPath [] false None.
Definition path_self : path := mkPath [] true None.

(* CACHE_INPUT models `let _ = cs_cell.set(cs)` in new_with_components_string:
   whether the parsed text (without its leading dot) is stored as the cached
   components string.  It is a regenerated table entry (Gen/PathGen.v). *)
Definition strip_dot (cs : text) : bool * text :=
  match cs with
  | c :: r => if N.eqb c c_dot then (true, r) else (false, cs)
  | [] => (false, [])
  end.

Definition path_of_string_gen (cache_input : bool) (o : option text) : path :=
  match o with
  | None => path_default
  | Some [] => path_default
  | Some cs =>
      let '(rel, body) := strip_dot cs in
      mkPath (map parse_comp (split_on c_dot body)) rel
             (if cache_input then Some body else None)
  end.

Definition comps_string (cs : list comp) : text :=
  join_with [c_dot] (map comp_to_text cs).

(* get_components_string / Display / to_string *)
Definition path_string (p : path) : text :=
  match p_cache p with
  | Some s => s
  | None => let sb := comps_string (p_comps p) in
            if p_rel p then c_dot :: sb else sb
  end.

Fixpoint comps_eqb (a b : list comp) : bool :=
  match a, b with
  | [], [] => true
  | x :: a', y :: b' => comp_eqb x y && comps_eqb a' b'
  | _, _ => false
  end.
(* impl PartialEq for Path *)
Definition path_eqb (p q : path) : bool :=
  Nat.eqb (length (p_comps p)) (length (p_comps q))
  && Bool.eqb (p_rel p) (p_rel q)
  && comps_eqb (p_comps p) (p_comps q).
(* impl Hash for Path hashes to_string(): two paths feed the hasher the same
   input iff their strings are equal. *)
Definition path_hash_input (p : path) : text := path_string p.

Definition path_len (p : path) : nat := length (p_comps p).
Definition path_tail (p : path) : path :=
  match p_comps p with
  | _ :: (_ :: _) as tl => path_new tl false
  | _ => path_self
  end.
Definition path_last (p : path) : option comp := last (map Some (p_comps p)) None.

Fixpoint count_leading_parents (cs : list comp) : nat :=
  match cs with
  | c :: r => if is_parent_comp c then S (count_leading_parents r) else 0
  | [] => 0
  end.

(* path_by_appending_path: `self.components.len().saturating_sub(upward_moves)` — with more `^` than the
   base has components nothing of the base is kept (as in the reference runtime; the plain usize subtraction
   that stood here panicked — repaired in /repo 41b08a9; tools/gen_tables.py::gen_path insists on the
   saturating form).  [-] on nat is the saturating subtraction. *)
Definition path_append (p q : path) : Res path :=
  let up := count_leading_parents (p_comps q) in
  Ok (path_new (firstn (length (p_comps p) - up)%nat (p_comps p) ++ skipn up (p_comps q)) false).

Definition path_append_comp (p : path) (c : comp) : path :=
  path_new (p_comps p ++ [c]) false.

(* ---------- tree addressing ---------- *)
(* Container::new inserts every content child that is a validly named
   container into named_content (later children overwrite earlier ones and
   named-only entries of the same key). *)
Fixpoint find_named_idx (l : list obj) (n : text) (i : nat) (acc : option nat) : option nat :=
  match l with
  | [] => acc
  | OCont c :: r =>
      if has_valid_name c && (match c_name c with Some m => text_eqb m n | None => false end)
      then find_named_idx r n (S i) (Some i) else find_named_idx r n (S i) acc
  | _ :: r => find_named_idx r n (S i) acc
  end.

Definition lookup_named (c : container) (n : text) : option pstep :=
  match find_named_idx (c_content c) n 0 None with
  | Some i => Some (SI i)
  | None => if assoc_mem n (c_named_only c) then Some (SN n) else None
  end.

(* content_with_path_component, returning the position of the found object;
   [cur] is the position of [c] itself. *)
Definition content_with_comp (cur : pos) (c : container) (k : comp) : option pos :=
  match k with
  | CIdx i => if (i <? N.of_nat (length (c_content c)))%N then Some (cur ++ [SI (N.to_nat i)]) else None
  | CName n =>
      if text_eqb n [c_caret] then pos_parent cur
      else option_map (fun s => cur ++ [s]) (lookup_named c n)
  end.

Record search_result := mkSR { sr_pos : pos; sr_approx : bool }.

(* Container::content_at_path (self at position [start]), components
   [from .. upto) of [cs].  State: current object position, current container
   (None once a non-container has been reached). *)
Fixpoint content_at_path_loop (root : container) (cs : list comp) (remaining : nat)
         (cur_obj : pos) (cur_cont : option pos) : search_result :=
  match cs with
  | [] => mkSR cur_obj false
  | k :: rest =>
      match cur_cont with
      | None => mkSR cur_obj true
      | Some cp =>
          match cont_at root cp with
          | None => mkSR cur_obj true
          | Some c =>
              match content_with_comp cp c k with
              | None => mkSR cur_obj true
              | Some fp =>
                  let is_cont := match obj_at root fp with Some (OCont _) => true | _ => false end in
                  (* (i < partial_path_length - 1) && not a container *)
                  if (match rest with [] => false | _ => true end) && negb is_cont
                  then mkSR cur_obj true
                  else content_at_path_loop root rest (pred remaining) fp
                         (if is_cont then Some fp else None)
              end
          end
      end
  end.

Definition content_at_path_from (root : container) (start : pos) (cs : list comp) : search_result :=
  content_at_path_loop root cs (length cs) start (Some start).

(* main_content_container.content_at_path(path, 0, -1) *)
Definition content_at_path (root : container) (p : path) : search_result :=
  content_at_path_from root [] (p_comps p).

(* Object::get_path: names where the child is a validly named container,
   otherwise the index in the parent's content (position().unwrap(): a
   named-only child without a valid name panics). *)
Fixpoint get_path_comps (c : container) (p : pos) : Res (list comp) :=
  match p with
  | [] => Ok []
  | s :: r =>
      match child c s with
      | None => Panic (T "model:get_path:invalid position")
      | Some o =>
          let named := match o with
                       | OCont c' => if has_valid_name c' then c_name c' else None
                       | _ => None
                       end in
          do k <- match named, s with
                  | Some n, _ => Ok (CName n)
                  | None, SI i => Ok (CIdx (N.of_nat i))
                  | None, SN _ => Panic (T "object.rs:get_path:position().unwrap()")
                  end;
          match o, r with
          | OCont c', _ => do ks <- get_path_comps c' r; Ok (k :: ks)
          | _, [] => Ok [k]
          | _, _ => Panic (T "model:get_path:invalid position")
          end
      end
  end.

Definition get_path (root : container) (p : pos) : Res path :=
  do cs <- get_path_comps root p; Ok (path_new cs false).

(* Object::resolve_path(obj at position [at_], path) *)
Definition resolve_path (root : container) (at_ : pos) (p : path) : Res search_result :=
  if p_rel p then
    match obj_at root at_ with
    | Some (OCont _) => Ok (content_at_path_from root at_ (p_comps p))
    | Some _ =>
        match pos_parent at_ with
        | Some pp => Ok (content_at_path_from root pp (p_comps (path_tail p)))
        | None => Panic (T "object.rs:resolve_path:nearest_container.unwrap()")
        end
    | None => Panic (T "model:resolve_path:invalid position")
    end
  else Ok (content_at_path root p).

(* Object::convert_path_to_relative (own path given) *)
Fixpoint shared_prefix_len (a b : list comp) : nat :=
  match a, b with
  | x :: a', y :: b' => if comp_eqb x y then S (shared_prefix_len a' b') else 0
  | _, _ => 0
  end.

Definition convert_path_to_relative (own global : path) : path :=
  let n := shared_prefix_len (p_comps own) (p_comps global) in
  match n with
  | O => global
  | _ =>
      let ups := ((length (p_comps own) - 1) - (n - 1))%nat in
      path_new (repeat (CName [c_caret]) ups ++ skipn n (p_comps global)) true
  end.

(* Object::compact_path_string *)
Definition compact_path_string (own other : path) : Res text :=
  do (rel_s, glob_s) <-
     (if p_rel other then
        do g <- path_append own other; Ok (path_string other, path_string g)
      else Ok (path_string (convert_path_to_relative own other), path_string other));
  Ok (if (utf8_len rel_s <? utf8_len glob_s)%N then rel_s else glob_s).

(* ---------- pointers ---------- *)
Record pointer := mkPtr { ptr_c : option pos; ptr_i : Z }.
Definition ptr_null : pointer := mkPtr None (-1).
Definition ptr_is_null (p : pointer) : bool := match ptr_c p with None => true | _ => false end.
Definition ptr_start_of (c : pos) : pointer := mkPtr (Some c) 0.

(* Pointer::resolve -> position of the object *)
Definition ptr_resolve (root : container) (p : pointer) : option pos :=
  match ptr_c p with
  | None => None
  | Some cp =>
      match cont_at root cp with
      | None => None
      | Some c =>
          if (ptr_i p <? 0)%Z || (match c_content c with [] => true | _ => false end) then Some cp
          else if (ptr_i p <? Z.of_nat (length (c_content c)))%Z then Some (cp ++ [SI (Z.to_nat (ptr_i p))])
          else None
      end
  end.

(* Pointer::get_path *)
Definition ptr_path (root : container) (p : pointer) : Res (option path) :=
  match ptr_c p with
  | None => Ok None
  | Some cp =>
      do cpath <- get_path root cp;
      if (0 <=? ptr_i p)%Z then Ok (Some (path_append_comp cpath (CIdx (Z.to_N (ptr_i p)))))
      else Ok (Some cpath)
  end.

(* Story::pointer_at_path *)
Definition is_cont_at (root : container) (p : pos) : bool :=
  match obj_at root p with Some (OCont _) => true | _ => false end.

Definition pointer_at_path (root : container) (p : path) : Res pointer :=
  match p_comps p with
  | [] => Ok ptr_null
  | cs =>
      let n := length cs in
      match last (map Some cs) None with
      | Some (CIdx i) =>
          let r := content_at_path_from root [] (firstn (n - 1)%nat cs) in
          let c := if is_cont_at root (sr_pos r) then Some (sr_pos r) else None in
          if pos_eqb (sr_pos r) [] && Nat.ltb 0 (n - 1)%nat
          then Err InvalidState (T "Failed to find content at path")
          else Ok (mkPtr c (wrap32 (Z.of_N i)))
      | _ =>
          let r := content_at_path_from root [] cs in
          let c := if is_cont_at root (sr_pos r) then Some (sr_pos r) else None in
          if pos_eqb (sr_pos r) [] && Nat.ltb 0 n
          then Err InvalidState (T "Failed to find content at path")
          else Ok (mkPtr c (-1))
      end
  end.
