(* Data/TreeRelProofs.v — relative addressing on a well-formed tree (C19):
   the relative path Object::convert_path_to_relative computes from an object to
   an absolute target resolves, from that object, to exactly what the absolute
   path resolves to from the root (including approximation), and so does
   whichever spelling Object::compact_path_string picks. *)
From Coq Require Import Lia.
From Ink.Data Require Import Types Path PathProofs Tree TreeProofs.

(* the `remaining` counter of the loop is never consulted *)
Lemma loop_irrel root cs : forall n m a b,
  content_at_path_loop root cs n a b = content_at_path_loop root cs m a b.
Proof.
  induction cs as [|k rest IH]; intros n m a b; cbn [content_at_path_loop]; [reflexivity|].
  destruct b as [cp|]; [|reflexivity]. destruct (cont_at root cp); [|reflexivity].
  destruct (content_with_comp cp c k); [|reflexivity].
  destruct (_ && _); [reflexivity|]. apply IH.
Qed.

(* resolve_from with a continuation: after the components of a CONTAINER's own
   path the loop stands at that container *)
Lemma resolve_from_k root : forall q c pre c1 rest,
  wf_tree c = true -> cont_at root pre = Some c -> obj_at c q = Some (OCont c1) ->
  exists cs, get_path_comps c q = Ok cs /\ length cs = length q /\
    forall n m, content_at_path_loop root (cs ++ rest) n pre (Some pre)
                = content_at_path_loop root rest m (pre ++ q) (Some (pre ++ q)).
Proof.
  induction q as [|s r IH]; intros c pre c1 rest Hwf Hpre Hobj.
  - exists []. split; [reflexivity|]. split; [reflexivity|]. intros n m. cbn [app]. rewrite app_nil_r. apply loop_irrel.
  - cbn [obj_at] in Hobj. destruct (child c s) as [o1|] eqn:Hch; [|discriminate].
    destruct (step_resolves c s o1 pre (wf_tree_local c Hwf) Hch) as (k & Hk & Hcw & Hwfk).
    assert (Hfp : obj_at root (pre ++ [s]) = Some o1).
    { rewrite (obj_at_app root pre c [s] Hpre). cbn [obj_at]. rewrite Hch. destruct o1; reflexivity. }
    rewrite get_path_comps_cons, Hch, Hk. cbn [bind].
    destruct o1 as [c2| | | | | | | | | | | |];
      try (destruct r; discriminate Hobj).
    assert (Hwf2 : wf_tree c2 = true) by (eapply child_wf; eauto).
    assert (Hpre2 : cont_at root (pre ++ [s]) = Some c2) by (unfold cont_at; now rewrite Hfp).
    destruct (IH c2 (pre ++ [s]) c1 rest Hwf2 Hpre2 Hobj) as (cs & Hcs & Hlen & Hloop).
    exists (k :: cs). rewrite Hcs. split; [reflexivity|]. split; [cbn; now rewrite Hlen|].
    intros n m. cbn [app]. rewrite (loop_step root k (cs ++ rest) n pre c _ _ Hpre Hcw Hfp).
    cbn [is_cont_obj negb]. rewrite Bool.andb_false_r. rewrite (Hloop (pred n) m). now rewrite <- app_assoc.
Qed.

(* ---------- prefixes of positions ---------- *)
Lemma obj_at_prefix root : forall A B o, obj_at root (A ++ B) = Some o -> B <> [] ->
  exists cA, obj_at root A = Some (OCont cA).
Proof.
  intros A. revert root. induction A as [|s A IH]; intros root B o H Hne.
  - exists root. reflexivity.
  - cbn [app obj_at] in H. cbn [obj_at]. destruct (child root s) as [o1|]; [|discriminate].
    destruct o1 as [c1| | | | | | | | | | | |];
      try (destruct (A ++ B) eqn:E; [destruct A; [cbn in E; congruence|discriminate]|discriminate]).
    exact (IH c1 B o H Hne).
Qed.

Lemma get_path_comps_app : forall q1 c c1 q2,
  obj_at c q1 = Some (OCont c1) ->
  get_path_comps c (q1 ++ q2) =
  (do cs1 <- get_path_comps c q1; do cs2 <- get_path_comps c1 q2; Ok (cs1 ++ cs2)).
Proof.
  induction q1 as [|s r IH]; intros c c1 q2 H.
  - cbn in H. injection H as ->. cbn [app get_path_comps bind]. destruct (get_path_comps c1 q2); reflexivity.
  - cbn [app]. rewrite !get_path_comps_cons. cbn [obj_at] in H.
    destruct (child c s) as [o1|]; [|discriminate].
    destruct (step_comp s o1) as [k|e m|p]; cbn [bind]; try reflexivity.
    destruct o1 as [c2| | | | | | | | | | | |]; try (destruct r; discriminate H).
    rewrite (IH c2 c1 q2 H).
    destruct (get_path_comps c2 r) as [cs1|e m|p]; cbn [bind]; try reflexivity.
    destruct (get_path_comps c1 q2); reflexivity.
Qed.

(* ---------- climbing with ^ ---------- *)
Lemma up_steps root rest : forall B A c,
  obj_at root (A ++ B) = Some (OCont c) ->
  forall n m, content_at_path_loop root (repeat (CName [c_caret]) (length B) ++ rest) n (A ++ B) (Some (A ++ B))
              = content_at_path_loop root rest m A (Some A).
Proof.
  induction B as [|s B IH] using rev_ind; intros A c H n m.
  - cbn [length repeat app]. rewrite app_nil_r. apply loop_irrel.
  - rewrite app_length. cbn [length]. replace (length B + 1)%nat with (S (length B)) by lia.
    cbn [repeat app]. rewrite app_assoc in H |- *.
    destruct (obj_at_prefix root (A ++ B) [s] _ H ltac:(discriminate)) as (cB & HcB).
    assert (Hc : cont_at root ((A ++ B) ++ [s]) = Some c) by (unfold cont_at; now rewrite H).
    assert (Hup : content_with_comp ((A ++ B) ++ [s]) c (CName [c_caret]) = Some (A ++ B)).
    { cbn [content_with_comp]. rewrite text_eqb_refl. unfold pos_parent.
      destruct ((A ++ B) ++ [s]) eqn:E; [destruct (A ++ B); discriminate|]. rewrite <- E. now rewrite removelast_last. }
    rewrite (loop_step root _ _ n _ c _ _ Hc Hup HcB). cbn [is_cont_obj negb]. rewrite Bool.andb_false_r.
    exact (IH A cB HcB (pred n) m).
Qed.

(* ---------- shared prefixes ---------- *)
Lemma shared_prefix_spec a : forall b,
  firstn (shared_prefix_len a b) a = firstn (shared_prefix_len a b) b
  /\ (shared_prefix_len a b <= length a)%nat /\ (shared_prefix_len a b <= length b)%nat.
Proof.
  induction a as [|x a IH]; intros b; [cbn; repeat split; lia|].
  destruct b as [|y b]; [cbn; repeat split; lia|]. cbn [shared_prefix_len].
  destruct (comp_eqb x y) eqn:E; [|cbn; repeat split; lia].
  apply comp_eqb_eq in E. subst y. destruct (IH b) as (H1 & H2 & H3). cbn [firstn length].
  repeat split; [now f_equal|lia|lia].
Qed.

Lemma get_path_comps_length : forall q c cs, get_path_comps c q = Ok cs -> length cs = length q.
Proof.
  induction q as [|s r IH]; intros c cs H; [cbn in H; now injection H as <-|].
  rewrite get_path_comps_cons in H. destruct (child c s) as [o|]; [|discriminate].
  destruct (step_comp s o) as [k|e m|p]; cbn [bind] in H; try discriminate.
  destruct o as [c1| | | | | | | | | | | |];
    try (destruct r; [injection H as <-; reflexivity|discriminate H]).
  destruct (get_path_comps c1 r) as [ks|e m|p] eqn:E; cbn [bind] in H; try discriminate.
  injection H as <-. cbn [length]. f_equal. eapply IH; eauto.
Qed.

Lemma path_tail_comps cs rel : p_comps (path_tail (path_new cs rel)) = tl cs.
Proof. destruct cs as [|k [|k2 r]]; reflexivity. Qed.

(* the own path of a container prefix of a position is the corresponding prefix of the own path *)
Lemma own_prefix root A B cA cs :
  obj_at root A = Some (OCont cA) -> get_path_comps root (A ++ B) = Ok cs ->
  exists csA, get_path_comps root A = Ok csA /\ firstn (length A) cs = csA.
Proof.
  intros HA H. rewrite (get_path_comps_app A root cA B HA) in H.
  destruct (get_path_comps root A) as [csA|e m|p] eqn:EA; cbn [bind] in H; try discriminate.
  destruct (get_path_comps cA B) as [csB|e m|p]; cbn [bind] in H; try discriminate.
  injection H as <-. exists csA. split; [reflexivity|].
  rewrite <- (get_path_comps_length A root csA EA). rewrite firstn_app, Nat.sub_diag, firstn_all. cbn. apply app_nil_r.
Qed.

Theorem relative_resolves_lemma root pos o own target :
  wf_tree root = true -> obj_at root pos = Some o -> get_path root pos = Ok own -> p_rel target = false ->
  (is_cont_obj o = true
   \/ (shared_prefix_len (p_comps own) (p_comps target) < length (p_comps own))%nat) ->
  resolve_path root pos (convert_path_to_relative own target) = Ok (content_at_path root target).
Proof.
  intros Hwf Ho Hg Hrel Hside. unfold get_path in Hg.
  destruct (get_path_comps root pos) as [cs|e m|p] eqn:Hcs; cbn [bind] in Hg; try discriminate.
  injection Hg as <-. cbn [p_comps path_new] in Hside.
  unfold convert_path_to_relative. cbn [p_comps path_new].
  remember (p_comps target) as tg eqn:Htg.
  destruct (shared_prefix_spec cs tg) as (Hpre & Hn1 & Hn2).
  remember (shared_prefix_len cs tg) as n eqn:Hn.
  destruct n as [|n'].
  { unfold resolve_path. rewrite Hrel. reflexivity. }
  cbv iota.
  clear Hn.
  remember (S n') as n eqn:En.
  assert (Hnpos : (1 <= n)%nat) by lia. clear En n'.
  pose proof (get_path_comps_length pos root cs Hcs) as Hlen.
  assert (Hups : ((length cs - 1) - (n - 1) = length pos - n)%nat) by lia.
  rewrite Hups.
  (* split the position at depth n *)
  set (A := firstn n pos). set (B := skipn n pos).
  assert (HAB : pos = A ++ B) by (symmetry; apply firstn_skipn).
  assert (HlenA : length A = n) by (unfold A; rewrite firstn_length; lia).
  assert (HlenB : length B = (length pos - n)%nat) by (unfold B; now rewrite skipn_length).
  clearbody A B. subst pos. rewrite app_length in Hlen, HlenB, Hups |- *.
  (* the ancestor at depth n is a container *)
  assert (HA : exists cA, obj_at root A = Some (OCont cA)).
  { destruct B as [|b B'] eqn:EB.
    - rewrite app_nil_r in Ho.
      destruct Hside as [Hc|Hlt]; [|cbn [length] in *; lia].
      destruct o; try discriminate Hc. eauto.
    - apply (obj_at_prefix root A (b :: B') o); [exact Ho|discriminate]. }
  destruct HA as (cA & HA).
  (* right-hand side: the absolute path, after its first n components, stands at A *)
  assert (Hrhs : forall m, content_at_path root target
                           = content_at_path_loop root (skipn n tg) m A (Some A)).
  { intros m. unfold content_at_path, content_at_path_from. rewrite <- Htg.
    rewrite <- (firstn_skipn n tg) at 1. rewrite <- Hpre.
    destruct (own_prefix root A B cA cs HA Hcs) as (csA & HcsA & Hfirst).
    rewrite HlenA in Hfirst. rewrite Hfirst.
    destruct (resolve_from_k root A root [] cA (skipn n tg) Hwf eq_refl HA) as (cs' & Hcs' & _ & Hloop).
    rewrite HcsA in Hcs'. injection Hcs' as <-. rewrite (Hloop _ m). reflexivity. }
  assert (Hk : (length A + length B - n = length B)%nat) by lia.
  rewrite Hk.
  unfold resolve_path. cbn [p_rel path_new p_comps]. rewrite Ho.
  destruct (is_cont_obj o) eqn:Hic.
  - (* the object is a container: climb length B times *)
    destruct o as [c| | | | | | | | | | | |]; try discriminate Hic.
    f_equal. unfold content_at_path_from. rewrite (Hrhs O).
    exact (up_steps root (skipn n tg) B A c Ho _ O).
  - (* not a container: start at the parent with the tail of the relative path *)
    destruct Hside as [Hc|Hlt]; [congruence|].
    assert (HBne : B <> []). { intros E. subst B. cbn [length] in *. lia. }
    destruct (exists_last HBne) as (B0 & b & EB). subst B.
    assert (Hpp : removelast (A ++ B0 ++ [b]) = A ++ B0) by (rewrite app_assoc; apply removelast_last).
    destruct (obj_at_prefix root (A ++ B0) [b] o) as (cP & HP);
      [rewrite <- app_assoc; exact Ho|discriminate|].
    assert (Hpar : pos_parent (A ++ B0 ++ [b]) = Some (A ++ B0)).
    { unfold pos_parent. destruct (A ++ B0 ++ [b]) eqn:E; [destruct A; destruct B0; discriminate|].
      cbv iota. f_equal. exact Hpp. }
    assert (Htail : tl (repeat (CName [c_caret]) (length (B0 ++ [b])) ++ skipn n tg)
                    = repeat (CName [c_caret]) (length B0) ++ skipn n tg).
    { rewrite app_length. cbn [length]. replace (length B0 + 1)%nat with (S (length B0)) by lia. reflexivity. }
    assert (Hfin : Ok (content_at_path_from root (A ++ B0)
                         (p_comps (path_tail (path_new (repeat (CName [c_caret]) (length (B0 ++ [b])) ++ skipn n tg) true))))
                   = Ok (content_at_path root target) :> Res search_result).
    { f_equal. rewrite path_tail_comps, Htail. unfold content_at_path_from. rewrite (Hrhs O).
      exact (up_steps root (skipn n tg) B0 A cP HP _ O). }
    destruct o as [c| | | | | | | | | | | |]; try discriminate Hic; rewrite Hpar; exact Hfin.
Qed.

(* ---------- compact_path_string ---------- *)
Lemma resolve_path_equiv root pos p q :
  path_eqb p q = true -> resolve_path root pos p = resolve_path root pos q.
Proof.
  intros H. apply path_eqb_equiv in H. destruct H as [Hc Hr].
  unfold resolve_path, content_at_path, path_tail. now rewrite Hc, Hr.
Qed.

Lemma wf_caret : wf_comp (CName [c_caret]).
Proof.
  unfold wf_comp. split; [discriminate|]. split; [|reflexivity].
  intros [H|[]]. discriminate H.
Qed.

Lemma wf_comps_relative own target :
  Forall wf_comp (p_comps target) -> Forall wf_comp (p_comps (convert_path_to_relative own target)).
Proof.
  intros H. unfold convert_path_to_relative. destruct (shared_prefix_len _ _); [exact H|].
  cbn [p_comps path_new]. apply Forall_app. split.
  - apply Forall_forall. intros x Hx. apply repeat_spec in Hx. subst x. exact wf_caret.
  - rewrite <- (firstn_skipn (S n) (p_comps target)) in H. apply Forall_app in H. tauto.
Qed.

Lemma path_shape p : p_cache p = None -> p = path_new (p_comps p) (p_rel p).
Proof. destruct p as [cs r c]. cbn. intros ->. reflexivity. Qed.

Lemma convert_cache own target :
  p_cache target = None -> p_cache (convert_path_to_relative own target) = None.
Proof. intros H. unfold convert_path_to_relative. destruct (shared_prefix_len _ _); [exact H|reflexivity]. Qed.

(* whichever spelling compact_path_string picks, parsing it back and resolving
   it from the object gives what the absolute target resolves to from the root
   (paths without a cached string: what parsing yields since the cache fix, Gen/PathGen.v) *)
Theorem compact_path_sound_lemma root pos o own target s :
  wf_tree root = true -> obj_at root pos = Some o -> get_path root pos = Ok own ->
  p_rel target = false -> p_cache target = None -> Forall wf_comp (p_comps target) ->
  (is_cont_obj o = true
   \/ (shared_prefix_len (p_comps own) (p_comps target) < length (p_comps own))%nat) ->
  p_comps (convert_path_to_relative own target) <> [] ->
  compact_path_string own target = Ok s ->
  resolve_path root pos (path_of_string (Some s)) = Ok (content_at_path root target).
Proof.
  intros Hwf Ho Hg Hrel Hcache Hwfc Hside Hne Hs.
  unfold compact_path_string in Hs. rewrite Hrel in Hs. cbn [bind] in Hs. injection Hs as <-.
  set (rel := convert_path_to_relative own target) in *.
  destruct (utf8_len (path_string rel) <? utf8_len (path_string target)).
  - (* the relative spelling *)
    assert (Hrt : path_eqb (path_of_string (Some (path_string rel))) rel = true).
    { rewrite (path_shape rel (convert_cache own target Hcache)).
      exact (proj1 (path_text_roundtrip_lemma _ _ (wf_comps_relative own target Hwfc) (or_introl Hne))). }
    rewrite (resolve_path_equiv root pos _ _ Hrt).
    exact (relative_resolves_lemma root pos o own target Hwf Ho Hg Hrel Hside).
  - (* the absolute spelling *)
    assert (Hrt : path_eqb (path_of_string (Some (path_string target))) target = true).
    { rewrite (path_shape target Hcache). rewrite Hrel.
      exact (proj1 (path_text_roundtrip_lemma _ false Hwfc (or_intror eq_refl))). }
    rewrite (resolve_path_equiv root pos _ _ Hrt). unfold resolve_path. now rewrite Hrel.
Qed.

(* non-vacuity on the concrete tree of TreeProofs: from the Void inside knot.stitch
   to the gather knot.g-0, and from the container knot.1 to knot.stitch *)
Example ex_relative :
  resolve_path ex_root [SI 0; SN (T "stitch"); SI 0]
     (convert_path_to_relative (path_new [CName (T "knot"); CName (T "stitch"); CIdx 0] false)
                               (path_new [CName (T "knot"); CName (T "g-0")] false))
  = Ok (mkSR [SI 0; SI 2] false)
  /\ path_string (convert_path_to_relative (path_new [CName (T "knot"); CName (T "stitch"); CIdx 0] false)
                                           (path_new [CName (T "knot"); CName (T "g-0")] false))
     = T ".^.^.g-0".
Proof. split; vm_compute; reflexivity. Qed.

(* ---------- pointers with index -1 (a pointer AT a container) ---------- *)
(* Pointer::get_path gives the container's own path; Story::pointer_at_path
   reads it back either as (container, -1) — last component a name — or, for an
   unnamed container, as (parent, index): a different pointer that resolves to
   the same object.  The root itself is excluded: its path is empty and reads
   back as the null pointer. *)
Definition small_last (cp : pos) : Prop :=
  match last cp (SN []) with SI j => (Z.of_nat j <= i32_max)%Z | SN _ => True end.

Theorem pointer_at_container_roundtrip_lemma root cp c :
  wf_tree root = true -> cont_at root cp = Some c -> cp <> [] -> small_last cp ->
  exists path ptr', ptr_path root (mkPtr (Some cp) (-1)) = Ok (Some path)
                 /\ pointer_at_path root path = Ok ptr'
                 /\ ptr_resolve root ptr' = Some cp
                 /\ ptr_resolve root (mkPtr (Some cp) (-1)) = Some cp.
Proof.
  intros Hwf Hc Hne Hsmall.
  assert (Ho : obj_at root cp = Some (OCont c)).
  { unfold cont_at in Hc. destruct (obj_at root cp) as [[c'| | | | | | | | | | | |]|]; try discriminate Hc. now injection Hc as ->. }
  destruct (exists_last Hne) as (cpp & s & Ecp). subst cp.
  destruct (obj_at_prefix root cpp [s] _ Ho ltac:(discriminate)) as (cP & HP).
  assert (HcP : cont_at root cpp = Some cP) by (unfold cont_at; now rewrite HP).
  assert (Hch : child cP s = Some (OCont c)).
  { rewrite (obj_at_app root cpp cP [s] HcP) in Ho. cbn [obj_at] in Ho.
    destruct (child cP s) as [o1|]; [|discriminate]. destruct o1; try discriminate Ho; congruence. }
  assert (HwfP : wf_tree cP = true).
  { clear - Hwf HP. revert root Hwf HP. induction cpp as [|s0 r IH]; intros root Hwf HP.
    - cbn in HP. now injection HP as <-.
    - cbn [obj_at] in HP. destruct (child root s0) as [o1|] eqn:E; [|discriminate].
      destruct o1 as [c1| | | | | | | | | | | |]; try (destruct r; discriminate HP).
      apply (IH c1); [eapply child_wf; eauto|exact HP]. }
  destruct (step_resolves cP s (OCont c) cpp (wf_tree_local cP HwfP) Hch) as (k & Hk & Hcw & Hwfk).
  destruct (resolve_from root cpp root [] (OCont cP) Hwf eq_refl HP) as (csP & HcsP & _ & HloopP).
  destruct (resolve_from root (cpp ++ [s]) root [] (OCont c) Hwf eq_refl Ho) as (cs & Hcs & _ & Hloop).
  assert (Ecs : cs = csP ++ [k]).
  { rewrite (get_path_comps_app cpp root cP [s] HP), HcsP in Hcs. cbn [bind] in Hcs.
    rewrite get_path_comps_cons, Hch, Hk in Hcs. cbn [bind get_path_comps] in Hcs. now injection Hcs as <-. }
  subst cs.
  assert (Hres_self : ptr_resolve root (mkPtr (Some (cpp ++ [s])) (-1)) = Some (cpp ++ [s])).
  { unfold ptr_resolve. cbn [ptr_c ptr_i]. rewrite Hc. reflexivity. }
  exists (path_new (csP ++ [k]) false).
  unfold ptr_path. cbn [ptr_c ptr_i]. unfold get_path. rewrite Hcs. cbn [bind].
  change (0 <=? -1)%Z with false. cbv iota.
  unfold pointer_at_path. cbn [p_comps path_new].
  destruct (csP ++ [k]) as [|k0 l0] eqn:E; [destruct csP; discriminate|].
  rewrite <- E in Hloop, Hcs |- *. clear E k0 l0.
  rewrite map_app. cbn [map]. rewrite last_snoc.
  destruct k as [i|nm].
  - (* an unnamed container: read back as (parent, index) *)
    unfold step_comp in Hk. cbn [content_name] in Hk.
    destruct (if has_valid_name c then c_name c else None); [discriminate|].
    destruct s as [j|nm]; [|discriminate]. injection Hk as <-.
    rewrite firstn_snoc. unfold content_at_path_from. rewrite HloopP. cbn [sr_pos app].
    unfold is_cont_at. rewrite HP.
    assert (pos_eqb cpp [] && (0 <? length (csP ++ [CIdx (N.of_nat j)]) - 1)%nat = false) as ->.
    { destruct (pos_eqb cpp []) eqn:Ep; [|reflexivity]. apply pos_eqb_nil in Ep. subst cpp.
      cbn in HcsP. injection HcsP as <-. reflexivity. }
    eexists. split; [reflexivity|]. split; [reflexivity|]. split; [|exact Hres_self].
    unfold small_last in Hsmall. rewrite last_snoc in Hsmall.
    assert (Hw : wrap32 (Z.of_N (N.of_nat j)) = Z.of_nat j).
    { rewrite nat_N_Z. unfold wrap32, i32_max, two31, two32 in *. rewrite Z.mod_small by lia. lia. }
    unfold ptr_resolve. cbn [ptr_c ptr_i]. rewrite HcP, Hw.
    cbn [child] in Hch.
    assert (Hj : (j < length (c_content cP))%nat) by (apply nth_error_Some; congruence).
    assert ((Z.of_nat j <? 0)%Z = false) as -> by (apply Z.ltb_ge; lia).
    destruct (c_content cP) as [|x0 xs] eqn:Ecc; [cbn in Hj; lia|]. cbn [orb].
    assert ((Z.of_nat j <? Z.of_nat (length (x0 :: xs)))%Z = true) as -> by (apply Z.ltb_lt; lia).
    now rewrite Nat2Z.id.
  - (* a named container: read back as the same pointer *)
    unfold content_at_path_from. rewrite Hloop. cbn [sr_pos app].
    unfold is_cont_at. rewrite Ho.
    assert (pos_eqb (cpp ++ [s]) [] = false) as -> by (destruct cpp; reflexivity). cbn [andb].
    eexists. split; [reflexivity|]. split; [reflexivity|]. split; exact Hres_self.
Qed.
