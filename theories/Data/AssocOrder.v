(* Data/AssocOrder.v — HashMap<String, V> as duplicate-free association lists: the
   results of the runtime's "iterate one map, insert into another" loops do not depend
   on the iteration order, as maps.  Used by Props/C03.v for the iteration sites of
   variables_state.rs / state_patch.rs / story_state.rs that the engine model
   (theories/Engine) writes as folds of [assoc_set]. *)
From Coq Require Import Permutation.
From Ink.Data Require Import Types PathProofs.

Definition assoc_equiv {V} (a b : list (text * V)) : Prop := forall k, assoc k a = assoc k b.

Lemma assoc_equiv_refl : forall V (a : list (text * V)), assoc_equiv a a.
Proof. intros V a k. reflexivity. Qed.
Lemma assoc_equiv_trans : forall V (a b c : list (text * V)), assoc_equiv a b -> assoc_equiv b c -> assoc_equiv a c.
Proof. intros V a b c H1 H2 k. rewrite H1. apply H2. Qed.

Lemma text_eqb_sym : forall a b, text_eqb a b = text_eqb b a.
Proof.
  intros a b. destruct (text_eqb a b) eqn:E.
  - apply text_eqb_eq in E. subst. symmetry. apply text_eqb_refl.
  - destruct (text_eqb b a) eqn:E2; [|reflexivity]. apply text_eqb_eq in E2. subst.
    rewrite text_eqb_refl in E. discriminate.
Qed.

Lemma assoc_assoc_set : forall V k k' (v : V) m,
  assoc k (assoc_set k' v m) = if text_eqb k k' then Some v else assoc k m.
Proof.
  induction m as [|[k2 v2] r IH]; cbn; [reflexivity|].
  destruct (text_eqb k' k2) eqn:E; cbn.
  - apply text_eqb_eq in E. subst k2. destruct (text_eqb k k'); reflexivity.
  - destruct (text_eqb k k2) eqn:E2; [|exact IH].
    apply text_eqb_eq in E2. subst k2. rewrite text_eqb_sym, E. reflexivity.
Qed.

Lemma assoc_none_notin : forall V k (m : list (text * V)), ~ In k (map fst m) -> assoc k m = None.
Proof.
  induction m as [|[k2 v2] r IH]; cbn; intros H; [reflexivity|].
  destruct (text_eqb k k2) eqn:E; [apply text_eqb_eq in E; subst; exfalso; apply H; left; reflexivity|].
  apply IH. intros Hin. apply H. right. exact Hin.
Qed.

Lemma assoc_in : forall V k (v : V) m, NoDup (map fst m) -> In (k, v) m -> assoc k m = Some v.
Proof.
  induction m as [|[k2 v2] r IH]; cbn; intros Hnd Hin; [contradiction|].
  inversion Hnd as [|? ? Hn Hr]; subst. destruct Hin as [E|Hin].
  - injection E as -> ->. rewrite text_eqb_refl. reflexivity.
  - destruct (text_eqb k k2) eqn:E; [|apply IH; assumption].
    apply text_eqb_eq in E. subst. exfalso. apply Hn. apply (in_map fst) in Hin. exact Hin.
Qed.

Lemma assoc_some_in : forall V k (v : V) m, assoc k m = Some v -> In (k, v) m.
Proof.
  induction m as [|[k2 v2] r IH]; cbn; intros H; [discriminate|].
  destruct (text_eqb k k2) eqn:E; [apply text_eqb_eq in E; injection H as ->; subst; left; reflexivity|right; apply IH, H].
Qed.

(* looking a key up does not depend on the order of a duplicate-free map *)
Theorem assoc_perm : forall V (m m' : list (text * V)) k,
  NoDup (map fst m) -> Permutation m m' -> assoc k m = assoc k m'.
Proof.
  intros V m m' k Hnd Hp.
  assert (Hnd' : NoDup (map fst m')) by (eapply Permutation_NoDup; [apply Permutation_map; exact Hp|exact Hnd]).
  destruct (assoc k m) as [v|] eqn:E.
  - symmetry. apply assoc_in; [exact Hnd'|]. eapply Permutation_in; [exact Hp|]. apply assoc_some_in, E.
  - symmetry. apply assoc_none_notin. intros Hin.
    assert (In k (map fst m)) as Hin' by (eapply Permutation_in; [apply Permutation_map, Permutation_sym; exact Hp|exact Hin]).
    apply in_map_iff in Hin' as [[k2 v2] [Ek Hin2]]. cbn in Ek. subst k2.
    rewrite (assoc_in _ _ _ _ Hnd Hin2) in E. discriminate.
Qed.

(* "for (k, v) in &src { dst.insert(k, v) }" *)
Definition insert_all {V} (src dst : list (text * V)) : list (text * V) :=
  fold_left (fun acc kv => assoc_set (fst kv) (snd kv) acc) src dst.

Lemma assoc_insert_all : forall V (src dst : list (text * V)) k, NoDup (map fst src) ->
  assoc k (insert_all src dst) = match assoc k src with Some v => Some v | None => assoc k dst end.
Proof.
  unfold insert_all. induction src as [|[k' v'] r IH]; cbn; intros dst k Hnd; [reflexivity|].
  inversion Hnd as [|? ? Hn Hr]; subst. rewrite IH by exact Hr. rewrite assoc_assoc_set.
  destruct (text_eqb k k') eqn:E; [|reflexivity].
  apply text_eqb_eq in E. subst k'. rewrite (assoc_none_notin _ _ _ Hn). reflexivity.
Qed.

(* the result, as a map, depends neither on the iteration order of the source nor on the
   arrangement of the destination *)
Theorem insert_all_order_independent : forall V (src src' dst dst' : list (text * V)),
  NoDup (map fst src) -> Permutation src src' -> assoc_equiv dst dst' ->
  assoc_equiv (insert_all src dst) (insert_all src' dst').
Proof.
  intros V src src' dst dst' Hnd Hp Hd k.
  assert (Hnd' : NoDup (map fst src')) by (eapply Permutation_NoDup; [apply Permutation_map; exact Hp|exact Hnd]).
  rewrite !assoc_insert_all by assumption. rewrite (assoc_perm _ _ _ k Hnd Hp), (Hd k). reflexivity.
Qed.

(* "for name in &names { if let Some(v) = f(name) { dst.insert(name, v) } }" *)
Definition insert_some {V} (f : text -> option V) (names : list text) (dst : list (text * V)) : list (text * V) :=
  fold_left (fun acc n => match f n with Some x => assoc_set n x acc | None => acc end) names dst.

Fixpoint mem_name (x : text) (l : list text) : bool :=
  match l with [] => false | y :: r => text_eqb x y || mem_name x r end.

Lemma mem_name_in : forall x l, mem_name x l = true <-> In x l.
Proof.
  induction l as [|y r IH]; cbn; [split; [discriminate|tauto]|].
  rewrite Bool.orb_true_iff, IH, text_eqb_eq. split; intros [H|H]; auto.
Qed.

Lemma assoc_insert_some : forall V (f : text -> option V) names dst k,
  assoc k (insert_some f names dst) =
  if mem_name k names then (match f k with Some x => Some x | None => assoc k dst end) else assoc k dst.
Proof.
  unfold insert_some. induction names as [|n r IH]; cbn; intros dst k; [reflexivity|].
  rewrite IH. destruct (text_eqb k n) eqn:E; cbn.
  - apply text_eqb_eq in E. subst n. destruct (f k) as [x|] eqn:F.
    + rewrite assoc_assoc_set, text_eqb_refl. destruct (mem_name k r); reflexivity.
    + destruct (mem_name k r); reflexivity.
  - destruct (f n) as [x|]; [rewrite assoc_assoc_set, E|]; reflexivity.
Qed.

Theorem insert_some_order_independent : forall V (f : text -> option V) names names' dst dst',
  Permutation names names' -> assoc_equiv dst dst' ->
  assoc_equiv (insert_some f names dst) (insert_some f names' dst').
Proof.
  intros V f names names' dst dst' Hp Hd k. rewrite !assoc_insert_some.
  assert (mem_name k names = mem_name k names') as ->.
  { destruct (mem_name k names) eqn:A, (mem_name k names') eqn:B; try reflexivity.
    - apply mem_name_in in A. eapply Permutation_in in A; [|exact Hp]. apply mem_name_in in A. congruence.
    - apply mem_name_in in B. eapply Permutation_in in B; [|apply Permutation_sym; exact Hp].
      apply mem_name_in in B. congruence. }
  rewrite (Hd k). reflexivity.
Qed.
