(* Data/NativeProofs.v — lemmas about the model of NativeFunctionCall::call and the
   random/list commands that property C04 (arithmetic half) needs.
   The statements about `call_native_p` / `int_sem_now` are about the code AS IT IS
   WRITTEN NOW (Gen/NativeGen.v is regenerated from the Rust source on every check):
   they compile only while the source uses wrapping / checked integer operators. *)
From Coq Require Import Lia.
From Ink.Data Require Import Types Path InkList IntSem Value Native.
From Ink.Gen Require Import NativeGen.
Local Open Scope Z_scope.

(* ---------- the regenerated integer semantics ---------- *)
Lemma sem_now_wrapping : int_sem_now = sem_wrapping.
Proof. reflexivity. Qed.

Lemma i32_arith_wrapping : forall ovf site x, i32_arith ovf Wrapping site x = Ok (wrap32 x).
Proof. reflexivity. Qed.

Lemma wrap32_in_range : forall z, in_i32 (wrap32 z) = true.
Proof.
  intros z. unfold in_i32, wrap32, i32_min, i32_max, two31, two32.
  pose proof (Z.mod_pos_bound (z + 2147483648) 4294967296 ltac:(lia)).
  apply andb_true_intro; split; apply Z.leb_le; lia.
Qed.

Lemma wrap32_id : forall z, in_i32 z = true -> wrap32 z = z.
Proof.
  intros z H. unfold in_i32, i32_min, i32_max in H. apply andb_prop in H as [H1 H2].
  apply Z.leb_le in H1. apply Z.leb_le in H2.
  unfold wrap32, two31, two32. rewrite Z.mod_small by lia. lia.
Qed.

(* ---------- int_ops_wrap ---------- *)
Section Now.
Variable ovf : bool.
Variable fo : float_oracle.
Variable defs : listdefs.

Lemma int_add_wraps : forall a b,
  call_native_p ovf fo defs NAdd [OVal (VInt a); OVal (VInt b)] = Ok (OVal (VInt (wrap32 (a + b)))).
Proof. reflexivity. Qed.
Lemma int_sub_wraps : forall a b,
  call_native_p ovf fo defs NSubtract [OVal (VInt a); OVal (VInt b)] = Ok (OVal (VInt (wrap32 (a - b)))).
Proof. reflexivity. Qed.
Lemma int_mul_wraps : forall a b,
  call_native_p ovf fo defs NMultiply [OVal (VInt a); OVal (VInt b)] = Ok (OVal (VInt (wrap32 (a * b)))).
Proof. reflexivity. Qed.
Lemma int_neg_wraps : forall a,
  call_native_p ovf fo defs NNegate [OVal (VInt a)] = Ok (OVal (VInt (wrap32 (- a)))).
Proof. reflexivity. Qed.

Lemma int_ops_wrap_lemma : forall a b,
  call_native_p ovf fo defs NAdd [OVal (VInt a); OVal (VInt b)] = Ok (OVal (VInt (wrap32 (a + b)))) /\
  call_native_p ovf fo defs NSubtract [OVal (VInt a); OVal (VInt b)] = Ok (OVal (VInt (wrap32 (a - b)))) /\
  call_native_p ovf fo defs NMultiply [OVal (VInt a); OVal (VInt b)] = Ok (OVal (VInt (wrap32 (a * b)))) /\
  call_native_p ovf fo defs NNegate [OVal (VInt a)] = Ok (OVal (VInt (wrap32 (- a)))).
Proof. intros; repeat split. Qed.

(* ---------- division ---------- *)
Lemma div_mod_zero_is_error_lemma : forall a,
  (exists msg, call_native_p ovf fo defs NDivide [OVal (VInt a); OVal (VInt 0)] = Err InvalidState msg) /\
  (exists msg, call_native_p ovf fo defs NMod [OVal (VInt a); OVal (VInt 0)] = Err InvalidState msg).
Proof. intros a; split; eexists; reflexivity. Qed.

Lemma div_min_neg1_lemma :
  call_native_p ovf fo defs NDivide [OVal (VInt i32_min); OVal (VInt (-1))] = Ok (OVal (VInt i32_min)) /\
  call_native_p ovf fo defs NMod [OVal (VInt i32_min); OVal (VInt (-1))] = Ok (OVal (VInt 0)).
Proof. split; reflexivity. Qed.

Lemma int_div_nonzero : forall a b, b <> 0 ->
  call_native_p ovf fo defs NDivide [OVal (VInt a); OVal (VInt b)] = Ok (OVal (VInt (wrap32 (Z.quot a b)))) /\
  call_native_p ovf fo defs NMod [OVal (VInt a); OVal (VInt b)] = Ok (OVal (VInt (wrap32 (Z.rem a b)))).
Proof.
  intros a b Hb. apply Z.eqb_neq in Hb.
  unfold call_native_p, call_native_d. cbn. rewrite Hb. split; reflexivity.
Qed.
End Now.

(* ---------- panic freedom of NativeFunctionCall::call ---------- *)
Definition np {A} (r : Res A) : Prop := match r with Panic _ => False | _ => True end.

Lemma np_iff : forall A (r : Res A), np r <-> forall s, r <> Panic s.
Proof. intros A [a|k m|s]; cbn; split; intros; try congruence; try exact I. eapply H; reflexivity. Qed.

Lemma np_bind : forall A B (m : Res A) (f : A -> Res B),
  np m -> (forall a, m = Ok a -> np (f a)) -> np (bind m f).
Proof. intros A B [a|k e|s] f Hm Hf; cbn in *; auto. Qed.

Lemma np_mapM : forall A B (f : A -> Res B) l, (forall x, In x l -> np (f x)) -> np (mapM f l).
Proof.
  induction l as [|x r IH]; intros H; cbn; [exact I|].
  apply np_bind; [apply H; left; reflexivity|]. intros y _.
  apply np_bind; [apply IH; intros; apply H; right; assumption|]. intros; exact I.
Qed.

Lemma np_foldM : forall A S (f : S -> A -> Res S) l s, (forall s x, In x l -> np (f s x)) -> np (foldM f l s).
Proof.
  induction l as [|x r IH]; intros s H; cbn; [exact I|].
  apply np_bind; [apply H; left; reflexivity|]. intros s' _. apply IH. intros; apply H; right; assumption.
Qed.

Lemma np_i32_arith_wrapping : forall ovf site x, np (i32_arith ovf Wrapping site x).
Proof. intros; exact I. Qed.
Lemma np_i32_div_checked : forall site a b, np (i32_div DivChecked site a b).
Proof. intros; unfold i32_div; destruct (b =? 0); exact I. Qed.
Lemma np_i32_rem_checked : forall site a b, np (i32_rem DivChecked site a b).
Proof. intros; unfold i32_rem; destruct (b =? 0); exact I. Qed.

Section Total.
Variable oo : order_oracle.
Variable ovf : bool.
Variable fo : float_oracle.
Variable defs : listdefs.
Let sem := sem_wrapping.

Ltac np_values :=
  repeat match goal with
         | v : value |- _ => destruct v
         end; cbn; try exact I.

Lemma np_add_op : forall a b, np (add_op sem ovf a b).
Proof. intros; np_values. Qed.
Lemma np_subtract_op : forall a b, np (subtract_op sem ovf a b).
Proof. intros; np_values. Qed.
Lemma np_multiply_op : forall a b, np (multiply_op sem ovf a b).
Proof. intros; np_values. Qed.
Lemma np_negate_op : forall a, np (negate_op sem ovf a).
Proof. intros; np_values. Qed.
Lemma np_divide_op : forall a b, np (divide_op sem a b).
Proof.
  intros a b; destruct a, b; cbn; try exact I.
  unfold i32_div; cbn. destruct (z0 =? 0); exact I.
Qed.
Lemma np_mod_op : forall a b, np (mod_op sem fo a b).
Proof.
  intros a b; destruct a, b; cbn; try exact I.
  unfold i32_rem; cbn. destruct (z0 =? 0); exact I.
Qed.

Lemma np_equal_core : forall a b, np (equal_core a b).
Proof. intros a b; destruct a, b; cbn; exact I. Qed.

Lemma np_list_all : forall l, wf_origins defs l -> np (list_all defs l).
Proof.
  intros l Hwf. unfold list_all. apply np_bind; [|intros; exact I].
  unfold origin_defs. apply np_mapM. intros n Hn. specialize (Hwf n Hn).
  destruct (get_list_definition defs n); [exact I|congruence].
Qed.
Lemma np_origin_defs : forall l, wf_origins defs l -> np (origin_defs defs l).
Proof.
  intros l Hwf. unfold origin_defs. apply np_mapM. intros n Hn. specialize (Hwf n Hn).
  destruct (get_list_definition defs n); [exact I|congruence].
Qed.
Lemma np_list_inverse : forall l, wf_origins defs l -> np (list_inverse defs l).
Proof.
  intros l Hwf. unfold list_inverse. apply np_bind; [apply np_origin_defs; assumption|intros; exact I].
Qed.

Definition wf_value (v : value) : Prop :=
  match v with VList l => wf_origins defs l | _ => True end.

Lemma np_list_unary : forall op a, wf_value a -> np (list_unary oo defs op a).
Proof.
  intros op a Hwf. destruct a; cbn; try exact I.
  destruct op; cbn; try exact I.
  - apply np_bind; [apply np_list_all; exact Hwf|intros; exact I].
  - apply np_bind; [apply np_list_inverse; exact Hwf|intros; exact I].
Qed.

Lemma np_call_type : forall op vs,
  length vs = native_nparams op -> Forall wf_value vs -> np (call_type oo sem ovf fo defs op vs).
Proof.
  intros op vs Hlen Hwf.
  destruct op; cbn in Hlen;
    (destruct vs as [|a [|b [|c r]]]; cbn in Hlen; try discriminate Hlen); cbn [call_type bin un];
    try apply np_add_op; try apply np_subtract_op; try apply np_multiply_op; try apply np_negate_op;
    try apply np_divide_op; try apply np_mod_op;
    try (apply np_list_unary; inversion Hwf; assumption);
    try (unfold equal_op, not_equals_op; apply np_bind; [apply np_equal_core|intros; exact I]);
    try (destruct a; try destruct b; cbn; exact I).
Qed.
End Total.

(* ---------- coercion ---------- *)
Lemma mapM_length : forall A B (f : A -> Res B) l l', mapM f l = Ok l' -> length l' = length l.
Proof.
  induction l as [|x r IH]; cbn; intros l' H.
  - injection H as <-; reflexivity.
  - destruct (f x) as [y| |]; cbn in H; try discriminate.
    destruct (mapM f r) as [ys| |]; cbn in H; try discriminate.
    injection H as <-. cbn. f_equal. apply IH; reflexivity.
Qed.

Lemma mapM_Forall : forall A B (f : A -> Res B) (P : B -> Prop) l l',
  (forall x y, In x l -> f x = Ok y -> P y) -> mapM f l = Ok l' -> Forall P l'.
Proof.
  induction l as [|x r IH]; cbn; intros l' HP H.
  - injection H as <-; constructor.
  - destruct (f x) as [y| |] eqn:Hx; cbn in H; try discriminate.
    destruct (mapM f r) as [ys| |] eqn:Hr; cbn in H; try discriminate.
    injection H as <-. constructor; [eapply HP; [left; reflexivity|exact Hx]|].
    apply IH; [intros; eapply HP; [right; eassumption|eassumption]|reflexivity].
Qed.

Lemma dest_fold_ge : forall ps d,
  (d <= fold_left (fun d o => match o with
                              | OVal v => if (d <? cast_ordinal v)%N then cast_ordinal v else d
                              | _ => d end) ps d)%N.
Proof.
  induction ps as [|o r IH]; intros d; cbn [fold_left]; [lia|].
  etransitivity; [|apply IH].
  destruct o; try lia. destruct (d <? cast_ordinal v)%N eqn:E; [apply N.ltb_lt in E; lia|lia].
Qed.

Lemma dest_type_ge : forall ps v, In (OVal v) ps -> (cast_ordinal v <= dest_type_of ps)%N.
Proof.
  unfold dest_type_of. intros ps. generalize coerce_initial_dest.
  induction ps as [|o r IH]; intros d v Hin; [destruct Hin|].
  destruct Hin as [->|Hin]; cbn [fold_left].
  - etransitivity; [|apply dest_fold_ge].
    destruct (d <? cast_ordinal v)%N eqn:E; [lia|apply N.ltb_ge in E; lia].
  - apply IH; assumption.
Qed.

Section Total2.
Variable oo : order_oracle.
Variable ovf : bool.
Variable fo : float_oracle.
Variable defs : listdefs.
Let sem := sem_wrapping.

Lemma np_value_cast : forall v dest, (cast_ordinal v <= dest)%N -> np (value_cast_o oo fo v dest).
Proof.
  intros v dest Hle. destruct v; cbn in Hle |- *;
    repeat match goal with
           | |- np (match ?d with _ => _ end) => destruct d
           end; try exact I; try lia.
Qed.

Lemma value_cast_wf : forall v dest v', wf_value defs v ->
  value_cast_o oo fo v dest = Ok (Some v') -> wf_value defs v'.
Proof.
  intros v dest v' Hwf H. destruct v; cbn in H;
    repeat match type of H with
           | match ?d with _ => _ end = _ => destruct d
           end; try discriminate; injection H as <-; exact I.
Qed.

Definition value_obj (o : obj) : Prop := match o with OVal _ => True | _ => False end.
Definition wf_obj (o : obj) : Prop := match o with OVal v => wf_value defs v | _ => True end.

Lemma np_coerce_values : forall ps, np (coerce_values oo fo ps).
Proof.
  intros ps. unfold coerce_values. apply np_mapM. intros o Hin. destruct o; try exact I.
  apply np_bind; [apply np_value_cast; apply dest_type_ge; assumption|intros; exact I].
Qed.

Lemma coerce_values_wf : forall ps vs, Forall wf_obj ps -> coerce_values oo fo ps = Ok vs ->
  Forall (wf_value defs) vs /\ length vs = length ps.
Proof.
  intros ps vs Hwf H. split; [|eapply mapM_length; exact H].
  eapply mapM_Forall; [|exact H]. intros o y Hin Hy. cbn in Hy.
  destruct o; try discriminate.
  destruct (value_cast_o oo fo v (dest_type_of ps)) as [c| |] eqn:Hc; cbn in Hy; try discriminate.
  injection Hy as <-. rewrite Forall_forall in Hwf. specialize (Hwf _ Hin). cbn in Hwf.
  destruct c as [v'|]; [eapply value_cast_wf; eassumption|assumption].
Qed.

(* ---------- list increment / binary list operations ---------- *)
Lemma np_list_increment : forall op l n, wf_origins defs l -> np (list_increment oo sem ovf defs op l n).
Proof.
  intros op l n Hwf. unfold list_increment.
  apply np_bind; [apply np_origin_defs; assumption|]. intros ds _.
  apply np_bind; [|intros; exact I].
  apply np_foldM. intros acc kv _.
  apply np_bind; [destruct op; exact I|]. intros t _.
  destruct (find _ ds); [|exact I]. destruct (def_item_with_value oo l0 t); exact I.
Qed.

Lemma np_value_truthy : forall v, np (value_truthy v).
Proof. destruct v; exact I. Qed.

Lemma np_call_binary_list : forall op v1 v2,
  native_nparams op = 2%nat -> wf_value defs v1 -> wf_value defs v2 ->
  np (call_binary_list_operation oo sem ovf fo defs op (OVal v1) (OVal v2)).
Proof.
  intros op v1 v2 Hn H1 H2.
  assert (Hct : np (call_type oo sem ovf fo defs op [v1; v2])).
  { apply np_call_type; [symmetry; exact Hn|repeat constructor; assumption]. }
  unfold call_binary_list_operation.
  destruct op; try discriminate Hn; destruct v1; destruct v2; cbn [is_list_obj andb negb];
    try exact Hct; try exact I;
    try (apply np_bind; [apply np_list_increment; assumption|intros; exact I]).
  all: apply np_bind; [apply np_value_truthy|].
  all: intros [|] _.
  all: try exact I.
  all: apply np_bind; [apply np_value_truthy|intros; exact I].
Qed.

(* ---------- NativeFunctionCall::call never panics on values ---------- *)
Definition value_or_void (o : obj) : Prop := match o with OVal _ | OVoid => True | _ => False end.

Lemma native_total_g : forall op args,
  Forall value_or_void args -> Forall wf_obj args ->
  np (call_native_g oo sem ovf fo defs op args).
Proof.
  intros op args Hv Hwf. unfold call_native_g, call_native_d.
  destruct (Nat.eqb (native_nparams op) (length args)) eqn:Hlen; cbn [negb]; [|exact I].
  apply Nat.eqb_eq in Hlen.
  destruct (existsb is_void_obj args) eqn:Hvoid; [exact I|].
  assert (Hgen : np (bind (coerce_values oo fo args) (call_type oo sem ovf fo defs op))).
  { apply np_bind; [apply np_coerce_values|]. intros vs Hvs.
    destruct (coerce_values_wf _ _ Hwf Hvs) as [Hw Hl].
    apply np_call_type; [congruence|assumption]. }
  destruct args as [|p0 [|p1 [|p2 r]]]; try exact Hgen.
  destruct (existsb is_list_obj [p0; p1]); [|exact Hgen].
  inversion Hv as [|? ? Hv0 Hv']; subst. inversion Hv' as [|? ? Hv1 _]; subst.
  inversion Hwf as [|? ? Hw0 Hw']; subst. inversion Hw' as [|? ? Hw1 _]; subst.
  cbn in Hvoid.
  destruct p0; try contradiction; [|cbn in Hvoid; discriminate].
  destruct p1; try contradiction; [|cbn in Hvoid; discriminate].
  apply np_call_binary_list; [exact Hlen|exact Hw0|exact Hw1].
Qed.
End Total2.

Theorem native_total_lemma : forall oo ovf fo defs op args,
  Forall value_or_void args -> Forall (wf_obj defs) args ->
  forall site, call_native_g oo int_sem_now ovf fo defs op args <> Panic site.
Proof.
  intros. apply np_iff. rewrite sem_now_wrapping. apply native_total_g; assumption.
Qed.

(* The hypothesis [value_or_void] cannot be dropped: a non-Value object next to a list
   reaches `downcast::<Value>().unwrap()` (native_function_call.rs:255/256). *)
Lemma native_total_non_value_refuted : forall oo sem ovf fo defs,
  exists args site, call_native_g oo sem ovf fo defs NEqual args = Panic site.
Proof.
  intros. exists [OVal (VList list_new); OGlue]. eexists. reflexivity.
Qed.

(* ---------- debug and release builds compute the same function ---------- *)
Lemma profile_irrelevant_wrapping : forall oo fo defs op args,
  call_native_g oo sem_wrapping true fo defs op args = call_native_g oo sem_wrapping false fo defs op args.
Proof. intros. reflexivity. Qed.

Theorem build_profile_irrelevant_lemma : forall oo fo defs op args,
  call_native_g oo int_sem_now true fo defs op args = call_native_g oo int_sem_now false fo defs op args.
Proof. intros. rewrite sem_now_wrapping. apply profile_irrelevant_wrapping. Qed.

(* with the plain operators the two profiles differ (what the code did before the fix) *)
Lemma build_profile_relevant_unchecked : forall oo fo defs,
  exists op args, call_native_g oo sem_unchecked true fo defs op args
                  <> call_native_g oo sem_unchecked false fo defs op args.
Proof.
  intros. exists NAdd, [OVal (VInt i32_max); OVal (VInt 1)]. vm_compute. discriminate.
Qed.
Lemma native_total_unchecked_refuted : forall oo ovf fo defs,
  exists op args site, call_native_g oo sem_unchecked ovf fo defs op args = Panic site.
Proof.
  intros. exists NDivide, [OVal (VInt 1); OVal (VInt 0)]. eexists. reflexivity.
Qed.

(* ---------- seed arithmetic (RANDOM, LIST_RANDOM, shuffle) ---------- *)
Lemma seed_sum_total : forall ovf site s p,
  seed_sum int_sem_now ovf site s p = Ok (wrap32 (s + p)).
Proof. reflexivity. Qed.

Lemma shuffle_seed_total : forall ovf h l s,
  shuffle_seed int_sem_now ovf h l s = Ok (wrap32 (wrap32 (h + l) + s)).
Proof. reflexivity. Qed.

Lemma random_cmd_total : forall ovf rng s p omax omin, np (random_cmd int_sem_now ovf rng s p omax omin).
Proof.
  intros. unfold random_cmd.
  destruct (obj_int omin); [|exact I]. destruct (obj_int omax); [|exact I].
  cbn. destruct (_ <=? 0); exact I.
Qed.

Lemma random_cmd_profile_irrelevant : forall rng s p omax omin,
  random_cmd int_sem_now true rng s p omax omin = random_cmd int_sem_now false rng s p omax omin.
Proof. reflexivity. Qed.

(* LIST_RANDOM: the seed sum never panics; what remains are the two unwraps on the
   chosen item (an item without origin: defect D20) — excluded for items that all have
   an origin and a permutation oracle *)
Lemma list_random_profile_irrelevant : forall oo rng defs s p o,
  list_random_o oo int_sem_now true rng defs s p o = list_random_o oo int_sem_now false rng defs s p o.
Proof. reflexivity. Qed.

Theorem seed_arith_total_lemma : forall ovf rng s p omax omin h l site,
  (forall x, random_cmd int_sem_now ovf rng s p omax omin <> Panic x) /\
  seed_sum int_sem_now ovf site s p = Ok (wrap32 (s + p)) /\
  shuffle_seed int_sem_now ovf h l s = Ok (wrap32 (wrap32 (h + l) + s)).
Proof.
  intros. split; [apply np_iff, random_cmd_total|split; reflexivity].
Qed.

(* ---------- LIST_RANDOM's "sorted for predictability" (sort by value only) ---------- *)
From Coq Require Import Permutation.
From Ink.Data Require Import InkListProofs.
From Ink.Spec Require Import KeyOrder.

Lemma Z_compare_flip_strict : strict_cmp (fun a b : Z => Z.compare b a).
Proof.
  constructor.
  - intros; apply Z.compare_refl.
  - intros a b H. symmetry. apply Z.compare_eq. exact H.
  - intros a b. apply Z.compare_antisym.
  - intros a b c H1 H2. rewrite Z.compare_lt_iff in *. eapply Z.lt_trans; eassumption.
Qed.

Lemma random_sort_total_lex : forall a b,
  random_sort_cmp TieTotal a b = (fun x y => entry_pc y x) (entry_proj a) (entry_proj b).
Proof. reflexivity. Qed.

Lemma flip_strict : forall A (c : A -> A -> comparison), strict_cmp c -> strict_cmp (fun a b => c b a).
Proof.
  intros A c H. constructor.
  - intros a. apply (sc_refl _ H).
  - intros a b E. symmetry. apply (sc_eq _ H). exact E.
  - intros a b. apply (sc_antisym _ H).
  - intros a b d H1 H2. eapply (sc_trans _ H); eassumption.
Qed.

(* iteration-order tie-break: independent when values are distinct *)
Theorem list_random_pick_order_independent_distinct : forall oo1 oo2 defs l n,
  ord_ok oo1 -> ord_ok oo2 -> NoDup (map snd (l_items l)) ->
  list_random_pick_tb oo1 TieIteration defs l n = list_random_pick_tb oo2 TieIteration defs l n.
Proof.
  intros oo1 oo2 defs l n [H1 _] [H2 _] Hnd. unfold list_random_pick_tb, random_sort_cmp.
  rewrite (sort_by_order_independent _ _ (@snd listitem Z) _ Z_compare_flip_strict
             (ord_items oo1 (l_items l)) (ord_items oo2 (l_items l))).
  - reflexivity.
  - eapply perm_trans; [apply H1|apply Permutation_sym, H2].
  - eapply Permutation_NoDup; [apply Permutation_map, Permutation_sym, H1|exact Hnd].
Qed.

(* total order: independent for every map *)
Theorem list_random_pick_order_independent_total : forall oo1 oo2 defs l n,
  ord_ok oo1 -> ord_ok oo2 -> keys_nodup (l_items l) ->
  list_random_pick_tb oo1 TieTotal defs l n = list_random_pick_tb oo2 TieTotal defs l n.
Proof.
  intros oo1 oo2 defs l n [H1 _] [H2 _] Hnd. unfold list_random_pick_tb.
  change (random_sort_cmp TieTotal) with (fun a b : listitem * Z => entry_pc (entry_proj b) (entry_proj a)).
  rewrite (sort_by_order_independent _ _ entry_proj _ (flip_strict _ _ entry_pc_strict)
             (ord_items oo1 (l_items l)) (ord_items oo2 (l_items l))).
  - reflexivity.
  - eapply perm_trans; [apply H1|apply Permutation_sym, H2].
  - eapply Permutation_NoDup; [apply Permutation_map, Permutation_sym, H1|].
    unfold keys_nodup, keys in Hnd. clear - Hnd. induction (l_items l) as [|x r IH]; cbn; [constructor|].
    cbn in Hnd. inversion Hnd as [|? ? Hn Hr]; subst. constructor; [|apply IH; exact Hr].
    intros Hin. apply in_map_iff in Hin as [y [Hy Hin]]. apply entry_proj_inj in Hy. subst y.
    apply Hn. apply in_map. exact Hin.
Qed.

Theorem list_random_pick_order_refuted :
  exists oo1 oo2 defs l n, ord_ok oo1 /\ ord_ok oo2 /\
    list_random_pick_tb oo1 TieIteration defs l n <> list_random_pick_tb oo2 TieIteration defs l n.
Proof.
  exists ord_id, ord_rev, [(T "L", [(T "a", 1)]); (T "M", [(T "x", 1)])], tie_list, 0.
  split; [apply ord_id_ok|]. split; [apply ord_rev_ok|]. vm_compute. discriminate.
Qed.
