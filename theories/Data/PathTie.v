(* Data/PathTie.v — the one fact about runtime/src/path.rs that the text-level
   theorems of C19 need, checked against the REGENERATED table Gen/PathGen.v:
   Path::new_with_components_string must not cache its input text as the
   components string (the cached text loses the leading dot of a relative path
   and keeps non-canonical numerals such as "007").  If this lemma stops
   compiling, the code caches the input again. *)
From Ink.Gen Require Import PathGen.
Lemma cache_off : cache_input = false.
Proof. reflexivity. Qed.
