(* Data/NativeTie.v — facts about the REGENERATED tables (Gen/NativeGen.v, Gen/CmdGen.v)
   that the hand-written model relies on.  If one of these stops compiling, the
   corresponding table in the Rust source has changed shape. *)
From Ink.Data Require Import Types Value Native.
From Ink.Gen Require Import NativeGen CmdGen.

(* name tables are mutually inverse *)
Lemma nop_name_roundtrip : forall op, nop_of_name (nop_name op) = Some op.
Proof. destruct op; vm_compute; reflexivity. Qed.

Lemma nop_of_name_sound : forall s op, nop_of_name s = Some op -> text_eqb s (nop_name op) = true.
Proof.
  intros s op. unfold nop_of_name.
  repeat (match goal with |- context [text_eqb s ?t] => destruct (text_eqb s t) eqn:? end;
          [intros H; injection H as <-; assumption|]).
  discriminate.
Qed.

Lemma all_nops_complete : forall op, In op all_nops.
Proof. destruct op; vm_compute; tauto. Qed.

Lemma cmd_name_roundtrip : forall c, cmd_of_name (cmd_name c) = Some c.
Proof. destruct c; vm_compute; reflexivity. Qed.

Lemma all_cmds_complete : forall c, In c all_cmds.
Proof. destruct c; vm_compute; tauto. Qed.

(* arities: the list operators and the unary arithmetic ones take one parameter *)
Lemma native_arity : forall op,
  native_nparams op =
  match op with
  | NNegate | NNot | NFloor | NCeiling | NInt | NFloat
  | NListMin | NListMax | NAll | NCount | NValueOfList | NInvert => 1%nat
  | _ => 2%nat
  end.
Proof. destruct op; reflexivity. Qed.

(* cast ordinals = discriminant order of enum ValueType = the CAST_* constants *)
Lemma valuetype_order :
  valuetype_variants = [T "Bool"; T "Int"; T "Float"; T "List"; T "String"; T "DivertTarget"; T "VariablePointer"].
Proof. reflexivity. Qed.

Lemma cast_constants :
  cast_consts = [(T "CAST_BOOL", 0%N); (T "CAST_INT", 1%N); (T "CAST_FLOAT", 2%N); (T "CAST_LIST", 3%N);
                 (T "CAST_STRING", 4%N); (T "CAST_DIVERT_TARGET", 5%N); (T "CAST_VARIABLE_POINTER", 6%N)].
Proof. reflexivity. Qed.

Lemma cast_ordinal_table :
  cast_ordinal (VBool true) = 0%N /\ cast_ordinal (VInt 0) = 1%N /\ cast_ordinal (VFloat 0) = 2%N /\
  cast_ordinal (VList list_new) = 3%N /\ cast_ordinal (VString []) = 4%N.
Proof. repeat split. Qed.

Lemma coerce_starts_at_int : coerce_initial_dest = 1%N.
Proof. reflexivity. Qed.
