(* Data/TreeProofs.v — tree-level half of C19: on a well-formed content tree the
   path Object::get_path reports for an object resolves, from the root, back to
   that very object without approximation; its components are well formed (so
   the text round trip of PathProofs applies); pointers round-trip.

   [wf_tree] is executable and is run on every loaded corpus story
   (Json/AuditRun.v), so the hypothesis is never vacuous. *)
From Coq Require Import Lia.
From Ink.Data Require Import Types Path PathProofs Tree.

(* ---------- unfolding wf_tree ---------- *)
Lemma wf_tree_local c : wf_tree c = true -> wf_local c = true.
Proof. destruct c. cbn [wf_tree]. intros H. apply andb_prop in H. tauto. Qed.

Lemma wf_tree_content c i c' :
  wf_tree c = true -> nth_error (c_content c) i = Some (OCont c') -> wf_tree c' = true.
Proof.
  destruct c as [n v t s content named]. cbn [wf_tree c_content]. intros H.
  apply andb_prop in H. destruct H as [_ H]. apply andb_prop in H. destruct H as [H _].
  revert i. induction content as [|o r IH]; intros i Hn; [destruct i; discriminate|].
  destruct i as [|i]; cbn in Hn.
  - injection Hn as ->. apply andb_prop in H. tauto.
  - apply (IH) with i; [|exact Hn]. destruct o; try exact H. apply andb_prop in H. tauto.
Qed.

Lemma wf_tree_named c k c' :
  wf_tree c = true -> assoc k (c_named_only c) = Some c' -> wf_tree c' = true.
Proof.
  destruct c as [n v t s content named]. cbn [wf_tree c_named_only]. intros H.
  apply andb_prop in H. destruct H as [_ H]. apply andb_prop in H. destruct H as [_ H].
  induction named as [|[k0 c0] r IH]; cbn [assoc]; [discriminate|].
  apply andb_prop in H. destruct H as [H0 Hr].
  destruct (text_eqb k k0); [intros E; injection E as <-; exact H0|now apply IH].
Qed.

(* ---------- facts about lists of names ---------- *)
Lemma existsb_text_eqb_in x l : existsb (text_eqb x) l = true <-> In x l.
Proof.
  rewrite existsb_exists. split.
  - intros [y [Hy E]]. apply text_eqb_eq in E. now subst.
  - intros H. exists x. split; [exact H|apply text_eqb_refl].
Qed.

Lemma nodupb_NoDup l : nodupb l = true -> NoDup l.
Proof.
  induction l as [|x r IH]; cbn [nodupb]; intros H; constructor; apply andb_prop in H; destruct H as [H1 H2].
  - intros Hin. apply existsb_text_eqb_in in Hin. rewrite Hin in H1. discriminate.
  - now apply IH.
Qed.

Lemma nodup_app_disjoint {A} (l1 l2 : list A) : NoDup (l1 ++ l2) -> forall x, In x l1 -> In x l2 -> False.
Proof.
  induction l1 as [|a r IH]; cbn; intros H x H1 H2; [contradiction|].
  inversion H as [|? ? Hn Hr]; subst. destruct H1 as [->|H1].
  - apply Hn. apply in_or_app. now right.
  - now apply (IH Hr x).
Qed.

Lemma nodup_app_l {A} (l1 l2 : list A) : NoDup (l1 ++ l2) -> NoDup l1.
Proof.
  induction l1 as [|a r IH]; cbn; intros H; [constructor|].
  inversion H as [|? ? Hn Hr]; subst. constructor; [|now apply IH].
  intros Hin. apply Hn. apply in_or_app. now left.
Qed.

Lemma text_eqb_neq a b : a <> b -> text_eqb a b = false.
Proof. intros H. destruct (text_eqb a b) eqn:E; [|reflexivity]. apply text_eqb_eq in E. contradiction. Qed.

Lemma content_names_nth l i o n : nth_error l i = Some o -> content_name o = Some n -> In n (content_names l).
Proof.
  revert i. induction l as [|x r IH]; intros i Hn Hc; [destruct i; discriminate|].
  destruct i as [|i]; cbn in Hn.
  - injection Hn as ->. cbn [content_names]. rewrite Hc. now left.
  - cbn [content_names]. destruct (content_name x); [right|]; eapply IH; eauto.
Qed.

(* find_named_idx looks for the LAST content child registered under n *)
Lemma find_named_idx_notin l n : ~ In n (content_names l) -> forall j acc, find_named_idx l n j acc = acc.
Proof.
  induction l as [|x r IH]; intros Hn j acc; cbn [find_named_idx]; [reflexivity|].
  cbn [content_names] in Hn.
  destruct x as [c'| | | | | | | | | | | |]; try (apply IH; exact Hn).
  unfold content_name in Hn. destruct (has_valid_name c') eqn:Hv; cbn [andb].
  - destruct (c_name c') as [m|] eqn:Hm.
    + destruct (text_eqb m n) eqn:E.
      * apply text_eqb_eq in E. subst. exfalso. apply Hn. now left.
      * apply IH. intros Hin. apply Hn. now right.
    + apply IH. exact Hn.
  - apply IH. exact Hn.
Qed.

Lemma find_named_idx_found l : NoDup (content_names l) ->
  forall i c' n, nth_error l i = Some (OCont c') -> content_name (OCont c') = Some n ->
  forall j acc, find_named_idx l n j acc = Some (j + i)%nat.
Proof.
  induction l as [|x r IH]; intros Hnd i c' n Hn Hc j acc; [destruct i; discriminate|].
  destruct i as [|i]; cbn in Hn.
  - injection Hn as ->. cbn [find_named_idx]. cbn [content_names] in Hnd. rewrite Hc in Hnd.
    unfold content_name in Hc. destruct (has_valid_name c') eqn:Hv; [|discriminate]. rewrite Hc.
    rewrite text_eqb_refl. cbn [andb]. rewrite find_named_idx_notin; [f_equal; lia|].
    now inversion Hnd.
  - cbn [find_named_idx].
    assert (Hin : In n (content_names r)) by (eapply content_names_nth; eauto).
    assert (Hr : NoDup (content_names r)).
    { cbn [content_names] in Hnd. destruct (content_name x); [now inversion Hnd|exact Hnd]. }
    destruct x as [cx| | | | | | | | | | | |];
      try (rewrite (IH Hr i c' n Hn Hc); f_equal; lia).
    destruct (has_valid_name cx) eqn:Hv; cbn [andb].
    + destruct (c_name cx) as [m|] eqn:Hm.
      * assert (m <> n).
        { intros ->. cbn [content_names] in Hnd. unfold content_name in Hnd. rewrite Hv, Hm in Hnd.
          inversion Hnd. contradiction. }
        rewrite (text_eqb_neq m n) by assumption. rewrite (IH Hr i c' n Hn Hc). f_equal; lia.
      * rewrite (IH Hr i c' n Hn Hc). f_equal; lia.
    + rewrite (IH Hr i c' n Hn Hc). f_equal; lia.
Qed.

Lemma assoc_in {V} k (l : list (text * V)) v : assoc k l = Some v -> In (k, v) l.
Proof.
  induction l as [|[k0 v0] r IH]; cbn [assoc]; [discriminate|].
  destruct (text_eqb k k0) eqn:E.
  - intros H. injection H as ->. apply text_eqb_eq in E. subst. now left.
  - intros H. right. now apply IH.
Qed.

Lemma good_name_spec n : good_name n = true ->
  n <> [] /\ ~ In c_dot n /\ text_eqb n [c_caret] = false /\ parse_usize n = None.
Proof.
  unfold good_name. intros H. repeat (apply andb_prop in H; destruct H as [H ?]).
  repeat split.
  - destruct n; [discriminate|discriminate].
  - intros Hin. match goal with H : negb (existsb _ n) = true |- _ => apply negb_true_iff in H; rename H into Hd end.
    assert (existsb (N.eqb c_dot) n = true) as E.
    { apply existsb_exists. exists c_dot. split; [exact Hin|apply N.eqb_refl]. }
    congruence.
  - match goal with H : negb (text_eqb n _) = true |- _ => now apply negb_true_iff in H end.
  - destruct (parse_usize n); [discriminate|reflexivity].
Qed.

(* ---------- one step of resolution ---------- *)
(* the component get_path uses for the child reached by step s *)
Definition step_comp (s : pstep) (o : obj) : Res comp :=
  match content_name o, s with
  | Some n, _ => Ok (CName n)
  | None, SI i => Ok (CIdx (N.of_nat i))
  | None, SN _ => Panic (T "object.rs:get_path:position().unwrap()")
  end.

Lemma step_resolves c s o pre :
  wf_local c = true -> child c s = Some o ->
  exists k, step_comp s o = Ok k /\ content_with_comp pre c k = Some (pre ++ [s]) /\ wf_comp k.
Proof.
  intros Hwf Hch. unfold wf_local in Hwf.
  apply andb_prop in Hwf. destruct Hwf as [Hwf Hlen].
  apply andb_prop in Hwf. destruct Hwf as [Hwf Hnamed].
  apply andb_prop in Hwf. destruct Hwf as [Hgood Hnd].
  apply nodupb_NoDup in Hnd.
  assert (Hnd1 : NoDup (content_names (c_content c))) by (eapply nodup_app_l; exact Hnd).
  rewrite forallb_forall in Hgood. rewrite forallb_forall in Hnamed.
  destruct s as [i|k']; cbn [child] in Hch.
  - (* a content child *)
    unfold step_comp. destruct (content_name o) as [n|] eqn:Hc.
    + exists (CName n). split; [reflexivity|].
      assert (Hg : good_name n = true) by (apply Hgood; eapply content_names_nth; eauto).
      destruct (good_name_spec n Hg) as (Hne & Hdot & Hcaret & Hus).
      split; [|cbn; tauto].
      cbn [content_with_comp]. rewrite Hcaret. unfold lookup_named.
      destruct o as [c'| | | | | | | | | | | |]; try discriminate Hc.
      rewrite (find_named_idx_found _ Hnd1 i c' n Hch Hc). reflexivity.
    + exists (CIdx (N.of_nat i)). split; [reflexivity|].
      assert (Hi : (i < length (c_content c))%nat) by (apply nth_error_Some; congruence).
      split.
      * cbn [content_with_comp].
        assert ((N.of_nat i <? N.of_nat (length (c_content c))) = true) as -> by (apply N.ltb_lt; lia).
        rewrite Nnat.Nat2N.id. reflexivity.
      * cbn. apply N.leb_le in Hlen. lia.
  - (* a named-only child *)
    destruct (assoc k' (c_named_only c)) as [c'|] eqn:Ha; [|discriminate].
    cbn in Hch. injection Hch as <-.
    pose proof (assoc_in _ _ _ Ha) as Hin.
    specialize (Hnamed _ Hin). cbn [fst snd] in Hnamed. apply andb_prop in Hnamed. destruct Hnamed as [Hg Hname].
    destruct (good_name_spec k' Hg) as (Hne & Hdot & Hcaret & Hus).
    unfold name_is in Hname. destruct (c_name c') as [n|] eqn:Hn; [|discriminate]. apply text_eqb_eq in Hname. subst n.
    assert (Hv : has_valid_name c' = true).
    { unfold has_valid_name. rewrite Hn. destruct k'; [congruence|reflexivity]. }
    exists (CName k'). split; [unfold step_comp, content_name; now rewrite Hv, Hn|].
    split; [|cbn; tauto].
    cbn [content_with_comp]. rewrite Hcaret. unfold lookup_named.
    rewrite find_named_idx_notin.
    + unfold assoc_mem. rewrite Ha. reflexivity.
    + intros Hc. apply (nodup_app_disjoint _ _ Hnd k' Hc).
      apply in_map_iff. exists (k', c'). now split.
Qed.

(* ---------- addressing lemmas ---------- *)
Lemma obj_at_app root pre c q : cont_at root pre = Some c -> obj_at root (pre ++ q) = obj_at c q.
Proof.
  revert root. induction pre as [|s pre IH]; intros root H.
  - unfold cont_at in H. cbn in H. injection H as ->. reflexivity.
  - unfold cont_at in H. cbn [obj_at] in H. cbn [app obj_at].
    destruct (child root s) as [o1|]; [|discriminate].
    destruct o1 as [c1| | | | | | | | | | | |];
      try (destruct pre; [discriminate H|discriminate H]).
    apply IH. unfold cont_at. exact H.
Qed.

Lemma get_path_comps_cons c s r :
  get_path_comps c (s :: r) =
  match child c s with
  | None => Panic (T "model:get_path:invalid position")
  | Some o =>
      do k <- step_comp s o;
      match o, r with
      | OCont c', _ => do ks <- get_path_comps c' r; Ok (k :: ks)
      | _, [] => Ok [k]
      | _, _ => Panic (T "model:get_path:invalid position")
      end
  end.
Proof. cbn [get_path_comps]. destruct (child c s) as [o|]; [|reflexivity]. destruct o; reflexivity. Qed.

Definition is_cont_obj (o : obj) : bool := match o with OCont _ => true | _ => false end.

Lemma loop_step root k rest n pre c fp o :
  cont_at root pre = Some c -> content_with_comp pre c k = Some fp -> obj_at root fp = Some o ->
  content_at_path_loop root (k :: rest) n pre (Some pre) =
  if (match rest with [] => false | _ => true end) && negb (is_cont_obj o)
  then mkSR pre true
  else content_at_path_loop root rest (pred n) fp (if is_cont_obj o then Some fp else None).
Proof.
  intros Hc Hk Ho. cbn [content_at_path_loop]. rewrite Hc, Hk, Ho.
  destruct o; reflexivity.
Qed.

Lemma child_wf c s c' : wf_tree c = true -> child c s = Some (OCont c') -> wf_tree c' = true.
Proof.
  intros Hwf Hch. destruct s as [i|k]; cbn [child] in Hch.
  - eapply wf_tree_content; eauto.
  - destruct (assoc k (c_named_only c)) as [c1|] eqn:E; [|discriminate]. cbn in Hch. injection Hch as ->.
    eapply wf_tree_named; eauto.
Qed.

(* the heart of C19 *)
Lemma resolve_from root : forall q c pre o,
  wf_tree c = true -> cont_at root pre = Some c -> obj_at c q = Some o ->
  exists cs, get_path_comps c q = Ok cs /\ Forall wf_comp cs /\
    forall n, content_at_path_loop root cs n pre (Some pre) = mkSR (pre ++ q) false.
Proof.
  induction q as [|s r IH]; intros c pre o Hwf Hpre Hobj.
  - exists []. split; [reflexivity|]. split; [constructor|]. intros n. cbn. now rewrite app_nil_r.
  - cbn [obj_at] in Hobj. destruct (child c s) as [o1|] eqn:Hch; [|discriminate].
    destruct (step_resolves c s o1 pre (wf_tree_local c Hwf) Hch) as (k & Hk & Hcw & Hwfk).
    assert (Hfp : obj_at root (pre ++ [s]) = Some o1).
    { rewrite (obj_at_app root pre c [s] Hpre). cbn [obj_at]. rewrite Hch. destruct o1; reflexivity. }
    rewrite get_path_comps_cons, Hch, Hk. cbn [bind].
    destruct (is_cont_obj o1) eqn:Hic.
    + destruct o1 as [c1| | | | | | | | | | | |]; try discriminate Hic.
      assert (Hwf1 : wf_tree c1 = true) by (eapply child_wf; eauto).
      assert (Hpre1 : cont_at root (pre ++ [s]) = Some c1) by (unfold cont_at; now rewrite Hfp).
      destruct (IH c1 (pre ++ [s]) o Hwf1 Hpre1 Hobj) as (cs & Hcs & Hwfcs & Hloop).
      exists (k :: cs). rewrite Hcs. split; [reflexivity|]. split; [now constructor|].
      intros n. rewrite (loop_step root k cs n pre c _ _ Hpre Hcw Hfp). cbn [is_cont_obj negb].
      rewrite Bool.andb_false_r. rewrite Hloop. now rewrite <- app_assoc.
    + assert (r = [] /\ o = o1) as [-> ->].
      { destruct o1; try discriminate Hic; destruct r; try discriminate Hobj; injection Hobj as <-; auto. }
      exists [k]. split; [destruct o1; try discriminate Hic; reflexivity|]. split; [now constructor|].
      intros n. rewrite (loop_step root k [] n pre c _ _ Hpre Hcw Hfp). cbn [andb]. rewrite Hic. reflexivity.
Qed.

Lemma path_resolves_to_self_lemma root p :
  wf_tree root = true -> valid_pos root p ->
  exists path, get_path root p = Ok path
    /\ content_at_path root path = {| sr_pos := p; sr_approx := false |}.
Proof.
  intros Hwf Hv. unfold valid_pos in Hv. destruct (obj_at root p) as [o|] eqn:Ho; [|congruence].
  destruct (resolve_from root p root [] o Hwf eq_refl Ho) as (cs & Hcs & _ & Hloop).
  exists (path_new cs false). unfold get_path. rewrite Hcs. split; [reflexivity|].
  unfold content_at_path, content_at_path_from. cbn [p_comps path_new]. apply Hloop.
Qed.

Lemma get_path_wf_lemma root p path :
  wf_tree root = true -> valid_pos root p -> get_path root p = Ok path ->
  Forall wf_comp (p_comps path) /\ p_rel path = false.
Proof.
  intros Hwf Hv Hg. unfold valid_pos in Hv. destruct (obj_at root p) as [o|] eqn:Ho; [|congruence].
  destruct (resolve_from root p root [] o Hwf eq_refl Ho) as (cs & Hcs & Hwfc & _).
  unfold get_path in Hg. rewrite Hcs in Hg. injection Hg as <-. split; [exact Hwfc|reflexivity].
Qed.

(* own path: text round trip (links the tree-level and the text-level halves of C19) *)
Lemma own_path_text_roundtrip_lemma root p path :
  wf_tree root = true -> valid_pos root p -> get_path root p = Ok path ->
  path_eqb (path_of_string (Some (path_string path))) path = true
  /\ p_rel (path_of_string (Some (path_string path))) = false.
Proof.
  intros Hwf Hv Hg. destruct (get_path_wf_lemma root p path Hwf Hv Hg) as [Hc Hr].
  unfold get_path in Hg. destruct (get_path_comps root p) as [cs| |]; try discriminate Hg.
  injection Hg as <-. cbn [p_comps path_new] in Hc.
  destruct (path_text_roundtrip_lemma cs false Hc (or_intror eq_refl)) as [H1 H2]. now split.
Qed.

(* ---------- pointers ---------- *)
Lemma last_snoc {A} (l : list A) x d : last (l ++ [x]) d = x.
Proof. induction l as [|a r IH]; [reflexivity|]. cbn [app last]. destruct (r ++ [x]) eqn:E; [destruct r; discriminate|exact IH]. Qed.

Lemma firstn_snoc {A} (l : list A) x : firstn (length (l ++ [x]) - 1) (l ++ [x]) = l.
Proof. rewrite app_length. cbn [length]. replace (length l + 1 - 1)%nat with (length l) by lia. rewrite firstn_app, Nat.sub_diag, firstn_all. cbn. apply app_nil_r. Qed.

Lemma pos_eqb_nil p : pos_eqb p [] = true -> p = [].
Proof. destruct p; [reflexivity|discriminate]. Qed.

(* a position written into a save or a choice — container path plus a
   non-negative index — denotes the same position when read back *)
Lemma pointer_roundtrip_lemma root cp c i :
  wf_tree root = true -> cont_at root cp = Some c -> (0 <= i <= i32_max)%Z ->
  exists path, ptr_path root (mkPtr (Some cp) i) = Ok (Some path)
            /\ pointer_at_path root path = Ok (mkPtr (Some cp) i).
Proof.
  intros Hwf Hc Hi.
  assert (Ho : obj_at root cp = Some (OCont c)).
  { unfold cont_at in Hc. destruct (obj_at root cp) as [[c'| | | | | | | | | | | |]|]; try discriminate Hc. now injection Hc as ->. }
  destruct (resolve_from root cp root [] (OCont c) Hwf eq_refl Ho) as (cs & Hcs & _ & Hloop).
  exists (path_append_comp (path_new cs false) (CIdx (Z.to_N i))).
  unfold ptr_path. cbn [ptr_c ptr_i]. unfold get_path. rewrite Hcs. cbn [bind].
  assert ((0 <=? i)%Z = true) as -> by (apply Z.leb_le; lia). split; [reflexivity|].
  unfold pointer_at_path, path_append_comp. cbn [p_comps path_new].
  destruct (cs ++ [CIdx (Z.to_N i)]) as [|k0 l0] eqn:E; [destruct cs; discriminate|]. rewrite <- E.
  rewrite map_app. cbn [map]. rewrite last_snoc. rewrite firstn_snoc.
  unfold content_at_path_from. rewrite Hloop. cbn [sr_pos app].
  unfold is_cont_at. rewrite Ho.
  assert (pos_eqb cp [] && (0 <? length (cs ++ [CIdx (Z.to_N i)]) - 1)%nat = false) as ->.
  { destruct (pos_eqb cp []) eqn:Ep; [|reflexivity]. apply pos_eqb_nil in Ep. subst cp.
    cbn in Hcs. injection Hcs as <-. reflexivity. }
  f_equal. f_equal. rewrite Z2N.id by lia. unfold wrap32, i32_max, two31, two32 in *.
  rewrite Z.mod_small by lia. lia.
Qed.

(* ---------- a concrete non-trivial tree (non-vacuity of the hypotheses) ---------- *)
Definition ex_stitch : container := Cont (Some (T "stitch")) false false false [OVoid; OVal (VInt 7)] [].
Definition ex_knot : container :=
  Cont (Some (T "knot")) true false true
       [OVal (VString (T "hi")); OCont (Cont None false false false [OGlue] []);
        OCont (Cont (Some (T "g-0")) false false false [OCmd Done] [])]
       [(T "stitch", ex_stitch)].
Definition ex_root : container :=
  Cont None false false false
       [OCont ex_knot; OCmd Done]
       [(T "global decl", Cont (Some (T "global decl")) false false false [OCmd End] [])].

Example ex_root_wf : wf_tree ex_root = true.
Proof. vm_compute. reflexivity. Qed.

(* named content inside named-only content inside a named knot *)
Example ex_named_only_resolves :
  valid_pos ex_root [SI 0; SN (T "stitch"); SI 1]
  /\ option_map path_string (match get_path ex_root [SI 0; SN (T "stitch"); SI 1] with Ok p => Some p | _ => None end)
     = Some (T "knot.stitch.1")
  /\ content_at_path ex_root (path_new [CName (T "knot"); CName (T "stitch"); CIdx 1] false)
     = mkSR [SI 0; SN (T "stitch"); SI 1] false.
Proof. split; [vm_compute; discriminate|]. split; vm_compute; reflexivity. Qed.

(* an unnamed nested container is addressed by index *)
Example ex_unnamed_resolves :
  get_path ex_root [SI 0; SI 1; SI 0] = Ok (path_new [CName (T "knot"); CIdx 1; CIdx 0] false)
  /\ content_at_path ex_root (path_new [CName (T "knot"); CIdx 1; CIdx 0] false) = mkSR [SI 0; SI 1; SI 0] false.
Proof. split; vm_compute; reflexivity. Qed.

(* and the hypothesis matters: two content children registered under the same
   name — the first one's own path resolves to the second one *)
Definition ex_clash : container :=
  Cont None false false false
       [OCont (Cont (Some (T "a")) false false false [OGlue] []);
        OCont (Cont (Some (T "a")) false false false [OVoid] [])] [].
Example ex_clash_not_wf : wf_tree ex_clash = false.
Proof. vm_compute. reflexivity. Qed.
Example ex_clash_resolves_elsewhere :
  get_path ex_clash [SI 0] = Ok (path_new [CName (T "a")] false)
  /\ content_at_path ex_clash (path_new [CName (T "a")] false) = mkSR [SI 1] false.
Proof. split; vm_compute; reflexivity. Qed.
