(* Data/IntSem.v — how the runtime's i32 operators behave, as a function of
   (a) what the source code says NOW (read by tools/gen_tables.py into
   Gen/NativeGen.v: `a + b` = Unchecked, `a.wrapping_add(b)` = Wrapping, `a / b` =
   DivUnchecked, zero-test + wrapping_div = DivChecked) and (b) the build profile
   ([ovf_panics] = overflow-checks on, i.e. a debug build).  Model file: no proofs. *)
From Ink.Base Require Export Text Res I32.
Local Open Scope Z_scope.

Inductive ovf_mode := Unchecked | Wrapping.

(* two more facts READ from the source (ink_list.rs, list_definition.rs, control_logic.rs):
   what a copied list remembers as its origin names, and how ties between list
   entries are resolved (by HashMap iteration order, or by the total order
   value / origin name / item name of `cmp_entries`) — see Data/InkList.v *)
Inductive origin_copy := CopyRaw | CopyEffective.
Inductive tie_break := TieIteration | TieTotal.
Inductive div_mode := DivUnchecked | DivChecked.

Record int_sem := mkIntSem {
  s_add : ovf_mode;      (* native_function_call.rs add_op, Int arm *)
  s_sub : ovf_mode;      (* subtract_op *)
  s_mul : ovf_mode;      (* multiply_op *)
  s_neg : ovf_mode;      (* negate_op *)
  s_inc : ovf_mode;      (* call_list_increment_operation: item value +/- int *)
  s_div : div_mode;      (* divide_op *)
  s_mod : div_mode;      (* mod_op *)
  s_seed : ovf_mode;     (* story_seed + previous_random, previous_random + 1, shuffle seed sum *)
  s_range : ovf_mode     (* RANDOM: max - min + 1 *)
}.

Definition sem_unchecked : int_sem :=
  mkIntSem Unchecked Unchecked Unchecked Unchecked Unchecked DivUnchecked DivUnchecked Unchecked Unchecked.
Definition sem_wrapping : int_sem :=
  mkIntSem Wrapping Wrapping Wrapping Wrapping Wrapping DivChecked DivChecked Wrapping Wrapping.

(* result of an i32 operator whose mathematically exact result is [exact] *)
Definition i32_arith (ovf_panics : bool) (m : ovf_mode) (site : string) (exact : Z) : Res Z :=
  match m with
  | Wrapping => Ok (wrap32 exact)
  | Unchecked =>
      if in_i32 exact then Ok exact
      else if ovf_panics then Panic (T site) else Ok (wrap32 exact)
  end.

(* `/` and `%`: a zero divisor and MIN / -1 panic in EVERY build profile when the
   plain operator is used; the checked form reports zero as a story error and
   wraps MIN / -1 (wrapping_div / wrapping_rem). *)
Definition i32_div (m : div_mode) (site : string) (a b : Z) : Res Z :=
  match m with
  | DivUnchecked =>
      if b =? 0 then Panic (T site)
      else if (a =? i32_min) && (b =? -1) then Panic (T site)
      else Ok (Z.quot a b)
  | DivChecked =>
      if b =? 0 then Err InvalidState (T "Division by zero")
      else Ok (wrap32 (Z.quot a b))
  end.
Definition i32_rem (m : div_mode) (site : string) (a b : Z) : Res Z :=
  match m with
  | DivUnchecked =>
      if b =? 0 then Panic (T site)
      else if (a =? i32_min) && (b =? -1) then Panic (T site)
      else Ok (Z.rem a b)
  | DivChecked =>
      if b =? 0 then Err InvalidState (T "Modulo by zero")
      else Ok (wrap32 (Z.rem a b))
  end.
