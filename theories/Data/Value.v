(* Data/Value.v — model of runtime/src/value.rs (+ the Display impls of the other
   runtime objects that can reach `to_string()`).  Model file: no proofs.

   Every definition exists in two forms: `name_o oo ...` takes the HashMap
   iteration-order oracle explicitly; `name ...` is `name_o ord_id ...`
   (insertion order), which is what the correspondence runs use. *)
From Ink.Base Require Export F32.
From Ink.Data Require Export Types Path InkList.
From Ink.Gen Require Import NativeGen CmdGen.
Local Open Scope Z_scope.

(* Value::new::<&str> — the whitespace flags of StringValue are functions of the
   text (Types.str_is_newline / str_is_inline_ws), so a string value is its text *)
Definition mk_string (s : text) : value := VString s.

(* Value::is_truthy *)
Definition value_truthy (v : value) : Res bool :=
  match v with
  | VBool b => Ok b
  | VInt z => Ok (negb (z =? 0))
  | VFloat f => Ok (negb (f32_is_zero f))
  | VString s => Ok (match s with [] => false | _ => true end)
  | VDivert _ => Err InvalidState (T "Shouldn't be checking the truthiness of a divert target")
  | VVarPtr _ _ => Err InvalidState (T "Shouldn't be checking the truthiness of a variable pointer")
  | VList l => Ok (negb (list_is_empty l))
  end.

Definition show_bool (b : bool) : text := if b then T "true" else T "false".

Section Oracles.
Variable oo : order_oracle.
Variable fo : float_oracle.

(* impl Display for Value *)
Definition value_display_o (v : value) : text :=
  match v with
  | VBool b => show_bool b
  | VInt z => show_Z z
  | VFloat f => f32_show fo f
  | VString s => s
  | VDivert p => T "DivertTargetValue(" ++ path_string p ++ T ")"
  | VVarPtr n _ => T "VariablePointerValue(" ++ n ++ T ")"
  | VList l => list_display oo l
  end.

(* impl Display for Divert *)
Definition divert_display (d : divert) : text :=
  match d_var d with
  | Some v => T "Divert(variable: " ++ v ++ T ")"
  | None =>
      match d_target d with
      | None => T "Divert(null)"
      | Some p =>
          T "Divert" ++ (if d_cond d then T "?" else [])
          ++ (if d_pushes d then
                match d_type d with PFunction => T " function" | _ => T " tunnel" end
              else [])
          ++ T " -> " ++ path_string p ++ T " (" ++ comps_string (p_comps p) ++ T ")"
      end
  end.

(* `to_string()` of a runtime object (EvalOutput, EndString, error messages).
   Objects that are pushed on the evaluation stack or output stream as content are
   values, Void, legacy Tag and Glue; the others are given for completeness. *)
Definition obj_display_o (o : obj) : text :=
  match o with
  | OVal v => value_display_o v
  | OVoid => T "Void"
  | OTag t => T "# " ++ t
  | OGlue => T "Glue"
  | OCmd c => cmd_display c
  | ONative op => T "Native '" ++ nop_debug_name op ++ T "'"
  | ODivert d => divert_display d
  | OChoicePoint _ p => T "Choice: -> " ++ path_string p
  | OVarRef n => T "var(" ++ n ++ T ")"
  | OReadCount p => T "read_count(" ++ path_string p ++ T ")"
  | OVarAss n _ _ => T "VarAssign to " ++ n
  | OCont c => T "Container (" ++ (match c_name c with Some n => n | None => T "<no name>" end) ++ T ")"
  | OChoice _ => T "**Choice**"
  end.

(* Value::cast(cast_dest_type): Ok None = no cast needed.
   The String -> Int / Float arms are `parse().unwrap()` (value.rs:277,278). *)
Definition cast_err (what : string) : Res (option value) :=
  Err InvalidState (T what).

Definition value_cast_o (v : value) (dest : N) : Res (option value) :=
  match v with
  | VBool b =>
      match dest with
      | 0%N => Ok None
      | 1%N => Ok (Some (VInt (if b then 1 else 0)))
      | 2%N => Ok (Some (VFloat (if b then f32_one else f32_zero)))
      | 4%N => Ok (Some (mk_string (show_bool b)))
      | _ => cast_err "Cast not allowed for bool"
      end
  | VInt z =>
      match dest with
      | 0%N => Ok (Some (VBool (negb (z =? 0))))
      | 1%N => Ok None
      | 2%N => Ok (Some (VFloat (f32_of_i32 z)))
      | 4%N => Ok (Some (mk_string (show_Z z)))
      | _ => cast_err "Cast not allowed for int"
      end
  | VFloat f =>
      match dest with
      | 0%N => Ok (Some (VBool (negb (f32_is_zero f))))
      | 1%N => Ok (Some (VInt (f32_to_i32 f)))
      | 2%N => Ok None
      | 4%N => Ok (Some (mk_string (f32_show fo f)))
      | _ => cast_err "Cast not allowed for float"
      end
  | VString s =>
      match dest with
      | 1%N => match parse_i32 s with
               | Some z => Ok (Some (VInt z))
               | None => Panic (T "value.rs:277")
               end
      | 2%N => match f32_parse fo s with
               | Some f => Ok (Some (VFloat f))
               | None => Panic (T "value.rs:278")
               end
      | 4%N => Ok None
      | _ => cast_err "Cast not allowed for string"
      end
  | VList l =>
      match dest with
      | 1%N => Ok (Some (VInt (match get_max_item oo l with Some (_, m) => m | None => 0 end)))
      | 2%N => Ok (Some (VFloat (match get_max_item oo l with
                                 | Some (_, m) => f32_of_i32 m | None => f32_zero end)))
      | 3%N => Ok None
      | 4%N => Ok (Some (mk_string (match get_max_item oo l with
                                    | Some (k, _) => item_full_name k | None => [] end)))
      | _ => cast_err "Cast not allowed for list"
      end
  | VDivert _ =>
      match dest with
      | 5%N => Ok None
      | _ => cast_err "Cast not allowed for divert"
      end
  | VVarPtr _ _ =>
      match dest with
      | 6%N => Ok None
      | _ => cast_err "Cast not allowed for variable pointer"
      end
  end.

(* Value::retain_list_origins_for_assignment(old, new): returns the new value
   (its initial_origin_names updated in place in Rust).  get_origin_names can
   panic on an item without origin (ink_list.rs:114). *)
Definition retain_origins_for_assignment_o (old new : value) : Res value :=
  match old, new with
  | VList ol, VList nl =>
      if list_is_empty nl then
        do names <- get_origin_names oo ol;
        Ok (VList (mkList (l_items nl) (l_origins nl) names))
      else Ok new
  | _, _ => Ok new
  end.

End Oracles.

Definition value_display : float_oracle -> value -> text := value_display_o ord_id.
Definition obj_display : float_oracle -> obj -> text := obj_display_o ord_id.
Definition value_cast : float_oracle -> value -> N -> Res (option value) := value_cast_o ord_id.
Definition retain_origins_for_assignment : value -> value -> Res value :=
  retain_origins_for_assignment_o ord_id.
Definition push_origins : listdefs -> inklist -> Res inklist := push_origins_o ord_id.
Definition single_item_list_named : listdefs -> text -> option value :=
  single_item_list_named_o ord_id.
