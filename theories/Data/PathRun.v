(* Data/PathRun.v — executable entry points of the path model for the
   correspondence check (same line format as `inkdrive --pathops`). *)
From Ink.Data Require Import Types Path.
From Ink.Gen Require Import PathGen.

Definition pparse (s : text) : path := path_of_string_gen cache_input (Some s).

Definition comp_tag (c : comp) : text :=
  match c with CIdx i => 105 :: show_N i | CName n => 110 :: n end.

Definition run_rt (s : text) : text :=
  let p := pparse s in
  T "rt " ++ quote_text (path_string p) ++ T " rel=" ++ show_bool01 (p_rel p)
  ++ T " n=" ++ show_N (N.of_nat (length (p_comps p)))
  ++ T " comps=" ++ quote_text (join_with [124] (map comp_tag (p_comps p))).

Definition run_eqh (a b : text) : text :=
  let pa := pparse a in let pb := pparse b in
  T "eqh eq=" ++ show_bool01 (path_eqb pa pb)
  ++ T " hash=" ++ show_bool01 (text_eqb (path_hash_input pa) (path_hash_input pb)).

Definition run_app (a b : text) : text :=
  match path_append (pparse a) (pparse b) with
  | Ok p => T "app " ++ quote_text (path_string p)
  | _ => T "panic"
  end.
