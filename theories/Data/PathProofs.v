(* Data/PathProofs.v — lemmas about the path model (text level). *)
From Coq Require Import Lia DecimalN DecimalPos DecimalFacts.
From Ink.Data Require Import Types Path.
From Ink.Gen Require Import PathGen.

Local Open Scope N_scope.

(* ---------- text equality ---------- *)
Lemma text_eqb_refl t : text_eqb t t = true.
Proof. induction t as [|c t IH]; cbn; [reflexivity|]. now rewrite N.eqb_refl, IH. Qed.

Lemma text_eqb_eq a b : text_eqb a b = true <-> a = b.
Proof.
  split.
  - revert b; induction a as [|x a IH]; intros [|y b] H; cbn in H; try discriminate; [reflexivity|].
    apply andb_true_iff in H as [H1 H2]. apply N.eqb_eq in H1. subst. f_equal. now apply IH.
  - intros ->. apply text_eqb_refl.
Qed.

Lemma comp_eqb_eq a b : comp_eqb a b = true <-> a = b.
Proof.
  destruct a as [i|n], b as [j|m]; cbn; split; intros H; try discriminate; try congruence.
  - apply N.eqb_eq in H. now subst.
  - inversion H. apply N.eqb_refl.
  - apply text_eqb_eq in H. now subst.
  - inversion H. apply text_eqb_refl.
Qed.

Lemma comps_eqb_eq a b : comps_eqb a b = true <-> a = b.
Proof.
  split.
  - revert b; induction a as [|x a IH]; intros [|y b] H; cbn in H; try discriminate; [reflexivity|].
    apply andb_true_iff in H as [H1 H2]. apply comp_eqb_eq in H1. subst. f_equal. now apply IH.
  - intros ->. induction b as [|y b IH]; cbn; [reflexivity|].
    rewrite IH. destruct (comp_eqb_eq y y) as [_ H]. now rewrite H.
Qed.

(* ---------- decimal digits ---------- *)
Lemma uint_roundtrip u : uint_of_text (text_of_uint u) = Some u.
Proof. induction u as [|u IH|u IH|u IH|u IH|u IH|u IH|u IH|u IH|u IH|u IH]; cbn [text_of_uint uint_of_text];
       try reflexivity; rewrite IH; reflexivity. Qed.

Definition all_digits (t : text) : Prop := Forall (fun c => 48 <= c <= 57) t.

Lemma text_of_uint_digits u : all_digits (text_of_uint u).
Proof. induction u; cbn [text_of_uint]; constructor; try assumption; lia. Qed.

Lemma text_of_uint_nil u : text_of_uint u = [] -> u = Decimal.Nil.
Proof. destruct u; cbn; intros H; try discriminate; reflexivity. Qed.

Lemma to_uint_not_nil n : N.to_uint n <> Decimal.Nil.
Proof.
  intros H. pose proof (DecimalN.Unsigned.of_to n) as E. rewrite H in E. cbn in E. subst n.
  cbn in H. discriminate.
Qed.

Lemma show_N_nonempty n : show_N n <> [].
Proof. unfold show_N. intros H. apply text_of_uint_nil in H. now apply to_uint_not_nil in H. Qed.

Lemma show_N_digits n : all_digits (show_N n).
Proof. apply text_of_uint_digits. Qed.

Lemma parse_usize_show i : i < 18446744073709551616 -> parse_usize (show_N i) = Some i.
Proof.
  intros Hi. unfold parse_usize.
  pose proof (show_N_nonempty i) as Hne. pose proof (show_N_digits i) as Hd.
  destruct (show_N i) as [|c r] eqn:E; [congruence|].
  assert (Hc : 48 <= c <= 57) by (inversion Hd; assumption).
  assert (c <> 43) by lia.
  destruct c as [|p]; [lia|].
  destruct p as [p|p|]; try (destruct p as [p|p|]; try (destruct p as [p|p|]; try (destruct p as [p|p|];
    try (destruct p as [p|p|]; try (destruct p as [p|p|]))))); try lia.
  all: unfold digits_val; rewrite <- E; unfold show_N; rewrite uint_roundtrip, DecimalN.Unsigned.of_to;
    destruct (i <? 18446744073709551616) eqn:L; [reflexivity| apply N.ltb_ge in L; lia].
Qed.

(* ---------- split / join ---------- *)
Lemma split_aux_app sep x : ~ In sep x -> forall cur t,
  split_on_aux sep (x ++ t) cur = split_on_aux sep t (rev x ++ cur).
Proof.
  induction x as [|c x IH]; intros Hn cur t; cbn; [reflexivity|].
  destruct (N.eqb_spec c sep) as [->|Hc]; [exfalso; apply Hn; now left|].
  rewrite IH by (intros Hin; apply Hn; now right). now rewrite <- app_assoc.
Qed.

Lemma split_join sep l : l <> [] -> Forall (fun x => ~ In sep x) l ->
  split_on sep (join_with [sep] l) = l.
Proof.
  unfold split_on. induction l as [|x l IH]; intros Hne Hall; [congruence|].
  inversion Hall as [|? ? Hx Hl]; subst.
  destruct l as [|y l].
  - cbn. rewrite <- (app_nil_r x) at 1. rewrite split_aux_app by assumption. cbn.
    now rewrite app_nil_r, rev_involutive.
  - change (join_with [sep] (x :: y :: l)) with (x ++ [sep] ++ join_with [sep] (y :: l)).
    rewrite split_aux_app by assumption. cbn [app split_on_aux]. rewrite N.eqb_refl.
    rewrite app_nil_r, rev_involutive. f_equal. apply IH; [discriminate|assumption].
Qed.

(* ---------- well-formed components ---------- *)
(* what Object::get_path can produce on a well-formed tree: indices below 2^64,
   names that are non-empty, contain no '.', and do not parse as usize *)
Definition wf_comp (c : comp) : Prop :=
  match c with
  | CIdx i => i < 18446744073709551616
  | CName n => n <> [] /\ ~ In c_dot n /\ parse_usize n = None
  end.

Lemma comp_text_nodot c : wf_comp c -> ~ In c_dot (comp_to_text c).
Proof.
  destruct c as [i|n]; cbn; [|tauto]. intros _ Hin.
  pose proof (show_N_digits i) as Hd. unfold all_digits in Hd. rewrite Forall_forall in Hd.
  apply Hd in Hin. unfold c_dot in Hin. lia.
Qed.

Lemma comp_text_nonempty c : wf_comp c -> comp_to_text c <> [].
Proof. destruct c as [i|n]; cbn; [intros _; apply show_N_nonempty | tauto]. Qed.

Lemma parse_comp_text c : wf_comp c -> parse_comp (comp_to_text c) = c.
Proof.
  destruct c as [i|n]; cbn; intros H; unfold parse_comp.
  - now rewrite parse_usize_show.
  - destruct H as (_ & _ & ->). reflexivity.
Qed.

Lemma parse_comps_string cs : cs <> [] -> Forall wf_comp cs ->
  map parse_comp (split_on c_dot (comps_string cs)) = cs.
Proof.
  intros Hne Hwf. unfold comps_string. rewrite split_join.
  - rewrite map_map. induction Hwf as [|c l Hc Hl IH]; [congruence|]. cbn. rewrite parse_comp_text by assumption.
    f_equal. destruct l; [reflexivity|]. apply IH. discriminate.
  - destruct cs; [congruence|discriminate].
  - rewrite Forall_map. eapply Forall_impl; [|exact Hwf]. intros c. apply comp_text_nodot.
Qed.

Lemma comps_string_head cs : cs <> [] -> Forall wf_comp cs ->
  exists c r, comps_string cs = c :: r /\ c <> c_dot.
Proof.
  intros Hne Hwf. destruct cs as [|k cs]; [congruence|]. inversion Hwf as [|? ? Hk Hr]; subst.
  pose proof (comp_text_nonempty k Hk) as Hn. pose proof (comp_text_nodot k Hk) as Hd.
  unfold comps_string. cbn [map].
  destruct (comp_to_text k) as [|c r] eqn:E; [congruence|].
  exists c. destruct cs as [|k' cs'].
  - exists r. cbn. split; [reflexivity|]. intros ->. apply Hd. now left.
  - eexists. cbn [join_with map]. split; [reflexivity|]. intros ->. apply Hd. now left.
Qed.

(* ---------- the two text-level facts of C19, for the model with the cache switch ---------- *)
Definition path_of_string := path_of_string_gen cache_input.

Definition path_equiv (p q : path) : Prop := p_comps p = p_comps q /\ p_rel p = p_rel q.

Lemma path_eqb_equiv p q : path_eqb p q = true <-> path_equiv p q.
Proof.
  unfold path_eqb, path_equiv. split.
  - intros H. apply andb_true_iff in H as [H H3]. apply andb_true_iff in H as [_ H2].
    apply comps_eqb_eq in H3. apply eqb_prop in H2. tauto.
  - intros [H1 H2]. rewrite H1, H2, Nat.eqb_refl, eqb_reflx. cbn. now apply comps_eqb_eq.
Qed.

(* print-then-parse of a path built from components (no cache) *)
Lemma roundtrip_nocache cs rel : Forall wf_comp cs -> (cs <> [] \/ rel = false) ->
  path_equiv (path_of_string_gen false (Some (path_string (path_new cs rel)))) (path_new cs rel).
Proof.
  intros Hwf Hne. unfold path_string, path_new. cbn [p_cache p_comps p_rel].
  destruct cs as [|k cs'].
  - destruct Hne as [H | ->]; [congruence|]. cbn. split; reflexivity.
  - set (cs := k :: cs') in *. assert (Hcs : cs <> []) by discriminate.
    destruct (comps_string_head cs Hcs Hwf) as (c & r & E & Hc).
    destruct rel.
    + unfold path_of_string_gen. cbn [strip_dot]. rewrite N.eqb_refl.
      rewrite parse_comps_string by assumption. split; reflexivity.
    + unfold path_of_string_gen. rewrite E. cbn [strip_dot].
      destruct (N.eqb_spec c c_dot) as [->|_]; [congruence|].
      rewrite <- E. rewrite parse_comps_string by assumption. split; reflexivity.
Qed.

(* with the cache off, the string of any path is the canonical one *)
Lemma string_nocache_canonical p : p_cache p = None ->
  path_string p = (if p_rel p then c_dot :: comps_string (p_comps p) else comps_string (p_comps p)).
Proof. unfold path_string. now intros ->. Qed.

Lemma eq_same_string p q : p_cache p = None -> p_cache q = None ->
  path_eqb p q = true -> path_hash_input p = path_hash_input q.
Proof.
  intros Hp Hq H. apply path_eqb_equiv in H as [H1 H2]. unfold path_hash_input.
  rewrite !string_nocache_canonical by assumption. now rewrite H1, H2.
Qed.

Lemma parsed_nocache s : p_cache (path_of_string_gen false s) = None.
Proof. destruct s as [[|c r]|]; cbn; try reflexivity. destruct (N.eqb c c_dot); reflexivity. Qed.

(* ---------- statements used by Props/C19.v (depend on the regenerated switch) ---------- *)
From Ink.Data Require Import PathTie.

Lemma path_text_roundtrip_lemma :
  forall cs rel, Forall wf_comp cs -> (cs <> [] \/ rel = false) ->
    path_eqb (path_of_string (Some (path_string (path_new cs rel)))) (path_new cs rel) = true
    /\ p_rel (path_of_string (Some (path_string (path_new cs rel)))) = rel.
Proof.
  intros cs rel Hwf Hne. unfold path_of_string. rewrite cache_off.
  pose proof (roundtrip_nocache cs rel Hwf Hne) as H. split; [now apply path_eqb_equiv|].
  destruct H as [_ H]. exact H.
Qed.

Lemma eq_implies_same_hash_parsed_lemma :
  forall s1 s2, path_eqb (path_of_string s1) (path_of_string s2) = true ->
    path_hash_input (path_of_string s1) = path_hash_input (path_of_string s2).
Proof. intros s1 s2. unfold path_of_string. rewrite cache_off. apply eq_same_string; apply parsed_nocache. Qed.

Lemma eq_implies_same_hash_mixed_lemma :
  forall s cs rel, path_eqb (path_of_string s) (path_new cs rel) = true ->
    path_hash_input (path_of_string s) = path_hash_input (path_new cs rel).
Proof. intros s cs rel. unfold path_of_string. rewrite cache_off. apply eq_same_string; [apply parsed_nocache|reflexivity]. Qed.
