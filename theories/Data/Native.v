(* Data/Native.v — model of runtime/src/native_function_call.rs
   (NativeFunctionCall::call and everything below it) and of the list / random
   control commands of story/control_logic.rs.  Model file: no proofs.

   Parameters (Section variables; never axioms):
     oo  : order_oracle   HashMap iteration order (InkList.v)
     sem : int_sem        how the i32 operators are written in the source NOW
                          (regenerated: NativeGen.int_sem_now)
     ovf : bool           overflow-checks on (debug profile) => overflow of an
                          unchecked operator is a Panic; off (release) => wraps
     fo  : float_oracle   f32 Display / powf / fmod / parse
   Exported closed forms at the end of the file:
     call_native_g oo sem ovf fo op args      fully general
     call_native_p ovf fo op args             = call_native_g ord_id int_sem_now ovf
     call_native fo op args                   = call_native_p true   (debug build)   *)
From Ink.Data Require Export Types Path InkList IntSem Value.
From Ink.Gen Require Export NativeGen CmdGen.
Local Open Scope Z_scope.

Definition not_available {A} : Res A :=
  Err InvalidState (T "Operation not available for type.").

Definition is_list_obj (o : obj) : bool := match o with OVal (VList _) => true | _ => false end.
Definition is_void_obj (o : obj) : bool := match o with OVoid => true | _ => false end.

Section Native.
Variable oo : order_oracle.
Variable sem : int_sem.
Variable ovf : bool.
Variable fo : float_oracle.

Definition ok_val (v : value) : Res obj := Ok (OVal v).

(* ---------- the per-operator functions (call_type) ---------- *)
Definition add_op (a b : value) : Res obj :=
  match a, b with
  | VInt x, VInt y => do r <- i32_arith ovf (s_add sem) "native_function_call.rs:574" (x + y); ok_val (VInt r)
  | VFloat x, VFloat y => ok_val (VFloat (f32_add x y))
  | VString x, VString y => ok_val (mk_string (x ++ y))
  | VList x, VList y => ok_val (VList (list_union origin_copy_now x y))
  | _, _ => not_available
  end.

Definition subtract_op (a b : value) : Res obj :=
  match a, b with
  | VInt x, VInt y => do r <- i32_arith ovf (s_sub sem) "native_function_call.rs:548" (x - y); ok_val (VInt r)
  | VFloat x, VFloat y => ok_val (VFloat (f32_sub x y))
  | VList x, VList y => ok_val (VList (list_without origin_copy_now x y))
  | _, _ => not_available
  end.

Definition divide_op (a b : value) : Res obj :=
  match a, b with
  | VInt x, VInt y => do r <- i32_div (s_div sem) "native_function_call.rs:611" x y; ok_val (VInt r)
  | VFloat x, VFloat y => ok_val (VFloat (f32_div x y))
  | _, _ => not_available
  end.

Definition multiply_op (a b : value) : Res obj :=
  match a, b with
  | VInt x, VInt y => do r <- i32_arith ovf (s_mul sem) "native_function_call.rs:653" (x * y); ok_val (VInt r)
  | VFloat x, VFloat y => ok_val (VFloat (f32_mul x y))
  | _, _ => not_available
  end.

Definition mod_op (a b : value) : Res obj :=
  match a, b with
  | VInt x, VInt y => do r <- i32_rem (s_mod sem) "native_function_call.rs:853" x y; ok_val (VInt r)
  | VFloat x, VFloat y => ok_val (VFloat (f32_rem fo x y))
  | _, _ => not_available
  end.

Definition negate_op (a : value) : Res obj :=
  match a with
  | VInt x => do r <- i32_arith ovf (s_neg sem) "native_function_call.rs:987" (- x); ok_val (VInt r)
  | VFloat x => ok_val (VFloat (f32_neg x))
  | _ => not_available
  end.

Definition pow_op (a b : value) : Res obj :=
  match a, b with
  | VInt x, VInt y => ok_val (VFloat (f32_pow fo (f32_of_i32 x) (f32_of_i32 y)))
  | VFloat x, VFloat y => ok_val (VFloat (f32_pow fo x y))
  | _, _ => not_available
  end.

Definition and_op (a b : value) : Res obj :=
  match a, b with
  | VBool x, VBool y => ok_val (VBool (x && y))
  | VInt x, VInt y => ok_val (VBool (negb (x =? 0) && negb (y =? 0)))
  | VFloat x, VFloat y => ok_val (VBool (negb (f32_is_zero x) && negb (f32_is_zero y)))
  | VList x, VList y => ok_val (VBool (negb (list_is_empty x) && negb (list_is_empty y)))
  | _, _ => not_available
  end.

Definition or_op (a b : value) : Res obj :=
  match a, b with
  | VBool x, VBool y => ok_val (VBool (x || y))
  | VInt x, VInt y => ok_val (VBool (negb (x =? 0) || negb (y =? 0)))
  | VFloat x, VFloat y => ok_val (VBool (negb (f32_is_zero x) || negb (f32_is_zero y)))
  | VList x, VList y => ok_val (VBool (negb (list_is_empty x) || negb (list_is_empty y)))
  | _, _ => not_available
  end.

Definition not_op (a : value) : Res obj :=
  match a with
  | VInt x => ok_val (VBool (x =? 0))
  | VFloat x => ok_val (VBool (f32_is_zero x))
  | VList x => ok_val (VInt (if list_is_empty x then 1 else 0))
  | _ => not_available
  end.

Definition greater_op (a b : value) : Res obj :=
  match a, b with
  | VInt x, VInt y => ok_val (VBool (y <? x))
  | VFloat x, VFloat y => ok_val (VBool (f32_gtb x y))
  | VList x, VList y => ok_val (VBool (list_greater_than oo x y))
  | _, _ => not_available
  end.
Definition less_op (a b : value) : Res obj :=
  match a, b with
  | VInt x, VInt y => ok_val (VBool (x <? y))
  | VFloat x, VFloat y => ok_val (VBool (f32_ltb x y))
  | VList x, VList y => ok_val (VBool (list_less_than oo x y))
  | _, _ => not_available
  end.
Definition greater_eq_op (a b : value) : Res obj :=
  match a, b with
  | VInt x, VInt y => ok_val (VBool (y <=? x))
  | VFloat x, VFloat y => ok_val (VBool (f32_geb x y))
  | VList x, VList y => ok_val (VBool (list_greater_than_or_equals oo x y))
  | _, _ => not_available
  end.
Definition less_eq_op (a b : value) : Res obj :=
  match a, b with
  | VInt x, VInt y => ok_val (VBool (x <=? y))
  | VFloat x, VFloat y => ok_val (VBool (f32_leb x y))
  | VList x, VList y => ok_val (VBool (list_less_than_or_equals oo x y))
  | _, _ => not_available
  end.

Definition equal_core (a b : value) : Res bool :=
  match a, b with
  | VBool x, VBool y => Ok (Bool.eqb x y)
  | VInt x, VInt y => Ok (x =? y)
  | VFloat x, VFloat y => Ok (f32_eqb x y)
  | VString x, VString y => Ok (text_eqb x y)
  | VList x, VList y => Ok (list_eqb x y)
  | VDivert x, VDivert y => Ok (path_eqb x y)
  | _, _ => not_available
  end.
Definition equal_op (a b : value) : Res obj := do r <- equal_core a b; ok_val (VBool r).
Definition not_equals_op (a b : value) : Res obj := do r <- equal_core a b; ok_val (VBool (negb r)).

Definition min_op (a b : value) : Res obj :=
  match a, b with
  | VInt x, VInt y => ok_val (VInt (Z.min x y))
  | VFloat x, VFloat y => ok_val (VFloat (f32_min x y))
  | _, _ => not_available
  end.
Definition max_op (a b : value) : Res obj :=
  match a, b with
  | VInt x, VInt y => ok_val (VInt (Z.max x y))
  | VFloat x, VFloat y => ok_val (VFloat (f32_max x y))
  | _, _ => not_available
  end.

Definition floor_op (a : value) : Res obj :=
  match a with
  | VInt x => ok_val (VInt x)
  | VFloat x => ok_val (VFloat (f32_floor x))
  | _ => not_available
  end.
Definition ceiling_op (a : value) : Res obj :=
  match a with
  | VInt x => ok_val (VInt x)
  | VFloat x => ok_val (VFloat (f32_ceil x))
  | _ => not_available
  end.
Definition int_op (a : value) : Res obj :=
  match a with
  | VInt x => ok_val (VInt x)
  | VFloat x => ok_val (VInt (f32_to_i32 x))
  | _ => not_available
  end.
Definition float_op (a : value) : Res obj :=
  match a with
  | VInt x => ok_val (VFloat (f32_of_i32 x))
  | VFloat x => ok_val (VFloat x)
  | _ => not_available
  end.

Definition has_op (a b : value) : Res obj :=
  match a, b with
  | VString x, VString y => ok_val (VBool (contains_text x y))
  | VList x, VList y => ok_val (VBool (list_contains x y))
  | _, _ => not_available
  end.
Definition hasnt_op (a b : value) : Res obj :=
  match a, b with
  | VString x, VString y => ok_val (VBool (negb (contains_text x y)))
  | VList x, VList y => ok_val (VBool (negb (list_contains x y)))
  | _, _ => not_available
  end.
Definition intersect_op (a b : value) : Res obj :=
  match a, b with
  | VList x, VList y => ok_val (VList (list_intersect x y))
  | _, _ => not_available
  end.

Section WithDefs.
(* origins inside a list are clones of the definitions in Rust and names here *)
Variable defs : listdefs.

Definition list_unary (op : nop) (a : value) : Res obj :=
  match a with
  | VList x =>
      match op with
      | NListMin => ok_val (VList (list_min_as_list oo x))
      | NListMax => ok_val (VList (list_max_as_list oo x))
      | NAll => do r <- list_all defs x; ok_val (VList r)
      | NInvert => do r <- list_inverse defs x; ok_val (VList r)
      | NCount => ok_val (VInt (Z.of_nat (length (l_items x))))
      | NValueOfList => ok_val (VInt (match get_max_item oo x with Some (_, m) => m | None => 0 end))
      | _ => not_available
      end
  | _ => not_available
  end.

(* call_type: params[0] / params[1] are slice indexings; the arity check in `call`
   makes them safe, a shorter vector would panic *)
Definition bin (f : value -> value -> Res obj) (ps : list value) : Res obj :=
  match ps with
  | a :: b :: _ => f a b
  | _ => Panic (T "native_function_call.rs:params-index")
  end.
Definition un (f : value -> Res obj) (ps : list value) : Res obj :=
  match ps with
  | a :: _ => f a
  | _ => Panic (T "native_function_call.rs:params-index")
  end.

Definition call_type (op : nop) (ps : list value) : Res obj :=
  match op with
  | NAdd => bin add_op ps | NSubtract => bin subtract_op ps | NDivide => bin divide_op ps
  | NMultiply => bin multiply_op ps | NMod => bin mod_op ps | NNegate => un negate_op ps
  | NEqual => bin equal_op ps | NGreater => bin greater_op ps | NLess => bin less_op ps
  | NGreaterEq => bin greater_eq_op ps | NLessEq => bin less_eq_op ps
  | NNotEquals => bin not_equals_op ps | NNot => un not_op ps
  | NAnd => bin and_op ps | NOr => bin or_op ps | NMin => bin min_op ps | NMax => bin max_op ps
  | NPow => bin pow_op ps | NFloor => un floor_op ps | NCeiling => un ceiling_op ps
  | NInt => un int_op ps | NFloat => un float_op ps
  | NHas => bin has_op ps | NHasnt => bin hasnt_op ps | NIntersect => bin intersect_op ps
  | NListMin | NListMax | NAll | NCount | NValueOfList | NInvert => un (list_unary op) ps
  end.

(* coerce_values_to_single_type *)
Definition dest_type_of (ps : list obj) : N :=
  fold_left (fun d o => match o with
                        | OVal v => if (d <? cast_ordinal v)%N then cast_ordinal v else d
                        | _ => d
                        end) ps coerce_initial_dest.

Definition coerce_values (ps : list obj) : Res (list value) :=
  let dest := dest_type_of ps in
  mapM (fun o => match o with
                 | OVal v => do c <- value_cast_o oo fo v dest;
                             Ok (match c with Some v' => v' | None => v end)
                 | _ => Err InvalidState (T "RTObject of type Value expected")
                 end) ps.

(* call_list_increment_operation *)
Definition list_increment (op : nop) (l : inklist) (n : Z) : Res inklist :=
  do ds <- origin_defs defs l;
  do its <- foldM (fun (acc : items) (kv : listitem * Z) =>
      do target <- (match op with
                    | NAdd => i32_arith ovf (s_inc sem) "native_function_call.rs:300" (snd kv + n)
                    | _ => i32_arith ovf (s_inc sem) "native_function_call.rs:302" (snd kv - n)
                    end);
      let oname := match it_origin (fst kv) with Some o => o | None => [] end in
      match find (fun d : listdef => text_eqb (fst d) oname) ds with
      | Some d => match def_item_with_value oo d target with
                  | Some k' => Ok (items_insert k' target acc)
                  | None => Ok acc
                  end
      | None => Ok acc
      end) (ord_items oo (l_items l)) [];
  Ok (mkList its [] []).

(* call_binary_list_operation *)
Definition call_binary_list_operation (op : nop) (p0 p1 : obj) : Res obj :=
  match op, p0, p1 with
  | NAdd, OVal (VList l), OVal (VInt n) | NSubtract, OVal (VList l), OVal (VInt n) =>
      do r <- list_increment op l n; ok_val (VList r)
  | _, _, _ =>
      match p0, p1 with
      | OVal v1, OVal v2 =>
          let both_lists := is_list_obj p0 && is_list_obj p1 in
          match op with
          | NAnd =>
              if negb both_lists then
                do t1 <- value_truthy v1;
                if t1 then (do t2 <- value_truthy v2; ok_val (VBool t2)) else ok_val (VBool false)
              else call_type op [v1; v2]
          | NOr =>
              if negb both_lists then
                do t1 <- value_truthy v1;
                if t1 then ok_val (VBool true) else (do t2 <- value_truthy v2; ok_val (VBool t2))
              else call_type op [v1; v2]
          | _ =>
              if both_lists then call_type op [v1; v2]
              else Err InvalidState (T "Can not call use operation on these operands")
          end
      | OVal _, _ => Panic (T "native_function_call.rs:256")   (* downcast::<Value>().unwrap() *)
      | _, _ => Panic (T "native_function_call.rs:255")
      end
  end.

(* NativeFunctionCall::call *)
Definition call_native_d (op : nop) (ps : list obj) : Res obj :=
  if negb (Nat.eqb (native_nparams op) (length ps)) then
    Err InvalidState (T "Unexpected number of parameters")
  else if existsb is_void_obj ps then
    Err InvalidState (T "Attempting to perform operation on a void value")
  else
    match ps with
    | [p0; p1] =>
        if existsb is_list_obj ps then call_binary_list_operation op p0 p1
        else do vs <- coerce_values ps; call_type op vs
    | _ => do vs <- coerce_values ps; call_type op vs
    end.

End WithDefs.

(* ---------- control commands ---------- *)
Definition obj_int (o : obj) : option Z := match o with OVal (VInt z) => Some z | _ => None end.
Definition obj_str (o : obj) : option text := match o with OVal (VString s) => Some s | _ => None end.
Definition obj_list (o : obj) : option inklist := match o with OVal (VList l) => Some l | _ => None end.

(* ListFromInt, after the two pops: the definition is looked up, then the item *)
Definition list_from_int_o (defs : listdefs) (int_val : Z) (list_name : text) : Res value :=
  match get_list_definition defs list_name with
  | Some d =>
      match def_item_with_value oo d int_val with
      | Some k => Ok (VList (list_single k int_val))
      | None => Ok (VList list_new)
      end
  | None => Err InvalidState (T "Failed to find List")
  end.

(* the whole arm on the two popped objects (first popped = the int) *)
Definition list_from_int_cmd (defs : listdefs) (o_int o_name : obj) : Res value :=
  match obj_int o_int with
  | None => Err InvalidState (T "Passed non-integer when creating a list element from a numerical value.")
  | Some n =>
      match obj_str o_name with
      | None => Panic (T "control_logic.rs:476")        (* list_name_val.as_ref().unwrap() *)
      | Some s => list_from_int_o defs n s
      end
  end.

(* ListRange on the three popped objects (max first, then min, then the list) *)
Definition list_range_cmd (o_max o_min o_list : obj) : Res value :=
  match obj_list o_list, o_min, o_max with
  | Some l, OVal vmin, OVal vmax => Ok (VList (list_with_sub_range oo origin_copy_now l vmin vmax))
  | _, _, _ => Err InvalidState (T "Expected List, minimum and maximum for LIST_RANGE")
  end.

(* LIST_RANDOM, given the u32 draw: sort by value only (descending, stable; TieTotal:
   by `cmp_entries` descending),
   index = draw % len; sorted[index] is a slice index (always in range for a
   permutation oracle); `get_origin_name().unwrap()` control_logic.rs:548 *)
Definition random_sort_cmp (tb : tie_break) (a b : listitem * Z) : comparison :=
  match tb with
  | TieIteration => Z.compare (snd b) (snd a)
  | TieTotal => entry_cmp b a
  end.
Definition list_random_pick_tb (tb : tie_break) (defs : listdefs) (l : inklist) (next_random : Z) : Res inklist :=
  let sorted := sort_by (random_sort_cmp tb) (ord_items oo (l_items l)) in
  let idx := next_random mod Z.of_nat (length (l_items l)) in
  match nth_error sorted (Z.to_nat idx) with
  | None => Panic (T "control_logic.rs:546")
  | Some (k, v) =>
      match it_origin k with
      | None => Panic (T "control_logic.rs:548")
      | Some o =>
          match get_list_definition defs o with
          | None => Err InvalidState (T "InkList origin could not be found in story when constructing new list")
          | Some _ => Ok (mkList [(k, v)] [o] [o])
          end
      end
  end.
Definition list_random_pick_o := list_random_pick_tb tie_break_now.

Section Rng.
(* first u32 draw of StdRng::seed_from_u64(seed as u64) for an i32 seed *)
Variable rng : Z -> Z.

Definition seed_sum (site : string) (story_seed previous_random : Z) : Res Z :=
  i32_arith ovf (s_seed sem) site (story_seed + previous_random).

(* ListRandom on the popped object: (result list, new previous_random) *)
Definition list_random_o (defs : listdefs) (story_seed previous_random : Z) (o : obj)
  : Res (value * Z) :=
  match obj_list o with
  | None => Err InvalidState (T "Expected list for LIST_RANDOM")
  | Some l =>
      if list_is_empty l then Ok (VList list_new, previous_random)
      else
        do seed <- seed_sum "control_logic.rs:539" story_seed previous_random;
        let next := rng seed in
        do r <- list_random_pick_o defs l next;
        Ok (VList r, wrap32 next)
  end.

(* Random on the two popped objects (max first): (chosen value, new previous_random) *)
Definition random_cmd (story_seed previous_random : Z) (o_max o_min : obj) : Res (Z * Z) :=
  match obj_int o_min, obj_int o_max with
  | None, _ => Err InvalidState (T "Invalid value for the minimum parameter of RANDOM(min, max)")
  | _, None => Err InvalidState (T "Invalid value for the maximum parameter of RANDOM(min, max)")
  | Some mn, Some mx =>
      do d <- i32_arith ovf (s_range sem) "control_logic.rs:386" (mx - mn);
      do range <- i32_arith ovf (s_range sem) "control_logic.rs:386" (d + 1);
      if range <=? 0 then Err InvalidState (T "RANDOM: the maximum must be larger")
      else
        do seed <- seed_sum "control_logic.rs:395" story_seed previous_random;
        let next := rng seed in
        do chosen <- i32_arith ovf (s_range sem) "control_logic.rs:398" (next mod range + mn);
        do prev' <- i32_arith ovf (s_seed sem) "control_logic.rs:401" (previous_random + 1);
        Ok (chosen, prev')
  end.
End Rng.

(* SeedRandom on the popped object: new (story_seed, previous_random) *)
Definition seed_random_cmd (o : obj) : Res (Z * Z) :=
  match obj_int o with
  | None => Err InvalidState (T "Invalid value passed to SEED_RANDOM")
  | Some s => Ok (s, 0)
  end.

(* next_sequence_shuffle_index: loop / iteration index and the seed sum.
   `/` and `%` by num_elements are plain operators there (story/mod.rs:150,151). *)
Definition shuffle_loop_iter (seq_count num_elements : Z) : Res (Z * Z) :=
  do q <- i32_div DivUnchecked "story/mod.rs:150" seq_count num_elements;
  do r <- i32_rem DivUnchecked "story/mod.rs:151" seq_count num_elements;
  Ok (q, r).
Definition shuffle_seed (sequence_hash loop_index story_seed : Z) : Res Z :=
  do a <- i32_arith ovf (s_seed sem) "story/mod.rs:160" (sequence_hash + loop_index);
  i32_arith ovf (s_seed sem) "story/mod.rs:160" (a + story_seed).

End Native.

(* NativeFunctionCall::call needs the definitions only through list origins, which
   in Rust are carried inside the list value; hence the extra [listdefs] argument. *)
Definition call_native_g := call_native_d.
Definition call_native_p (ovf : bool) (fo : float_oracle) (defs : listdefs) : nop -> list obj -> Res obj :=
  call_native_d ord_id int_sem_now ovf fo defs.
Definition call_native (fo : float_oracle) (defs : listdefs) : nop -> list obj -> Res obj :=
  call_native_p true fo defs.

Definition list_from_int : listdefs -> Z -> text -> Res value := list_from_int_o ord_id.
Definition list_random_pick : listdefs -> inklist -> Z -> Res inklist := list_random_pick_o ord_id.
Definition list_random (ovf : bool) (rng : Z -> Z) := list_random_o ord_id int_sem_now ovf rng.
Definition list_range : inklist -> value -> value -> inklist := list_with_sub_range ord_id origin_copy_now.
