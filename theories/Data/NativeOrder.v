(* Data/NativeOrder.v — C03 for the value layer: with the total tie-break
   (`cmp_entries`: value, origin name, item name — NativeGen.tie_break_now = TieTotal,
   READ from ink_list.rs / list_definition.rs / control_logic.rs) no result of the value
   layer depends on the HashMap iteration order.  Every lemma takes the hypothesis
   [tie_break_now = TieTotal]; Props/C03.v discharges it with eq_refl, which type-checks
   exactly when the source uses the total order. *)
From Coq Require Import Lia Permutation.
From Ink.Data Require Import Types Path InkList IntSem Value Native InkListProofs NativeProofs.
From Ink.Gen Require Import NativeGen.
From Ink.Spec Require Import KeyOrder.
Local Open Scope Z_scope.

Section Total.
Hypothesis Htb : tie_break_now = TieTotal.
Variables oo1 oo2 : order_oracle.
Hypothesis H1 : ord_ok oo1.
Hypothesis H2 : ord_ok oo2.

Lemma get_max_item_oi : forall l, get_max_item oo1 l = get_max_item oo2 l.
Proof.
  intros l. unfold get_max_item. rewrite Htb.
  apply get_max_item_order_independent_total; try assumption. apply Permutation_refl.
Qed.
Lemma get_min_item_oi : forall l, get_min_item oo1 l = get_min_item oo2 l.
Proof.
  intros l. unfold get_min_item. rewrite Htb.
  apply get_min_item_order_independent_total; try assumption. apply Permutation_refl.
Qed.
Lemma def_item_with_value_oi : forall d v, def_item_with_value oo1 d v = def_item_with_value oo2 d v.
Proof. intros. unfold def_item_with_value. rewrite Htb. apply def_item_with_value_order_independent_total; assumption. Qed.
Lemma get_ordered_items_oi : forall l, keys_nodup (l_items l) -> get_ordered_items oo1 l = get_ordered_items oo2 l.
Proof.
  intros l Hnd. unfold get_ordered_items. rewrite Htb.
  apply get_ordered_items_order_independent_total; try assumption. apply Permutation_refl.
Qed.
Lemma list_display_oi : forall l, keys_nodup (l_items l) -> list_display oo1 l = list_display oo2 l.
Proof. intros l Hnd. unfold list_display. rewrite (get_ordered_items_oi l Hnd). reflexivity. Qed.
Lemma list_random_pick_oi : forall defs l n, keys_nodup (l_items l) ->
  list_random_pick_o oo1 defs l n = list_random_pick_o oo2 defs l n.
Proof. intros. unfold list_random_pick_o. rewrite Htb. apply list_random_pick_order_independent_total; assumption. Qed.

Lemma list_from_int_oi : forall defs n s, list_from_int_o oo1 defs n s = list_from_int_o oo2 defs n s.
Proof. intros. unfold list_from_int_o. destruct (get_list_definition defs s); [|reflexivity]. rewrite def_item_with_value_oi. reflexivity. Qed.

Lemma range_bounds_oi : forall v, range_min_bound oo1 v = range_min_bound oo2 v /\ range_max_bound oo1 v = range_max_bound oo2 v.
Proof.
  intros v. unfold range_min_bound, range_max_bound. destruct v; try (split; reflexivity).
  rewrite get_min_item_oi, get_max_item_oi. split; reflexivity.
Qed.
Lemma list_with_sub_range_oi : forall cm l a b, keys_nodup (l_items l) ->
  list_with_sub_range oo1 cm l a b = list_with_sub_range oo2 cm l a b.
Proof.
  intros cm l a b Hnd. unfold list_with_sub_range.
  destruct (range_bounds_oi a) as [-> _]. destruct (range_bounds_oi b) as [_ ->].
  rewrite (get_ordered_items_oi l Hnd). reflexivity.
Qed.

(* Display and casts *)
Definition value_wf (v : value) : Prop := match v with VList l => keys_nodup (l_items l) | _ => True end.

Lemma value_display_oi : forall fo v, value_wf v -> value_display_o oo1 fo v = value_display_o oo2 fo v.
Proof. intros fo v Hwf. destruct v; try reflexivity. cbn. apply list_display_oi. exact Hwf. Qed.

Lemma value_cast_oi : forall fo v dest, value_cast_o oo1 fo v dest = value_cast_o oo2 fo v dest.
Proof. intros fo v dest. destruct v; try reflexivity. cbn. rewrite get_max_item_oi. reflexivity. Qed.

(* the operators *)
Lemma cmp_ops_oi : forall a b,
  greater_op oo1 a b = greater_op oo2 a b /\ less_op oo1 a b = less_op oo2 a b /\
  greater_eq_op oo1 a b = greater_eq_op oo2 a b /\ less_eq_op oo1 a b = less_eq_op oo2 a b.
Proof.
  intros a b. destruct a, b; try (repeat split; reflexivity).
  destruct (list_comparisons_order_independent oo1 oo2 l l0 H1 H2) as [E1 [E2 [E3 E4]]].
  unfold greater_op, less_op, greater_eq_op, less_eq_op. rewrite E1, E2, E3, E4. repeat split; reflexivity.
Qed.

Lemma list_unary_oi : forall defs op a, list_unary oo1 defs op a = list_unary oo2 defs op a.
Proof.
  intros defs op a. destruct a; try reflexivity. unfold list_unary, list_min_as_list, list_max_as_list.
  rewrite get_max_item_oi, get_min_item_oi. reflexivity.
Qed.

Lemma call_type_oi : forall sem ovf fo defs op ps,
  call_type oo1 sem ovf fo defs op ps = call_type oo2 sem ovf fo defs op ps.
Proof.
  intros sem ovf fo defs op ps.
  destruct op; cbn [call_type]; unfold bin, un; destruct ps as [|a [|b r]]; try reflexivity;
    try apply list_unary_oi;
    destruct (cmp_ops_oi a b) as [E1 [E2 [E3 E4]]]; assumption.
Qed.

Lemma mapM_ext : forall A B (f g : A -> Res B) l, (forall x, f x = g x) -> mapM f l = mapM g l.
Proof. intros A B f g l H. induction l as [|x r IH]; cbn; [reflexivity|]. rewrite H, IH. reflexivity. Qed.

Lemma coerce_values_oi : forall fo ps, coerce_values oo1 fo ps = coerce_values oo2 fo ps.
Proof.
  intros fo ps. unfold coerce_values. apply mapM_ext. intros o. destruct o; try reflexivity.
  rewrite value_cast_oi. reflexivity.
Qed.

(* list +- int iterates the list and inserts into a fresh map: its result is order
   independent as a MAP only; it is excluded here and covered by the correspondence runs *)
Definition not_increment (op : nop) (args : list obj) : Prop :=
  match op, args with
  | NAdd, [OVal (VList _); OVal (VInt _)] | NSubtract, [OVal (VList _); OVal (VInt _)] => False
  | _, _ => True
  end.

Theorem call_native_oi_partial : forall sem ovf fo defs op args, not_increment op args ->
  call_native_g oo1 sem ovf fo defs op args = call_native_g oo2 sem ovf fo defs op args.
Proof.
  intros sem ovf fo defs op args Hni. unfold call_native_g, call_native_d.
  destruct (negb (Nat.eqb (native_nparams op) (length args))); [reflexivity|].
  destruct (existsb is_void_obj args); [reflexivity|].
  assert (Hgen : bind (coerce_values oo1 fo args) (call_type oo1 sem ovf fo defs op) =
                 bind (coerce_values oo2 fo args) (call_type oo2 sem ovf fo defs op)).
  { rewrite coerce_values_oi. destruct (coerce_values oo2 fo args); cbn; try reflexivity. apply call_type_oi. }
  destruct args as [|p0 [|p1 [|p2 r]]]; try exact Hgen.
  destruct (existsb is_list_obj [p0; p1]); [|exact Hgen].
  unfold call_binary_list_operation.
  destruct op; destruct p0 as [| [] | | | | | | | | | | | ]; destruct p1 as [| [] | | | | | | | | | | | ];
    cbn in Hni; try contradiction; try reflexivity;
    cbn [is_list_obj andb negb]; try apply call_type_oi.
Qed.
End Total.
