(* Data/Types.v — the data of the runtime: JSON documents, paths, the content
   tree, values.  Shared by every other model file.  Model file: no proofs.

   Rust counterparts:
     json            serde_json::Value (after number conversion, see JFloat)
     comp, path      runtime/src/path.rs  (Component, Path incl. the cached string)
     value, inklist  runtime/src/value_type.rs, ink_list.rs, ink_list_item.rs
     obj, container  runtime/src/{container,divert,choice_point,control_command,
                     native_function_call,variable_reference,variable_assigment,
                     tag,glue,void}.rs
   Identity of runtime objects (Rc pointers, Weak parents) is replaced by the
   *position* of an object in the tree (type [pos]).                          *)
From Ink.Base Require Export Text Res I32.

(* ---------- JSON ---------- *)
(* JInt z   : an integer literal (any magnitude; serde keeps it integral iff it
              fits i64/u64)
   JFloat b : a non-integer literal, already converted to the f32 bit pattern b
              (literal -> f64 -> f32 is library behaviour, supplied by the
              translator json2coq.py / the f32_parse oracle)                *)
Inductive json :=
| JNull
| JBool (b : bool)
| JInt (z : Z)
| JFloat (bits : Z)
| JStr (s : text)
| JArr (l : list json)
| JObj (l : list (text * json)).

Fixpoint assoc {V} (k : text) (l : list (text * V)) : option V :=
  match l with
  | [] => None
  | (k', v) :: r => if text_eqb k k' then Some v else assoc k r
  end.

Fixpoint assoc_remove {V} (k : text) (l : list (text * V)) : list (text * V) :=
  match l with
  | [] => []
  | (k', v) :: r => if text_eqb k k' then assoc_remove k r else (k', v) :: assoc_remove k r
  end.

(* HashMap::insert as an association list: replace in place, else append. *)
Fixpoint assoc_set {V} (k : text) (v : V) (l : list (text * V)) : list (text * V) :=
  match l with
  | [] => [(k, v)]
  | (k', v') :: r => if text_eqb k k' then (k, v) :: r else (k', v') :: assoc_set k v r
  end.

Definition assoc_mem {V} (k : text) (l : list (text * V)) : bool :=
  match assoc k l with Some _ => true | None => false end.

(* serde_json::Map::get on an object; duplicate keys: serde keeps the LAST value
   at the FIRST key's position (preserve_order) — json2coq.py emits documents
   after serde's own de-duplication, so keys are unique here. *)
Definition jget (k : string) (j : json) : option json :=
  match j with JObj l => assoc (T k) l | _ => None end.
Definition jget_t (k : text) (j : json) : option json :=
  match j with JObj l => assoc k l | _ => None end.
Definition j_as_str (j : json) : option text := match j with JStr s => Some s | _ => None end.
Definition j_as_arr (j : json) : option (list json) := match j with JArr l => Some l | _ => None end.
Definition j_as_obj (j : json) : option (list (text * json)) := match j with JObj l => Some l | _ => None end.
Definition j_as_bool (j : json) : option bool := match j with JBool b => Some b | _ => None end.
Definition i64_min : Z := -9223372036854775808.
Definition i64_max : Z := 9223372036854775807.
Definition u64_max : Z := 18446744073709551615.
(* Value::as_i64 / as_u64 / is_i64 *)
Definition j_as_i64 (j : json) : option Z :=
  match j with JInt z => if (i64_min <=? z)%Z && (z <=? i64_max)%Z then Some z else None | _ => None end.
Definition j_as_u64 (j : json) : option Z :=
  match j with JInt z => if (0 <=? z)%Z && (z <=? u64_max)%Z then Some z else None | _ => None end.
Definition j_is_number (j : json) : bool :=
  match j with JInt _ | JFloat _ => true | _ => false end.

(* ---------- paths ---------- *)
Inductive comp :=
| CIdx (i : N)
| CName (n : text).

Record path := mkPath {
  p_comps : list comp;
  p_rel : bool;
  p_cache : option text      (* OnceCell<String> components_string *)
}.

(* ---------- values ---------- *)
Record listitem := mkItem { it_origin : option text; it_name : text }.

Record inklist := mkList {
  l_items : list (listitem * Z);      (* HashMap<InkListItem,i32>: duplicate-free *)
  l_origins : list text;              (* names of the origin definitions (Vec<ListDefinition>) *)
  l_init_names : list text            (* initial_origin_names *)
}.

Inductive value :=
| VBool (b : bool)
| VInt (z : Z)
| VFloat (bits : Z)
| VList (l : inklist)
| VString (s : text)
| VDivert (p : path)
| VVarPtr (name : text) (ci : Z).

(* cast ordinals = discriminant order of enum ValueType (checked by T-gen) *)
Definition cast_ordinal (v : value) : N :=
  match v with
  | VBool _ => 0 | VInt _ => 1 | VFloat _ => 2 | VList _ => 3
  | VString _ => 4 | VDivert _ => 5 | VVarPtr _ _ => 6
  end.

Definition str_is_newline (s : text) : bool := text_eqb s [c_nl].
Definition str_is_inline_ws (s : text) : bool := forallb is_inline_ws s.
Definition str_is_non_ws (s : text) : bool := negb (str_is_newline s) && negb (str_is_inline_ws s).

(* list definitions: name -> (item name -> value) *)
Definition listdef := (text * list (text * Z))%type.
Definition listdefs := list listdef.

(* ---------- the content tree ---------- *)
Inductive pushpop := PTunnel | PFunction | PFunctionEvalFromGame.

Inductive cmd :=
| EvalStart | EvalOutput | EvalEnd | Duplicate | PopEvaluatedValue | PopFunction | PopTunnel
| BeginString | EndString | NoOp | ChoiceCount | Turns | TurnsSince | ReadCount | Random
| SeedRandom | VisitIndex | SequenceShuffleIndex | StartThread | Done | End
| ListFromInt | ListRange | ListRandom | BeginTag | EndTag.

Inductive nop :=
| NAdd | NSubtract | NDivide | NMultiply | NMod | NNegate | NEqual | NGreater | NLess
| NGreaterEq | NLessEq | NNotEquals | NNot | NAnd | NOr | NMin | NMax | NPow | NFloor
| NCeiling | NInt | NFloat | NHas | NHasnt | NIntersect | NListMin | NListMax | NAll
| NCount | NValueOfList | NInvert.

Record divert := mkDivert {
  d_target : option path;
  d_var : option text;
  d_pushes : bool;
  d_type : pushpop;
  d_external : bool;
  d_exargs : Z;
  d_cond : bool
}.

(* A choice as it appears in a saved state (json_read::jobject_to_choice). *)
Record saved_choice := mkSavedChoice {
  sc_text : text;
  sc_index : Z;
  sc_source_path : text;
  sc_orig_thread : Z;
  sc_target : path;
  sc_tags : list text
}.

Inductive obj :=
| OCont (c : container)
| OVal (v : value)
| ODivert (d : divert)
| OChoicePoint (flags : Z) (on_choice : path)
| OCmd (c : cmd)
| ONative (op : nop)
| OVarRef (name : text)
| OReadCount (p : path)
| OVarAss (name : text) (is_new : bool) (is_global : bool)
| OTag (t : text)
| OGlue
| OVoid
| OChoice (c : saved_choice)
with container :=
| Cont (name : option text)
       (count_visits count_turns start_only : bool)
       (content : list obj)
       (named_only : list (text * container)).

Definition c_name (c : container) := let 'Cont n _ _ _ _ _ := c in n.
Definition c_visits (c : container) := let 'Cont _ v _ _ _ _ := c in v.
Definition c_turns (c : container) := let 'Cont _ _ t _ _ _ := c in t.
Definition c_start_only (c : container) := let 'Cont _ _ _ s _ _ := c in s.
Definition c_content (c : container) := let 'Cont _ _ _ _ l _ := c in l.
Definition c_named_only (c : container) := let 'Cont _ _ _ _ _ n := c in n.

Definition has_valid_name (c : container) : bool :=
  match c_name c with Some (_ :: _) => true | _ => false end.

(* ---------- positions (object identity) ---------- *)
(* SI i : i-th element of `content`;  SN n : entry n of the named-only map *)
Inductive pstep := SI (i : nat) | SN (n : text).
Definition pos := list pstep.            (* from the root, outermost first *)

Definition pstep_eqb (a b : pstep) : bool :=
  match a, b with
  | SI i, SI j => Nat.eqb i j
  | SN n, SN m => text_eqb n m
  | _, _ => false
  end.
Fixpoint pos_eqb (a b : pos) : bool :=
  match a, b with
  | [], [] => true
  | x :: a', y :: b' => pstep_eqb x y && pos_eqb a' b'
  | _, _ => false
  end.

Definition child (c : container) (s : pstep) : option obj :=
  match s with
  | SI i => nth_error (c_content c) i
  | SN n => option_map OCont (assoc n (c_named_only c))
  end.

Fixpoint obj_at (c : container) (p : pos) : option obj :=
  match p with
  | [] => Some (OCont c)
  | s :: r =>
      match child c s with
      | Some (OCont c') => obj_at c' r
      | Some o => match r with [] => Some o | _ => None end
      | None => None
      end
  end.

Definition cont_at (c : container) (p : pos) : option container :=
  match obj_at c p with Some (OCont c') => Some c' | _ => None end.

Definition pos_parent (p : pos) : option pos :=
  match p with [] => None | _ => Some (removelast p) end.

(* a loaded story *)
Record story := mkStory {
  st_version : Z;
  st_root : container;
  st_listdefs : listdefs
}.
